#!/bin/bash
# integrator tool: commit a proposed fix diff to /repo as one "fix:" commit and record it as fixed in known_findings.json
#   tools_fix.sh <PROP> <diff-file> "<what failed>" [known-id-to-remove ...]
set -e
P=$1; D=$(realpath $2); WHAT=$3; shift 3
MSG=$(awk '/^(diff --git|--- a\/)/{exit} {print}' "$D")
if [ -n "${FIXMSG:-}" ]; then MSG="$FIXMSG"; fi
case "$MSG" in fix:*) ;; *) echo "diff has no 'fix:' header"; exit 1;; esac
git -C /repo apply --check "$D"
git -C /repo apply "$D"
git -C /repo add -A src
git -C /repo commit -q -m "$MSG"
C=$(git -C /repo rev-parse --short HEAD)
python3 - "$P" "$C" "$WHAT" "$@" <<'PY'
import json,sys
p='/verif/known_findings.json'; d=json.load(open(p))
prop,commit,what=sys.argv[1:4]; rm=set(sys.argv[4:])
d['known']=[k for k in d['known'] if k['id'] not in rm]
d['fixed'].append({'property':prop,'commit':commit,'what':what,'line':'fixed: property=%s %s %s'%(prop,commit,what)})
json.dump(d,open(p,'w'),indent=1)
PY
echo "committed $C: $(echo "$MSG" | head -1)"
