// C05 correspondence harness for the two modelled mechanisms (lean/XalanModel/C05/{Sax,Stream}.lean).
//
//  sax <ev>...      feeds the events to the REAL XalanSourceTreeContentHandler obtained from
//                   XalanTransformer::createDocumentBuilder() (startDocument ... endDocument) and prints
//                   the tree that was built.  Events: S:<name>[:<attr>=<value>]*  E  C:<text>
//                   W:<text> (ignorableWhitespace)  M:<comment>  P:<target>:<data>  D (startDTD)  d (endDTD)
//                   strings = 4 hex digits per UTF-16 unit, "-" = empty.
//                   reply:  ok <dump> ord=<0|1>   |  err hierarchy
//                   ord = node indices strictly increase in document order (evaluated on the real tree).
//  out <bufsize> <budget|-> <flushhandler 0|1> <op>...
//                   drives the REAL XalanOutputStreamPrintWriter -> XalanTransformerOutputStream with
//                   w:<units> (wide string) c:<unit> (wide char) n:<bytes, 2 hex each> (narrow) f (flush)
//                   u (setOutputEncoding UTF-16); the user callbacks log what they receive.
//                   reply:  <k:<bytes>|F>... | ok|exc
//  data <bytes>     what XalanTransformToData's ostrstream/str() hands back as a C string for that output
#include <xalanc/Include/PlatformDefinitions.hpp>
#include <xercesc/util/PlatformUtils.hpp>
#include <xercesc/sax2/ContentHandler.hpp>
#include <xercesc/sax2/LexicalHandler.hpp>
#include <xalanc/PlatformSupport/AttributesImpl.hpp>
#include <xalanc/PlatformSupport/AttributeListImpl.hpp>
#include <xalanc/XalanSourceTree/FormatterToSourceTree.hpp>
#include <xalanc/XalanSourceTree/XalanSourceTreeDOMSupport.hpp>
#include <xalanc/XalanSourceTree/XalanSourceTreeParserLiaison.hpp>
#include <xalanc/XalanSourceTree/XalanSourceTreeDocument.hpp>
#include <xalanc/PlatformSupport/XalanOutputStreamPrintWriter.hpp>
#include <xalanc/PlatformSupport/XSLException.hpp>
#include <xalanc/XalanDOM/XalanDOMException.hpp>
#include <xalanc/XalanDOM/XalanDocument.hpp>
#include <xalanc/XalanDOM/XalanNamedNodeMap.hpp>
#include <xalanc/XalanDOM/XalanText.hpp>
#include <xalanc/XalanTransformer/XalanTransformer.hpp>
#include <xalanc/XalanTransformer/XalanDocumentBuilder.hpp>
#include <xalanc/XalanTransformer/XalanTransformerOutputStream.hpp>
#include <xalanc/XercesParserLiaison/XercesParserLiaison.hpp>
#include <xercesc/dom/DOM.hpp>
#include <xalanc/XercesParserLiaison/FormatterToXercesDOM.hpp>
#include <xalanc/XercesParserLiaison/XercesDOMException.hpp>

#include <cstdio>
#include <cstring>
#include <iostream>
#include <sstream>
#include <strstream>
#include <string>
#include <vector>

using namespace xalanc;

typedef std::vector<XalanDOMChar> U16;

static int hexv(char c)
{
    if (c >= '0' && c <= '9') return c - '0';
    if (c >= 'a' && c <= 'f') return c - 'a' + 10;
    if (c >= 'A' && c <= 'F') return c - 'A' + 10;
    return -1;
}

static bool unitsOf(const std::string& s, U16& out)
{
    out.clear();
    if (s == "-") { out.push_back(0); return true; }
    if (s.size() % 4) return false;
    for (size_t i = 0; i < s.size(); i += 4)
    {
        int v = 0;
        for (int k = 0; k < 4; ++k) { int h = hexv(s[i + k]); if (h < 0) return false; v = v * 16 + h; }
        out.push_back(XalanDOMChar(v));
    }
    out.push_back(0);   // NUL terminated, length = size()-1
    return true;
}

static bool bytesOf(const std::string& s, std::string& out)
{
    out.clear();
    if (s == "-") return true;
    if (s.size() % 2) return false;
    for (size_t i = 0; i < s.size(); i += 2)
    {
        int a = hexv(s[i]), b = hexv(s[i + 1]);
        if (a < 0 || b < 0) return false;
        out.push_back(char(a * 16 + b));
    }
    return true;
}

static std::string hexUnits(const XalanDOMString& s)
{
    if (s.length() == 0) return "-";
    std::string r;
    char b[8];
    for (XalanDOMString::size_type i = 0; i < s.length(); ++i) { std::snprintf(b, sizeof b, "%04x", unsigned(s[i])); r += b; }
    return r;
}

static std::string hexBytes(const char* p, size_t n)
{
    if (n == 0) return "-";
    std::string r;
    char b[4];
    for (size_t i = 0; i < n; ++i) { std::snprintf(b, sizeof b, "%02x", unsigned((unsigned char)p[i])); r += b; }
    return r;
}

static std::vector<std::string> split(const std::string& s, char sep)
{
    std::vector<std::string> r;
    std::string cur;
    for (char c : s) { if (c == sep) { r.push_back(cur); cur.clear(); } else cur.push_back(c); }
    r.push_back(cur);
    return r;
}

// ---- tree dump (XalanNode interface) -----------------------------------------------------------
static bool g_ordered;
static XalanNode::IndexType g_last;

static void noteIndex(const XalanNode* n)
{
    if (!n->isIndexed()) { g_ordered = false; return; }
    if (n->getIndex() <= g_last) g_ordered = false;
    g_last = n->getIndex();
}

static void dumpChain(const XalanNode* n, std::string& o)
{
    for (; n != 0; n = n->getNextSibling())
    {
        noteIndex(n);
        switch (n->getNodeType())
        {
        case XalanNode::ELEMENT_NODE:
        {
            o += "e("; o += hexUnits(n->getNodeName());
            const XalanNamedNodeMap* am = n->getAttributes();
            for (XalanSize_t i = 0; am != 0 && i < am->getLength(); ++i)
            {
                const XalanNode* a = am->item(i);
                noteIndex(a);
                o += ";"; o += hexUnits(a->getNodeName()); o += "="; o += hexUnits(a->getNodeValue());
            }
            o += ")[";
            dumpChain(n->getFirstChild(), o);
            o += "]";
            break;
        }
        case XalanNode::TEXT_NODE:
        case XalanNode::CDATA_SECTION_NODE:
            o += "t("; o += hexUnits(n->getNodeValue());
            o += static_cast<const XalanText*>(n)->isWhitespace() ? ";1)" : ";0)";
            break;
        case XalanNode::COMMENT_NODE:
            o += "m("; o += hexUnits(n->getNodeValue()); o += ")";
            break;
        case XalanNode::PROCESSING_INSTRUCTION_NODE:
            o += "p("; o += hexUnits(n->getNodeName()); o += ";"; o += hexUnits(n->getNodeValue()); o += ")";
            break;
        default:
            o += "?";
        }
    }
}

static std::string doSax(XalanTransformer& tr, const std::vector<std::string>& evs)
{
    XalanDocumentBuilder* const b = tr.createDocumentBuilder();
    std::string reply;
    try
    {
        xercesc::ContentHandler* const ch = b->getContentHandler();
        xercesc::LexicalHandler* const lh = b->getLexicalHandler();
        const XalanDOMChar empty = 0;
        ch->startDocument();
        for (const std::string& e : evs)
        {
            const char k = e.empty() ? '?' : e[0];
            std::vector<std::string> f = split(e, ':');
            U16 a, c;
            if (k == 'S')
            {
                if (f.size() < 2 || !unitsOf(f[1], a)) return "bad";
                AttributesImpl attrs;
                std::vector<U16> keep;
                for (size_t i = 2; i < f.size(); ++i)
                {
                    std::vector<std::string> nv = split(f[i], '=');
                    U16 an, av;
                    if (nv.size() != 2 || !unitsOf(nv[0], an) || !unitsOf(nv[1], av)) return "bad";
                    static const XalanDOMChar cdata[] = { 'C', 'D', 'A', 'T', 'A', 0 };
                    attrs.addAttribute(&an[0], cdata, &av[0]);
                }
                ch->startElement(&empty, &a[0], &a[0], attrs);
            }
            else if (k == 'E') ch->endElement(&empty, &empty, &empty);
            else if (k == 'C') { if (f.size() != 2 || !unitsOf(f[1], a)) return "bad"; ch->characters(&a[0], a.size() - 1); }
            else if (k == 'W') { if (f.size() != 2 || !unitsOf(f[1], a)) return "bad"; ch->ignorableWhitespace(&a[0], a.size() - 1); }
            else if (k == 'M') { if (f.size() != 2 || !unitsOf(f[1], a)) return "bad"; lh->comment(&a[0], a.size() - 1); }
            else if (k == 'P') { if (f.size() != 3 || !unitsOf(f[1], a) || !unitsOf(f[2], c)) return "bad"; ch->processingInstruction(&a[0], &c[0]); }
            else if (k == 'D') lh->startDTD(&empty, &empty, &empty);
            else if (k == 'd') lh->endDTD();
            else return "bad";
        }
        ch->endDocument();
        g_ordered = true;
        g_last = 0;
        const XalanDocument* d = b->getDocument();
        noteIndex(d);
        std::string dump;
        dumpChain(d->getFirstChild(), dump);
        reply = "ok " + (dump.empty() ? std::string("-") : dump) + (g_ordered ? " ord=1" : " ord=0") + " max=" + std::to_string((unsigned long)g_last);
    }
    catch (const XalanDOMException& e)
    {
        reply = e.getExceptionCode() == XalanDOMException::HIERARCHY_REQUEST_ERR ? "err hierarchy" : "err dom";
    }
    tr.destroyDocumentBuilder(b);
    return reply;
}

// ---- FormatterToSourceTree as result target ------------------------------------------------------
//  fst <ev>...   S:<name>[:<attr>=<value>]* E C:<text> K:<cdata> R:<raw characters> W:<ignorable ws> M:<comment> P:<t>:<d>
static std::string doFst(const std::vector<std::string>& evs)
{
    XalanSourceTreeDOMSupport support;
    XalanSourceTreeParserLiaison liaison(support);
    support.setParserLiaison(&liaison);
    XalanSourceTreeDocument* const doc = liaison.createXalanSourceTreeDocument();
    FormatterToSourceTree f(XalanMemMgrs::getDefaultXercesMemMgr(), doc);
    try
    {
        f.startDocument();
        for (const std::string& e : evs)
        {
            const char k = e.empty() ? '?' : e[0];
            std::vector<std::string> fl = split(e, ':');
            U16 a, c;
            if (k == 'S')
            {
                if (fl.size() < 2 || !unitsOf(fl[1], a)) return "bad";
                AttributeListImpl attrs(XalanMemMgrs::getDefaultXercesMemMgr());
                for (size_t i = 2; i < fl.size(); ++i)
                {
                    std::vector<std::string> nv = split(fl[i], '=');
                    U16 an, av;
                    if (nv.size() != 2 || !unitsOf(nv[0], an) || !unitsOf(nv[1], av)) return "bad";
                    static const XalanDOMChar cdata[] = { 'C', 'D', 'A', 'T', 'A', 0 };
                    attrs.addAttribute(&an[0], cdata, &av[0]);
                }
                f.startElement(&a[0], attrs);
            }
            else if (k == 'E') { static const XalanDOMChar nm[] = { 'x', 0 }; f.endElement(nm); }
            else if (k == 'C') { if (fl.size() != 2 || !unitsOf(fl[1], a)) return "bad"; f.characters(&a[0], a.size() - 1); }
            else if (k == 'K') { if (fl.size() != 2 || !unitsOf(fl[1], a)) return "bad"; f.cdata(&a[0], a.size() - 1); }
            else if (k == 'R') { if (fl.size() != 2 || !unitsOf(fl[1], a)) return "bad"; f.charactersRaw(&a[0], a.size() - 1); }
            else if (k == 'W') { if (fl.size() != 2 || !unitsOf(fl[1], a)) return "bad"; f.ignorableWhitespace(&a[0], a.size() - 1); }
            else if (k == 'M') { if (fl.size() != 2 || !unitsOf(fl[1], a)) return "bad"; f.comment(&a[0]); }
            else if (k == 'P') { if (fl.size() != 3 || !unitsOf(fl[1], a) || !unitsOf(fl[2], c)) return "bad"; f.processingInstruction(&a[0], &c[0]); }
            else return "bad";
        }
        f.endDocument();
        g_ordered = true;
        g_last = 0;
        noteIndex(doc);
        std::string dump;
        dumpChain(doc->getFirstChild(), dump);
        return "ok " + (dump.empty() ? std::string("-") : dump) + (g_ordered ? " ord=1" : " ord=0");
    }
    catch (const XalanDOMException& e)
    {
        return e.getExceptionCode() == XalanDOMException::HIERARCHY_REQUEST_ERR ? "err hierarchy" : "err dom";
    }
}

// ---- eagerly built Xerces-DOM wrapper -------------------------------------------------------------
//  wrap <ev>...   S:<name>[:<attr>=<value>]* (attributes in name order)  E  C:<text>  M:<comment>  P:<t>:<d>
//  the DOM is built node by node (adjacent text nodes stay separate), wrapped with buildWrapper=true
static std::string doWrap(const std::vector<std::string>& evs)
{
    namespace xc = xercesc;
    xc::DOMDocument* const dom = xc::DOMImplementation::getImplementation()->createDocument();
    std::string reply;
    try
    {
        std::vector<xc::DOMNode*> stack;
        stack.push_back(dom);
        for (const std::string& e : evs)
        {
            const char k = e.empty() ? '?' : e[0];
            std::vector<std::string> fl = split(e, ':');
            U16 a, c;
            if (k == 'S')
            {
                if (fl.size() < 2 || !unitsOf(fl[1], a)) { dom->release(); return "bad"; }
                xc::DOMElement* el = dom->createElement(&a[0]);
                for (size_t i = 2; i < fl.size(); ++i)
                {
                    std::vector<std::string> nv = split(fl[i], '=');
                    U16 an, av;
                    if (nv.size() != 2 || !unitsOf(nv[0], an) || !unitsOf(nv[1], av)) { dom->release(); return "bad"; }
                    el->setAttribute(&an[0], &av[0]);
                }
                stack.back()->appendChild(el);
                stack.push_back(el);
            }
            else if (k == 'E') { if (stack.size() < 2) { dom->release(); return "bad"; } stack.pop_back(); }
            else if (k == 'C') { if (fl.size() != 2 || !unitsOf(fl[1], a)) { dom->release(); return "bad"; } stack.back()->appendChild(dom->createTextNode(&a[0])); }
            else if (k == 'M') { if (fl.size() != 2 || !unitsOf(fl[1], a)) { dom->release(); return "bad"; } stack.back()->appendChild(dom->createComment(&a[0])); }
            else if (k == 'P') { if (fl.size() != 3 || !unitsOf(fl[1], a) || !unitsOf(fl[2], c)) { dom->release(); return "bad"; } stack.back()->appendChild(dom->createProcessingInstruction(&a[0], &c[0])); }
            else { dom->release(); return "bad"; }
        }
        XercesParserLiaison liaison;
        XalanDocument* const w = liaison.createDocument(dom, true, true, true);
        g_ordered = true;
        g_last = 0;
        noteIndex(w);
        std::string dump;
        dumpChain(w->getFirstChild(), dump);
        reply = "ok " + (dump.empty() ? std::string("-") : dump) + (g_ordered ? " ord=1" : " ord=0") + " max=" + std::to_string((unsigned long)g_last);
        liaison.destroyDocument(w);
    }
    catch (const xc::DOMException&) { reply = "err dom"; }
    catch (const XalanDOMException&) { reply = "err dom"; }
    dom->release();
    return reply;
}

// ---- FormatterToXercesDOM as result target -------------------------------------------------------------
//  xdom <ev>...  same events as `fst`; the DOM built is shown through a non-indexed wrapper (CDATASection nodes as text)
static std::string doXdom(const std::vector<std::string>& evs)
{
    namespace xc = xercesc;
    xc::DOMDocument* const dom = xc::DOMImplementation::getImplementation()->createDocument();
    std::string reply;
    try
    {
        FormatterToXercesDOM f(dom, 0);
        f.startDocument();
        for (const std::string& e : evs)
        {
            const char k = e.empty() ? '?' : e[0];
            std::vector<std::string> fl = split(e, ':');
            U16 a, c;
            if (k == 'S')
            {
                if (fl.size() < 2 || !unitsOf(fl[1], a)) { dom->release(); return "bad"; }
                AttributeListImpl attrs(XalanMemMgrs::getDefaultXercesMemMgr());
                for (size_t i = 2; i < fl.size(); ++i)
                {
                    std::vector<std::string> nv = split(fl[i], '=');
                    U16 an, av;
                    if (nv.size() != 2 || !unitsOf(nv[0], an) || !unitsOf(nv[1], av)) { dom->release(); return "bad"; }
                    static const XalanDOMChar cdata[] = { 'C', 'D', 'A', 'T', 'A', 0 };
                    attrs.addAttribute(&an[0], cdata, &av[0]);
                }
                f.startElement(&a[0], attrs);
            }
            else if (k == 'E') { static const XalanDOMChar nm[] = { 'x', 0 }; f.endElement(nm); }
            else if (k == 'C') { if (fl.size() != 2 || !unitsOf(fl[1], a)) { dom->release(); return "bad"; } f.characters(&a[0], a.size() - 1); }
            else if (k == 'K') { if (fl.size() != 2 || !unitsOf(fl[1], a)) { dom->release(); return "bad"; } f.cdata(&a[0], a.size() - 1); }
            else if (k == 'R') { if (fl.size() != 2 || !unitsOf(fl[1], a)) { dom->release(); return "bad"; } f.charactersRaw(&a[0], a.size() - 1); }
            else if (k == 'W') { if (fl.size() != 2 || !unitsOf(fl[1], a)) { dom->release(); return "bad"; } f.ignorableWhitespace(&a[0], a.size() - 1); }
            else if (k == 'M') { if (fl.size() != 2 || !unitsOf(fl[1], a)) { dom->release(); return "bad"; } f.comment(&a[0]); }
            else if (k == 'P') { if (fl.size() != 3 || !unitsOf(fl[1], a) || !unitsOf(fl[2], c)) { dom->release(); return "bad"; } f.processingInstruction(&a[0], &c[0]); }
            else { dom->release(); return "bad"; }
        }
        f.endDocument();
        XercesParserLiaison liaison;
        XalanDocument* const w = liaison.createDocument(dom, false, false, false);
        std::string dump;
        g_ordered = true; g_last = 0;
        dumpChain(w->getFirstChild(), dump);
        reply = "ok " + (dump.empty() ? std::string("-") : dump);
        liaison.destroyDocument(w);
    }
    catch (const XercesDOMException& e)
    {
        reply = e.getExceptionCode() == XalanDOMException::HIERARCHY_REQUEST_ERR ? "err hierarchy" : "err dom";
    }
    catch (const XalanDOMException& e)
    {
        reply = e.getExceptionCode() == XalanDOMException::HIERARCHY_REQUEST_ERR ? "err hierarchy" : "err dom";
    }
    catch (const xc::DOMException& e)
    {
        reply = e.code == xc::DOMException::HIERARCHY_REQUEST_ERR ? "err hierarchy" : "err dom";
    }
    dom->release();
    return reply;
}

// ---- xml-stylesheet PI scan -------------------------------------------------------------------------
//  pi <child>...   children of the document before the document element: X:<data> (PI xml-stylesheet), O (another PI),
//                  M (comment).  The document is built through XalanDocumentBuilder and transformed with the
//                  "stylesheet from the PI" overload; the stylesheets named by the hrefs print their own name.
//  reply:          rc=<status> out=<text of the result>
static std::string doPi(XalanTransformer& tr, const std::vector<std::string>& kids)
{
    XalanDocumentBuilder* const b = tr.createDocumentBuilder();
    std::string reply;
    try
    {
        xercesc::ContentHandler* const ch = b->getContentHandler();
        xercesc::LexicalHandler* const lh = b->getLexicalHandler();
        const XalanDOMChar empty = 0;
        static const XalanDOMChar xs[] = { 'x','m','l','-','s','t','y','l','e','s','h','e','e','t',0 };
        static const XalanDOMChar ot[] = { 'o','t','h','e','r',0 };
        static const XalanDOMChar rn[] = { 'r',0 };
        ch->startDocument();
        for (const std::string& e : kids)
        {
            std::vector<std::string> f = split(e, ':');
            U16 a;
            if (e[0] == 'X') { if (f.size() != 2 || !unitsOf(f[1], a)) return "bad"; ch->processingInstruction(xs, &a[0]); }
            else if (e[0] == 'O') ch->processingInstruction(ot, &empty);
            else if (e[0] == 'M') lh->comment(ot, 5);
            else return "bad";
        }
        AttributesImpl attrs;
        ch->startElement(&empty, rn, rn, attrs);
        ch->endElement(&empty, rn, rn);
        ch->endDocument();
        std::ostringstream os;
        std::ostringstream msgs;
        tr.setWarningStream(&msgs);
        tr.setErrorStream(&msgs);
        const int rc = tr.transform(*b, XSLTResultTarget(os));
        std::string out = os.str();
        std::string txt;
        for (char c : out) if (c == 'A' || c == 'B') txt.push_back(c);
        reply = "rc=" + std::to_string(rc == 0 ? 0 : -1) + " out=" + (txt.empty() ? "-" : txt);
    }
    catch (const XalanDOMException&) { reply = "err dom"; }
    tr.destroyDocumentBuilder(b);
    return reply;
}

// ---- callback stream --------------------------------------------------------------------------
struct Sink
{
    std::string log;
    long budget;       // < 0: unlimited
};

static CallbackSizeType outHandler(const char* data, CallbackSizeType len, void* h)
{
    Sink* s = static_cast<Sink*>(h);
    s->log += "k:" + hexBytes(data, len) + " ";
    if (s->budget == 0) return len + 1;      // report a wrong count
    if (s->budget > 0) --s->budget;
    return len;
}

static void flushHandler(void* h)
{
    static_cast<Sink*>(h)->log += "F ";
}

static std::string doOut(const std::vector<std::string>& t)
{
    if (t.size() < 3) return "bad";
    Sink sink;
    const unsigned long bufSize = std::strtoul(t[0].c_str(), 0, 10);
    sink.budget = t[1] == "-" ? -1 : std::strtol(t[1].c_str(), 0, 10);
    const bool fh = t[2] == "1";
    std::string status = "ok";
    {
        XalanTransformerOutputStream os(XalanMemMgrs::getDefaultXercesMemMgr(), &sink, outHandler, fh ? flushHandler : 0);
        os.setBufferSize(XalanOutputStream::size_type(bufSize));
        XalanOutputStreamPrintWriter pw(os);
        try
        {
            for (size_t i = 3; i < t.size(); ++i)
            {
                const std::string& e = t[i];
                std::vector<std::string> f = split(e, ':');
                U16 a;
                std::string by;
                if (e[0] == 'w') { if (f.size() != 2 || !unitsOf(f[1], a)) return "bad"; pw.write(&a[0], 0, a.size() - 1); }
                else if (e[0] == 'c') { if (f.size() != 2 || !unitsOf(f[1], a) || a.size() != 2) return "bad"; pw.write(a[0]); }
                else if (e[0] == 'n') { if (f.size() != 2 || !bytesOf(f[1], by)) return "bad"; pw.write(by.data(), 0, by.size()); }
                else if (e[0] == 'f') pw.flush();
                else if (e[0] == 'u') os.setOutputEncoding(XalanDOMString("UTF-16"));
                else if (e[0] == 'e') os.setOutputEncoding(XalanDOMString("UTF-8"));   // a real pair-aware transcoder
                else return "bad";
            }
            // what the serializer's endDocument does; without it a refusing handler would make the destructor's
            // flush throw during destruction (std::terminate)
            pw.flush();
        }
        catch (const XSLException&)
        {
            status = "exc";
        }
    }   // ~XalanOutputStreamPrintWriter flushes again (buffer is empty by now)
    return sink.log + "| " + status;
}

static std::string doData(const std::string& hex)
{
    std::string by;
    if (!bytesOf(hex, by)) return "bad";
    // exactly what XalanTransformToData does with its ostrstream
    std::ostrstream os;
    os.write(by.data(), std::streamsize(by.size()));
    os << '\0';
    char* p = os.str();
    std::string r = hexBytes(p, std::strlen(p));
    delete[] p;
    return r;
}

int main()
{
    xercesc::XMLPlatformUtils::Initialize();
    XalanTransformer::initialize();
    {
        XalanTransformer tr;
        std::string line;
        while (std::getline(std::cin, line))
        {
            std::istringstream in(line);
            std::string sub, w;
            in >> sub;
            std::vector<std::string> t;
            while (in >> w) t.push_back(w);
            std::string r;
            if (sub == "sax") r = doSax(tr, t);
            else if (sub == "out") r = doOut(t);
            else if (sub == "fst") r = doFst(t);
            else if (sub == "wrap") r = doWrap(t);
            else if (sub == "xdom") r = doXdom(t);
            else if (sub == "pi") r = doPi(tr, t);
            else if (sub == "data") r = t.size() == 1 ? doData(t[0]) : "bad";
            else r = "bad";
            std::cout << r << "\n";
        }
    }
    XalanTransformer::terminate();
    xercesc::XMLPlatformUtils::Terminate();
    return 0;
}
