// C15 correspondence harness: runs generated key() scenarios through the real library
// (XalanTransformer, in-process, linked against the fresh build of /repo's working tree).
//
//   usage: c15_keys <workdir>
//   file <name> <hex-of-bytes>      write <workdir>/<name>                      -> ok
//   run <stylesheet> <source>       transform <workdir>/<source> with <workdir>/<stylesheet>
//                                   -> out <hex of the (text) result>  |  ERR <hex of getLastError()>
//   anything else (lines meant for the Lean driver)                             -> ok
//
// The stylesheet itself evaluates, for every lookup, key(k,v), the brute-force expression defining it, and
// count(K|B), count(K), count(B), and prints generate-id() of every node (checks/c15.py decodes this).
#include <xalanc/Include/PlatformDefinitions.hpp>
#include <xercesc/util/PlatformUtils.hpp>
#include <xalanc/XalanTransformer/XalanTransformer.hpp>

#include <cstdio>
#include <fstream>
#include <iostream>
#include <sstream>
#include <string>

using namespace xalanc;

static int hexval(char c)
{
    if (c >= '0' && c <= '9') return c - '0';
    if (c >= 'a' && c <= 'f') return c - 'a' + 10;
    if (c >= 'A' && c <= 'F') return c - 'A' + 10;
    return -1;
}

static std::string unhex(const std::string& h)
{
    std::string o;
    if (h == "-") return o;
    for (size_t i = 0; i + 1 < h.size(); i += 2)
        o.push_back(char(hexval(h[i]) * 16 + hexval(h[i + 1])));
    return o;
}

static std::string hex(const std::string& s)
{
    static const char* d = "0123456789abcdef";
    if (s.empty()) return "-";
    std::string o;
    for (unsigned char c : s) { o.push_back(d[c >> 4]); o.push_back(d[c & 15]); }
    return o;
}

int main(int argc, char** argv)
{
    if (argc < 2) { std::fprintf(stderr, "usage: c15_keys <workdir>\n"); return 2; }
    const std::string dir = argv[1];
    xercesc::XMLPlatformUtils::Initialize();
    XalanTransformer::initialize();
    {
        std::string line;
        while (std::getline(std::cin, line))
        {
            std::istringstream is(line);
            std::string cmd;
            is >> cmd;
            if (cmd == "file")
            {
                std::string name, h;
                is >> name >> h;
                std::ofstream f((dir + "/" + name).c_str(), std::ios::binary | std::ios::trunc);
                f << unhex(h);
                f.close();
                std::cout << "ok\n";
            }
            else if (cmd == "run")
            {
                std::string xsl, xml;
                is >> xsl >> xml;
                std::ostringstream out;
                std::string reply;
                try
                {
                    XalanTransformer t;
                    t.setWarningStream(0);
                    const std::string xmlPath = dir + "/" + xml, xslPath = dir + "/" + xsl;
                    const int rc = t.transform(XSLTInputSource(xmlPath.c_str()), XSLTInputSource(xslPath.c_str()),
                                               XSLTResultTarget(out));
                    if (rc == 0) reply = "out " + hex(out.str());
                    else reply = "ERR " + hex(t.getLastError() ? t.getLastError() : "");
                }
                catch (...)
                {
                    reply = "ERR " + hex("exception escaped XalanTransformer::transform");
                }
                std::cout << reply << "\n";
            }
            else
            {
                std::cout << "ok\n";
            }
            std::cout.flush();
        }
    }
    XalanTransformer::terminate();
    xercesc::XMLPlatformUtils::Terminate();
    return 0;
}
