// C05 real-API harness: runs ONE (source document, stylesheet) pair through the product of supported forms
//   source:      file | stream | ps (XalanDefaultParsedSource) | psx (XercesDOMParsedSource) |
//                wrap (XercesDOMWrapperParsedSource over a XercesDOMParser document) |
//                build (XalanDocumentBuilder fed by a SAX2XMLReader) | lazy (non-indexed XercesDocumentWrapper, extra)
//   stylesheet:  is (XSLTInputSource) | cs (compiled) | pi (xml-stylesheet PI in the document)
//   target:      file | fp (FILE*) | os (ostream) | cb (callback overloads) | cb1 cb7 (own XalanTransformerOutputStream with
//                buffer size 1 / 7 behind a Writer target) | xdom (FormatterToXercesDOM) | stree (FormatterToSourceTree)
//   api:         cpp | c (XalanCAPI)
// request line:  case <dir> <xml|bytes> [lazy]        files <dir>/src.xml <dir>/style.xsl, scratch output <dir>/out.tmp
// reply lines:   r <api> <source> <stylesheet> <target> <rc> B:<len>:<fnv64>   (byte targets)
//                r <api> <source> <stylesheet> <target> <rc> T:<fnv64>         (tree targets, canonical dump)
//                t <fnv64>      canonical dump of the re-parsed reference bytes (only for `xml`)
//                end
// With C05_VERBOSE=1 every r-line is followed by "  | <escaped content>".
#include <xalanc/Include/PlatformDefinitions.hpp>
#include <xercesc/util/PlatformUtils.hpp>
#include <xercesc/parsers/XercesDOMParser.hpp>
#include <xercesc/sax2/SAX2XMLReader.hpp>
#include <xercesc/sax2/XMLReaderFactory.hpp>
#include <xercesc/framework/LocalFileInputSource.hpp>
#include <xercesc/dom/DOM.hpp>
#include <xercesc/sax/HandlerBase.hpp>

#include <xalanc/PlatformSupport/XalanOutputStreamPrintWriter.hpp>
#include <xalanc/PlatformSupport/XSLException.hpp>
#include <xalanc/PlatformSupport/URISupport.hpp>
#include <xalanc/XalanDOM/XalanDocument.hpp>
#include <xalanc/XalanDOM/XalanNamedNodeMap.hpp>
#include <xalanc/XalanSourceTree/FormatterToSourceTree.hpp>
#include <xalanc/XalanSourceTree/XalanSourceTreeDOMSupport.hpp>
#include <xalanc/XalanSourceTree/XalanSourceTreeParserLiaison.hpp>
#include <xalanc/XalanSourceTree/XalanSourceTreeDocument.hpp>
#include <xalanc/XercesParserLiaison/FormatterToXercesDOM.hpp>
#include <xalanc/XercesParserLiaison/XercesParserLiaison.hpp>
#include <xalanc/XercesParserLiaison/XercesDOMSupport.hpp>
#include <xalanc/XalanTransformer/XalanTransformer.hpp>
#include <xalanc/XalanTransformer/XalanDocumentBuilder.hpp>
#include <xalanc/XalanTransformer/XalanTransformerOutputStream.hpp>
#include <xalanc/XalanTransformer/XercesDOMWrapperParsedSource.hpp>
#include <xalanc/XalanTransformer/XercesDOMParsedSource.hpp>
#include <xalanc/XalanTransformer/XalanCAPI.h>

#include <dlfcn.h>
#include <algorithm>
#include <map>
#include <cstdio>
#include <cstdlib>
#include <cstring>
#include <fstream>
#include <iostream>
#include <sstream>
#include <string>
#include <vector>

using namespace xalanc;
namespace xc = xercesc;

static bool g_verbose = false;

static unsigned long long fnv(const std::string& s)
{
    unsigned long long h = 1469598103934665603ULL;
    for (unsigned char c : s) { h ^= c; h *= 1099511628211ULL; }
    return h;
}

static std::string readFile(const std::string& p, bool* ok = 0)
{
    std::ifstream f(p.c_str(), std::ios::binary);
    if (ok) *ok = bool(f);
    std::ostringstream o;
    o << f.rdbuf();
    return o.str();
}

static std::string esc(const std::string& s)
{
    std::string r;
    char b[8];
    for (unsigned char c : s)
    {
        if (c >= 0x20 && c < 0x7f && c != '\\') r.push_back(char(c));
        else { std::snprintf(b, sizeof b, "\\x%02x", c); r += b; }
    }
    return r;
}

static void utf8(std::string& o, const XalanDOMChar* s, size_t n)
{
    for (size_t i = 0; i < n; ++i)
    {
        unsigned long c = s[i];
        if (c >= 0xD800 && c < 0xDC00 && i + 1 < n && s[i + 1] >= 0xDC00 && s[i + 1] < 0xE000)
        {
            c = 0x10000 + ((c - 0xD800) << 10) + (s[i + 1] - 0xDC00);
            ++i;
        }
        if (c < 0x80) o.push_back(char(c));
        else if (c < 0x800) { o.push_back(char(0xC0 | (c >> 6))); o.push_back(char(0x80 | (c & 0x3F))); }
        else if (c < 0x10000) { o.push_back(char(0xE0 | (c >> 12))); o.push_back(char(0x80 | ((c >> 6) & 0x3F))); o.push_back(char(0x80 | (c & 0x3F))); }
        else { o.push_back(char(0xF0 | (c >> 18))); o.push_back(char(0x80 | ((c >> 12) & 0x3F))); o.push_back(char(0x80 | ((c >> 6) & 0x3F))); o.push_back(char(0x80 | (c & 0x3F))); }
    }
}

static std::string u8(const XalanDOMString& s) { std::string o; utf8(o, s.c_str(), s.length()); return o; }
static std::string u8x(const XMLCh* s) { std::string o; if (s) utf8(o, s, xc::XMLString::stringLen(s)); return o; }

// ---- canonical dump of a result tree (XalanNode interface) -------------------------------------------------
static void flushText(std::string& o, std::string& pend)
{
    if (!pend.empty()) { o += "T[" + pend + "]"; pend.clear(); }
}

static void dumpX(const XalanNode* n, std::string& o)
{
    std::string pend;
    for (; n != 0; n = n->getNextSibling())
    {
        switch (n->getNodeType())
        {
        case XalanNode::ELEMENT_NODE:
        {
            flushText(o, pend);
            o += "<" + u8(n->getNodeName());
            std::vector<std::string> as;
            const XalanNamedNodeMap* am = n->getAttributes();
            for (XalanSize_t i = 0; am != 0 && i < am->getLength(); ++i)
            {
                const XalanNode* a = am->item(i);
                const std::string nm = u8(a->getNodeName());
                if (nm == "xmlns:xml") continue;
                as.push_back(" " + nm + "=\"" + u8(a->getNodeValue()) + "\"");
            }
            std::sort(as.begin(), as.end());
            for (const std::string& a : as) o += a;
            o += ">";
            dumpX(n->getFirstChild(), o);
            o += "</>";
            break;
        }
        case XalanNode::TEXT_NODE:
        case XalanNode::CDATA_SECTION_NODE:
            pend += u8(n->getNodeValue());
            break;
        case XalanNode::COMMENT_NODE:
            flushText(o, pend);
            o += "C[" + u8(n->getNodeValue()) + "]";
            break;
        case XalanNode::PROCESSING_INSTRUCTION_NODE:
            flushText(o, pend);
            o += "P[" + u8(n->getNodeName()) + " " + u8(n->getNodeValue()) + "]";
            break;
        default:
            flushText(o, pend);
            o += "?";
        }
    }
    flushText(o, pend);
}

static void dumpD(const xc::DOMNode* n, std::string& o)
{
    std::string pend;
    for (; n != 0; n = n->getNextSibling())
    {
        switch (n->getNodeType())
        {
        case xc::DOMNode::ELEMENT_NODE:
        {
            flushText(o, pend);
            o += "<" + u8x(n->getNodeName());
            std::vector<std::string> as;
            const xc::DOMNamedNodeMap* am = n->getAttributes();
            for (XMLSize_t i = 0; am != 0 && i < am->getLength(); ++i)
            {
                const xc::DOMNode* a = am->item(i);
                const std::string nm = u8x(a->getNodeName());
                if (nm == "xmlns:xml") continue;
                as.push_back(" " + nm + "=\"" + u8x(a->getNodeValue()) + "\"");
            }
            std::sort(as.begin(), as.end());
            for (const std::string& a : as) o += a;
            o += ">";
            dumpD(n->getFirstChild(), o);
            o += "</>";
            break;
        }
        case xc::DOMNode::TEXT_NODE:
        case xc::DOMNode::CDATA_SECTION_NODE:
            pend += u8x(n->getNodeValue());
            break;
        case xc::DOMNode::COMMENT_NODE:
            flushText(o, pend);
            o += "C[" + u8x(n->getNodeValue()) + "]";
            break;
        case xc::DOMNode::PROCESSING_INSTRUCTION_NODE:
            flushText(o, pend);
            o += "P[" + u8x(n->getNodeName()) + " " + u8x(n->getNodeValue()) + "]";
            break;
        default:
            flushText(o, pend);
            o += "?";
        }
    }
    flushText(o, pend);
}

// ---- callbacks ---------------------------------------------------------------------------------------
struct Sink { std::string data; unsigned chunks; unsigned flushes; };

static CallbackSizeType sinkWrite(const char* d, CallbackSizeType n, void* h)
{
    Sink* s = static_cast<Sink*>(h);
    s->data.append(d, n);
    ++s->chunks;
    return n;
}
static void sinkFlush(void* h) { ++static_cast<Sink*>(h)->flushes; }

// ---- a non-indexed Xerces wrapper as parsed source (public API: XercesParserLiaison::createDocument(doc,false,false)) ---
// XercesDOMParsedSourceHelper::create takes the liaison that built the source document since
// proposed/C05-dom-unparsed-entity-uri.diff; compile against either signature
template <class H>
static auto makeHelper(MemoryManager& m, const XercesParserLiaison* l, int) -> decltype(H::create(m, l)) { return H::create(m, l); }
template <class H>
static XalanParsedSourceHelper* makeHelper(MemoryManager& m, const XercesParserLiaison*, long) { return H::create(m); }

class LazyWrapperParsedSource : public XalanParsedSource
{
public:
    LazyWrapperParsedSource(const xc::DOMDocument* d, XercesParserLiaison& l, const XalanDOMString& uri) :
        m_liaison(l), m_doc(l.createDocument(d, false, false, false)), m_uri(uri, XalanMemMgrs::getDefaultXercesMemMgr()) {}
    ~LazyWrapperParsedSource() { m_liaison.destroyDocument(m_doc); }
    virtual XalanDocument* getDocument() const { return m_doc; }
    virtual XalanParsedSourceHelper* createHelper(MemoryManager& m) const { return makeHelper<XercesDOMParsedSourceHelper>(m, &m_liaison, 0); }
    virtual const XalanDOMString& getURI() const { return m_uri; }
private:
    XercesParserLiaison& m_liaison;
    XalanDocument* m_doc;
    XalanDOMString m_uri;
};

struct Case
{
    std::string dir, xml, xsl, out, xmlText, xslText;
    bool treeCompare;
    bool lazy;
    bool nodom;
    std::vector<std::string> skip;
    std::vector<std::string> once;
    std::vector<std::pair<std::string, std::string> > params;   // <dir>/params.txt: name<space>expression per line
    // per-call options (<dir>/opts.txt), set through XalanTransformer's own setters: indent <n> | encoding <name> |
    // noescape | omitmeta | validate.  The C API has no counterpart for them, so its section is skipped when any is set.
    int optIndent = -1;
    std::string optEncoding;
    bool optNoEscape = false, optOmitMeta = false, optValidate = false, haveOpts = false;
};

static XalanTransformer* g_parser = 0;      // used only to re-parse byte results for the canonical comparison
static bool g_treeOfBytes = false;
static std::map<std::string, std::string> g_treeCache;

static std::string treeDigestOfBytes(const std::string& bytes)
{
    std::map<std::string, std::string>::iterator i = g_treeCache.find(bytes);
    if (i != g_treeCache.end()) return i->second;
    std::string r = "unparsable";
    std::istringstream in(bytes);
    const XalanParsedSource* rp = 0;
    XSLTInputSource is(&in);
    if (g_parser->parseSource(is, rp) == 0)
    {
        std::string d;
        dumpX(rp->getDocument()->getFirstChild(), d);
        std::ostringstream o;
        o << std::hex << fnv(d);
        r = o.str();
        g_parser->destroyParsedSource(rp);
    }
    g_treeCache[bytes] = r;
    return r;
}

static void report(const char* api, const char* s, const char* y, const char* t, int rc, const std::string* bytes, const std::string* tree)
{
    std::cout << "r " << api << " " << s << " " << y << " " << t << " " << rc << " ";
    if (bytes && g_treeOfBytes && rc == 0) std::cout << "B:" << bytes->size() << ":" << std::hex << fnv(*bytes) << std::dec << ":" << treeDigestOfBytes(*bytes);
    else if (bytes) std::cout << "B:" << bytes->size() << ":" << std::hex << fnv(*bytes) << std::dec;
    else if (tree) std::cout << "T:" << std::hex << fnv(*tree) << std::dec;
    else std::cout << "-";
    std::cout << "\n";
    if (g_verbose) std::cout << "  | " << esc(bytes ? *bytes : tree ? *tree : std::string()) << "\n";
}

// One transformation with a prepared source/stylesheet selector and a target kind.
// srcKind: 0 input source (file), 1 input source (stream), 2 parsed source `ps`
static int doOne(XalanTransformer& tr, const Case& c, int srcKind, const XalanParsedSource* ps,
                 int ssKind /*0 is,1 cs,2 pi*/, const XalanCompiledStylesheet* cs,
                 const std::string& target, std::string& bytes, std::string& tree, bool& isTree, bool& applicable)
{
    if (std::find(c.skip.begin(), c.skip.end(), target) != c.skip.end()) { applicable = false; return 0; }
    static std::map<std::string, int> s_seen;
    if (std::find(c.once.begin(), c.once.end(), target) != c.once.end() && s_seen[c.dir + "|" + target]++ > 0) { applicable = false; return 0; }
    std::cerr << "@ " << c.dir << " src" << srcKind << " ss" << ssKind << " " << target << std::endl;   // last line = where a crash happened
    applicable = true;
    isTree = false;
    bytes.clear();
    tree.clear();
    std::istringstream srcStream(c.xmlText);
    XSLTInputSource fileSrc(c.xml.c_str());
    XSLTInputSource streamSrc(&srcStream);
    {
        // a stream has no name of its own: the caller says where it came from (relative system identifiers, document())
        XalanDOMString  uri;
        URISupport::getURLStringFromString(XalanDOMString(c.xml.c_str()), uri);
        streamSrc.setSystemId(uri.c_str());
    }
    const XSLTInputSource& src = srcKind == 1 ? streamSrc : fileSrc;
    XSLTInputSource ss(c.xsl.c_str());

    // callback overloads exist only for some combinations
    if (target == "cb")
    {
        Sink sink = { std::string(), 0, 0 };
        int rc;
        if (srcKind != 2 && ssKind == 0) rc = tr.transform(src, ss, &sink, sinkWrite, sinkFlush);
        else if (srcKind != 2 && ssKind == 2) rc = tr.transform(src, &sink, sinkWrite, sinkFlush);
        else if (srcKind == 2 && ssKind == 1) rc = tr.transform(*ps, cs, &sink, sinkWrite, sinkFlush);
        else { applicable = false; return 0; }
        bytes = sink.data;
        return rc;
    }

    // everything else goes through an XSLTResultTarget
    Sink sink = { std::string(), 0, 0 };
    std::ostringstream os;
    FILE* fp = 0;
    XalanTransformerOutputStream cbStream(XalanMemMgrs::getDefaultXercesMemMgr(), &sink, sinkWrite, sinkFlush);
    XalanOutputStreamPrintWriter cbWriter(cbStream);
    xc::DOMDocument* dom = 0;
    XalanSourceTreeDOMSupport stSupport;
    XalanSourceTreeParserLiaison stLiaison(stSupport);
    stSupport.setParserLiaison(&stLiaison);
    XalanSourceTreeDocument* stDoc = 0;
    FormatterToXercesDOM* fdom = 0;
    FormatterToSourceTree* fst = 0;
    XSLTResultTarget rt;
    if (target == "file") { std::remove(c.out.c_str()); rt.setFileName(c.out.c_str()); }
    else if (target == "fp") { fp = std::fopen(c.out.c_str(), "wb"); rt.setStream(fp); }
    else if (target == "os") rt.setByteStream(&os);
    else if (target == "cb1" || target == "cb7") { cbStream.setBufferSize(target == "cb1" ? 1 : 7); rt.setCharacterStream(&cbWriter); }
    else if (target == "xdom")
    {
        dom = xc::DOMImplementation::getImplementation()->createDocument();
        fdom = new FormatterToXercesDOM(dom, 0);
        rt.setFormatterListener(fdom);
        isTree = true;
    }
    else if (target == "stree")
    {
        stDoc = stLiaison.createXalanSourceTreeDocument();
        fst = new FormatterToSourceTree(XalanMemMgrs::getDefaultXercesMemMgr(), stDoc);
        rt.setFormatterListener(fst);
        isTree = true;
    }
    else { applicable = false; return 0; }

    int rc;
    if (srcKind != 2)
    {
        if (ssKind == 0) rc = tr.transform(src, ss, rt);
        else if (ssKind == 1) rc = tr.transform(src, cs, rt);
        else rc = tr.transform(src, rt);
    }
    else
    {
        if (ssKind == 0) rc = tr.transform(*ps, ss, rt);
        else if (ssKind == 1) rc = tr.transform(*ps, cs, rt);
        else rc = tr.transform(*ps, rt);
    }
    if (fp) std::fclose(fp);
    if (target == "file" || target == "fp") bytes = readFile(c.out);
    else if (target == "os") bytes = os.str();
    else if (target == "cb1" || target == "cb7") { cbWriter.flush(); bytes = sink.data; }
    else if (target == "xdom") { if (rc == 0) dumpD(dom->getFirstChild(), tree); delete fdom; dom->release(); }
    else if (target == "stree") { if (rc == 0) dumpX(stDoc->getFirstChild(), tree); delete fst; }
    return rc;
}

static const char* const TARGETS[] = { "file", "fp", "os", "cb", "cb1", "cb7", "xdom", "stree" };
static const char* const SSNAMES[] = { "is", "cs", "pi" };

class Quiet : public xc::HandlerBase { public: void warning(const xc::SAXParseException&) {} void error(const xc::SAXParseException& e) { throw e; } void fatalError(const xc::SAXParseException& e) { throw e; } };

static void runCase(const Case& c)
{
    XalanTransformer tr;
    XalanTransformer parser;
    g_parser = &parser;
    g_treeOfBytes = c.treeCompare;
    g_treeCache.clear();
    std::ostringstream warn;
    tr.setWarningStream(&warn);
    tr.setErrorStream(&warn);
    if (c.optIndent >= 0) tr.setIndent(c.optIndent);
    if (!c.optEncoding.empty()) tr.setOutputEncoding(XalanDOMString(c.optEncoding.c_str()));
    if (c.optNoEscape) tr.setEscapeURLs(XalanTransformer::eEscapeURLsNo);
    if (c.optOmitMeta) tr.setOmitMETATag(XalanTransformer::eOmitMETATagYes);
    if (c.optValidate) tr.setUseValidation(true);
    for (size_t i = 0; i < c.params.size(); ++i)     // top-level parameters are sticky across transformations (JIRA-451)
        tr.setStylesheetParam(XalanDOMString(c.params[i].first.c_str()), XalanDOMString(c.params[i].second.c_str()));
    const XalanCompiledStylesheet* cs = 0;
    const int crc = tr.compileStylesheet(c.xsl.c_str(), cs);
    if (crc != 0) cs = 0;
    std::cout << "compile " << crc << "\n";

    // parsed sources
    struct PS { const char* name; const XalanParsedSource* ps; };
    std::vector<PS> pss;
    const XalanParsedSource* p1 = 0;
    const XalanParsedSource* p2 = 0;
    if (tr.parseSource(c.xml.c_str(), p1) == 0) pss.push_back({ "ps", p1 }); else std::cout << "parsefail ps\n";
    if (!c.nodom) { if (tr.parseSource(c.xml.c_str(), p2, true) == 0) pss.push_back({ "psx", p2 }); else std::cout << "parsefail psx\n"; }

    // wrapped Xerces DOM (as in samples/ParsedSourceWrappers, namespaces on)
    XalanDOMString uri;
    URISupport::getURLStringFromString(XalanDOMString(c.xml.c_str()), uri);
    xc::XercesDOMParser domParser;
    Quiet quiet;
    domParser.setErrorHandler(&quiet);
    domParser.setDoNamespaces(true);
    if (c.optValidate) domParser.setValidationScheme(xc::XercesDOMParser::Val_Auto);
    domParser.setCreateEntityReferenceNodes(false);
    bool domOK = true;
    if (c.nodom) domOK = false;
    else try { domParser.parse(c.xml.c_str()); } catch (...) { domOK = false; }
    XercesParserLiaison wrapLiaison;
    XercesDOMSupport wrapSupport(wrapLiaison);
    XercesDOMWrapperParsedSource* wrap = 0;
    LazyWrapperParsedSource* lazy = 0;
    XercesParserLiaison lazyLiaison;
    if (domOK && domParser.getDocument() != 0)
    {
        wrap = new XercesDOMWrapperParsedSource(domParser.getDocument(), wrapLiaison, wrapSupport, uri);
        pss.push_back({ "wrap", wrap });
        if (c.lazy)
        {
            lazy = new LazyWrapperParsedSource(domParser.getDocument(), lazyLiaison, uri);
            pss.push_back({ "lazy", lazy });
        }
    }
    else if (!c.nodom) std::cout << "parsefail wrap\n";

    // document builder fed by a SAX2 parser
    XalanDocumentBuilder* builder = tr.createDocumentBuilder(uri);
    {
        bool ok = true;
        xc::SAX2XMLReader* rd = xc::XMLReaderFactory::createXMLReader();
        try
        {
            rd->setFeature(xc::XMLUni::fgSAX2CoreNameSpaces, true);
            if (c.optValidate)
            {
                rd->setFeature(xc::XMLUni::fgSAX2CoreValidation, true);
                rd->setFeature(xc::XMLUni::fgXercesDynamic, true);
            }
            rd->setFeature(xc::XMLUni::fgSAX2CoreNameSpacePrefixes, true);
            rd->setContentHandler(builder->getContentHandler());
            rd->setLexicalHandler(builder->getLexicalHandler());
            rd->setDTDHandler(builder->getDTDHandler());
            rd->setErrorHandler(&quiet);
            rd->parse(c.xml.c_str());
        }
        catch (...) { ok = false; }
        delete rd;
        if (ok) pss.push_back({ "build", builder }); else std::cout << "parsefail build\n";
    }

    std::string bytes, tree;
    bool isTree, applicable;
    std::string refBytes;
    bool haveRef = false;
    for (int srcKind = 0; srcKind < 2; ++srcKind)
        for (int y = 0; y < 3; ++y)
        {
            if (y == 1 && cs == 0) continue;
            for (const char* t : TARGETS)
            {
                if (!c.treeCompare && (std::strcmp(t, "xdom") == 0 || std::strcmp(t, "stree") == 0)) continue;
                int rc;
                try { rc = doOne(tr, c, srcKind, 0, y, cs, t, bytes, tree, isTree, applicable); }
                catch (...) { rc = -99; applicable = true; }
                if (!applicable) continue;
                report("cpp", srcKind == 0 ? "file" : "stream", SSNAMES[y], t, rc, isTree ? 0 : &bytes, isTree ? &tree : 0);
                if (!haveRef && !isTree && rc == 0) { refBytes = bytes; haveRef = true; }
            }
        }
    for (const PS& p : pss)
        for (int y = 0; y < 3; ++y)
        {
            if (y == 1 && cs == 0) continue;
            for (const char* t : TARGETS)
            {
                if (!c.treeCompare && (std::strcmp(t, "xdom") == 0 || std::strcmp(t, "stree") == 0)) continue;
                int rc;
                try { rc = doOne(tr, c, 2, p.ps, y, cs, t, bytes, tree, isTree, applicable); }
                catch (...) { rc = -99; applicable = true; }
                if (!applicable) continue;
                report("cpp", p.name, SSNAMES[y], t, rc, isTree ? 0 : &bytes, isTree ? &tree : 0);
            }
        }

    // ---- C API -------------------------------------------------------------------------------------------
    if (!c.haveOpts)
    {
        XalanHandle h = CreateXalanTransformer();
        for (size_t i = 0; i < c.params.size(); ++i)
            XalanSetStylesheetParam(c.params[i].first.c_str(), c.params[i].second.c_str(), h);
        XalanCSSHandle ccs = 0;
        XalanPSHandle cps = 0;
        XalanPSHandle cps2 = 0;
        const int r1 = XalanCompileStylesheet(c.xsl.c_str(), h, &ccs);
        XalanCSSHandle ccs2 = 0;
        const int r1b = XalanCompileStylesheetFromStream(c.xslText.data(), c.xslText.size(), h, &ccs2);
        const int r2 = XalanParseSource(c.xml.c_str(), h, &cps);
        const int r3 = XalanParseSourceFromStream(c.xmlText.data(), c.xmlText.size(), h, &cps2);
        for (int y = 0; y < 2; ++y)     // 0: file name, 1: NULL (PI)
        {
            const char* xsl = y == 0 ? c.xsl.c_str() : 0;
            std::remove(c.out.c_str());
            int rc = XalanTransformToFile(c.xml.c_str(), xsl, c.out.c_str(), h);
            bytes = readFile(c.out);
            report("c", "file", y == 0 ? "is" : "pi", "file", rc, &bytes, 0);
            char* data = 0;
            rc = XalanTransformToData(c.xml.c_str(), xsl, &data, h);
            bytes = (rc == 0 && data) ? std::string(data) : std::string();
            if (data) XalanFreeData(data);
            report("c", "file", y == 0 ? "is" : "pi", "data", rc, &bytes, 0);
            // the length-reporting companion (proposed/C05-capi-data-length.diff), when the library has it
            typedef int (*ToDataLenFn)(const char*, const char*, char**, unsigned long*, XalanHandle);
            static const ToDataLenFn toDataLen = (ToDataLenFn)dlsym(RTLD_DEFAULT, "XalanTransformToDataWithLength");
            if (toDataLen != 0)
            {
                unsigned long len = 0;
                data = 0;
                rc = toDataLen(c.xml.c_str(), xsl, &data, &len, h);
                bytes = (rc == 0 && data) ? std::string(data, len) : std::string();
                if (data) XalanFreeData(data);
                report("c", "file", y == 0 ? "is" : "pi", "datalen", rc, &bytes, 0);
            }
        }
        {
            Sink sink = { std::string(), 0, 0 };
            int rc = XalanTransformToHandler(c.xml.c_str(), c.xsl.c_str(), h, &sink, sinkWrite, sinkFlush);
            report("c", "file", "is", "cb", rc, &sink.data, 0);
        }
        struct CP { const char* name; XalanPSHandle p; int rc; } cpss[] = { { "ps", cps, r2 }, { "psstream", cps2, r3 } };
        struct CC { const char* name; XalanCSSHandle s; int rc; } ccss[] = { { "cs", ccs, r1 }, { "csstream", ccs2, r1b } };
        for (const CP& p : cpss)
            for (const CC& s : ccss)
            {
                if (p.rc != 0 || s.rc != 0) { std::cout << "cprebuilt-unavailable " << p.name << " " << s.name << " " << p.rc << " " << s.rc << "\n"; continue; }
                std::remove(c.out.c_str());
                int rc = XalanTransformToFilePrebuilt(p.p, s.s, c.out.c_str(), h);
                bytes = readFile(c.out);
                report("c", p.name, s.name, "file", rc, &bytes, 0);
                char* data = 0;
                rc = XalanTransformToDataPrebuilt(p.p, s.s, &data, h);
                bytes = (rc == 0 && data) ? std::string(data) : std::string();
                if (data) XalanFreeData(data);
                report("c", p.name, s.name, "data", rc, &bytes, 0);
                typedef int (*ToDataPreLenFn)(XalanPSHandle, XalanCSSHandle, char**, unsigned long*, XalanHandle);
                static const ToDataPreLenFn toDataPreLen = (ToDataPreLenFn)dlsym(RTLD_DEFAULT, "XalanTransformToDataPrebuiltWithLength");
                if (toDataPreLen != 0)
                {
                    unsigned long len = 0;
                    data = 0;
                    rc = toDataPreLen(p.p, s.s, &data, &len, h);
                    bytes = (rc == 0 && data) ? std::string(data, len) : std::string();
                    if (data) XalanFreeData(data);
                    report("c", p.name, s.name, "datalen", rc, &bytes, 0);
                }
                Sink sink = { std::string(), 0, 0 };
                rc = XalanTransformToHandlerPrebuilt(p.p, s.s, h, &sink, sinkWrite, sinkFlush);
                report("c", p.name, s.name, "cb", rc, &sink.data, 0);
            }
        DeleteXalanTransformer(h);
    }

    // canonical tree of the reference bytes
    if (c.treeCompare && haveRef)
    {
        std::istringstream in(refBytes);
        const XalanParsedSource* rp = 0;
        XSLTInputSource is(&in);
        if (tr.parseSource(is, rp) == 0)
        {
            std::string d;
            dumpX(rp->getDocument()->getFirstChild(), d);
            std::cout << "t " << std::hex << fnv(d) << std::dec << "\n";
            if (g_verbose) std::cout << "  | " << esc(d) << "\n";
        }
        else std::cout << "t unparsable " << esc(tr.getLastError()) << "\n";
    }
    if (g_verbose && !warn.str().empty()) std::cout << "  messages| " << esc(warn.str()) << "\n";
    delete wrap;
    delete lazy;
    tr.destroyDocumentBuilder(builder);
}

int main()
{
    g_verbose = std::getenv("C05_VERBOSE") != 0;
    xc::XMLPlatformUtils::Initialize();
    XalanTransformer::initialize();
    {
        std::string line;
        while (std::getline(std::cin, line))
        {
            std::istringstream in(line);
            std::string cmd, dir, mode, w;
            in >> cmd >> dir >> mode;
            if (cmd != "case") { std::cout << "bad\nend\n"; continue; }
            Case c;
            c.dir = dir;
            c.xml = dir + "/src.xml";
            c.xsl = dir + "/style.xsl";
            c.out = dir + "/out.tmp";
            c.xmlText = readFile(c.xml);
            c.xslText = readFile(c.xsl);
            c.treeCompare = mode == "xml";
            {
                std::ifstream of((dir + "/opts.txt").c_str());
                std::string ol;
                while (std::getline(of, ol))
                {
                    std::istringstream oi(ol);
                    std::string k, v;
                    oi >> k >> v;
                    if (k == "indent") { c.optIndent = std::atoi(v.c_str()); c.haveOpts = true; }
                    else if (k == "encoding") { c.optEncoding = v; c.haveOpts = true; }
                    else if (k == "noescape") { c.optNoEscape = true; c.haveOpts = true; }
                    else if (k == "omitmeta") { c.optOmitMeta = true; c.haveOpts = true; }
                    else if (k == "validate") { c.optValidate = true; c.haveOpts = true; }
                }
                std::ifstream pf((dir + "/params.txt").c_str());
                std::string pl;
                while (std::getline(pf, pl))
                {
                    const size_t sp = pl.find(' ');
                    if (sp != std::string::npos) c.params.push_back(std::make_pair(pl.substr(0, sp), pl.substr(sp + 1)));
                }
            }
            c.lazy = false;
            c.nodom = false;
            while (in >> w) { if (w == "lazy") c.lazy = true; if (w == "nodom") c.nodom = true; if (w.compare(0, 5, "skip=") == 0) c.skip.push_back(w.substr(5)); if (w.compare(0, 5, "once=") == 0) c.once.push_back(w.substr(5)); }
            try { runCase(c); }
            catch (const XSLException& e) { std::cout << "harness-exception xsl\n"; }
            catch (...) { std::cout << "harness-exception\n"; }
            std::cout << "end" << std::endl;
        }
    }
    XalanTransformer::terminate();
    xc::XMLPlatformUtils::Terminate();
    return 0;
}
