// C10 harness: runs the real XSLT engine in-process (set-up copied from src/xalanc/TestXSLT/process.cpp) so that
// XSLTEngineImpl::setQuietConflictWarnings can be chosen per request, and exposes XPath::getTargetData.
//
//   every reply is prefixed with "@@ "
//   run <quiet 0|1> <stylesheet path> <source path>   -> "OK <nWarnings> <result, newlines removed>" | "ERR <message>"
//   targets <prefix=uri,...|-> <pattern, hex UTF-8>    -> "<string>/<score>/<type> ..." | "ERR <message>"
#include <xalanc/Include/PlatformDefinitions.hpp>

#include <cstdio>
#include <iostream>
#include <map>
#include <sstream>
#include <string>
#include <vector>

#include <xercesc/util/PlatformUtils.hpp>
#include <xercesc/sax/SAXParseException.hpp>

#include <xalanc/PlatformSupport/XSLException.hpp>
#include <xalanc/PlatformSupport/PrefixResolver.hpp>
#include <xalanc/DOMSupport/DOMSupportDefault.hpp>
#include <xalanc/XPath/XObjectFactoryDefault.hpp>
#include <xalanc/XPath/XPath.hpp>
#include <xalanc/XPath/XPathConstructionContextDefault.hpp>
#include <xalanc/XPath/XPathFactoryBlock.hpp>
#include <xalanc/XPath/XPathFactoryDefault.hpp>
#include <xalanc/XPath/XPathProcessorImpl.hpp>
#include <xalanc/XSLT/ProblemListener.hpp>
#include <xalanc/XSLT/XSLTEngineImpl.hpp>
#include <xalanc/XSLT/XSLTInit.hpp>
#include <xalanc/XSLT/XSLTInputSource.hpp>
#include <xalanc/XSLT/XSLTProcessorEnvSupportDefault.hpp>
#include <xalanc/XSLT/XSLTResultTarget.hpp>
#include <xalanc/XSLT/StylesheetConstructionContextDefault.hpp>
#include <xalanc/XSLT/StylesheetExecutionContextDefault.hpp>
#include <xalanc/XSLT/StylesheetRoot.hpp>
#include <xalanc/XalanSourceTree/XalanSourceTreeDOMSupport.hpp>
#include <xalanc/XalanSourceTree/XalanSourceTreeInit.hpp>
#include <xalanc/XalanSourceTree/XalanSourceTreeParserLiaison.hpp>

using namespace xalanc;
using xercesc::XMLPlatformUtils;

static std::string narrow(const XalanDOMString& s)
{
    std::string r;
    CharVectorType v;
    try { s.transcode(v); } catch (...) { return "?"; }
    for (CharVectorType::size_type i = 0; i < v.size() && v[i] != 0; ++i) r.push_back(v[i]);
    return r;
}

static std::string oneLine(const std::string& s)
{
    std::string r;
    for (char c : s) if (c != '\n' && c != '\r') r.push_back(c);
    return r;
}

class CountingListener : public ProblemListener
{
public:
    int warnings = 0;
    std::string last;
    void setPrintWriter(PrintWriter*) override {}
    void problem(eSource, eClassification c, const XalanDOMString& msg, const xercesc::Locator*, const XalanNode*) override
    {
        if (c == eWARNING) ++warnings;
        last = narrow(msg);
    }
    void problem(eSource, eClassification c, const XalanDOMString& msg, const XalanNode*) override
    {
        if (c == eWARNING) ++warnings;
        last = narrow(msg);
    }
    void problem(eSource, eClassification c, const XalanNode*, const ElemTemplateElement*, const XalanDOMString& msg,
                 const XalanDOMChar*, XalanFileLoc, XalanFileLoc) override
    {
        if (c == eWARNING) ++warnings;
        last = narrow(msg);
    }
};

static std::string runOne(bool quiet, const std::string& xsl, const std::string& xml)
{
    MemoryManager& mm = XalanMemMgrs::getDefaultXercesMemMgr();
    CountingListener listener;
    std::ostringstream out;
    try
    {
        XalanSourceTreeDOMSupport domSupport;
        XalanSourceTreeParserLiaison liaison(domSupport, mm);
        domSupport.setParserLiaison(&liaison);
        XSLTProcessorEnvSupportDefault envSupport(mm);
        XObjectFactoryDefault xobjectFactory(mm);
        XPathFactoryDefault xpathFactory(mm);
        XSLTEngineImpl processor(mm, liaison, envSupport, domSupport, xobjectFactory, xpathFactory);
        envSupport.setProcessor(&processor);
        processor.setProblemListener(&listener);
        XPathFactoryBlock stylesheetXPathFactory(mm);
        StylesheetConstructionContextDefault cctx(mm, processor, stylesheetXPathFactory);
        processor.setQuietConflictWarnings(quiet);
        const StylesheetRoot* ss = processor.processStylesheet(XalanDOMString(xsl.c_str(), mm), cctx);
        if (ss == 0) return "ERR no stylesheet";
        XSLTResultTarget target(out, mm);
        XSLTInputSource src(xml.c_str(), mm);
        StylesheetExecutionContextDefault ectx(mm, processor, envSupport, domSupport, xobjectFactory);
        liaison.setExecutionContext(ectx);
        ectx.setStylesheetRoot(ss);
        processor.process(src, target, ectx);
        ectx.reset();
        cctx.reset();
        processor.reset();
    }
    catch (const XSLException& e)
    {
        return "ERR xsl: " + oneLine(narrow(e.getMessage()));
    }
    catch (const xercesc::SAXParseException& e)
    {
        return "ERR sax: " + oneLine(narrow(XalanDOMString(e.getMessage(), mm)));
    }
    catch (const xercesc::SAXException& e)
    {
        return "ERR sax: " + oneLine(narrow(XalanDOMString(e.getMessage(), mm)));
    }
    catch (const xercesc::XMLException& e)
    {
        return "ERR xml: " + oneLine(narrow(XalanDOMString(e.getMessage(), mm)));
    }
    catch (const std::exception& e)
    {
        return std::string("ERR std: ") + e.what();
    }
    catch (...)
    {
        return "ERR unknown" + (listener.last.empty() ? std::string() : ": " + oneLine(listener.last));
    }
    std::ostringstream r;
    r << "OK " << listener.warnings << " " << oneLine(out.str());
    return r.str();
}

class MapResolver : public PrefixResolver
{
public:
    std::map<std::string, XalanDOMString*> m;
    XalanDOMString uri;
    MapResolver() : uri(XalanMemMgrs::getDefaultXercesMemMgr()) {}
    ~MapResolver() { for (auto& p : m) delete p.second; }
    const XalanDOMString* getNamespaceForPrefix(const XalanDOMString& prefix) const override
    {
        auto it = m.find(narrow(prefix));
        return it == m.end() ? 0 : it->second;
    }
    const XalanDOMString& getURI() const override { return uri; }
};

static std::string unhex(const std::string& h)
{
    std::string r;
    for (size_t i = 0; i + 1 < h.size(); i += 2) r.push_back(char(std::stoi(h.substr(i, 2), 0, 16)));
    return r;
}

static const char* scoreName(XPath::eMatchScore s)
{
    switch (s)
    {
    case XPath::eMatchScoreNone: return "None";
    case XPath::eMatchScoreNodeTest: return "NodeTest";
    case XPath::eMatchScoreNSWild: return "NSWild";
    case XPath::eMatchScoreQName: return "QName";
    case XPath::eMatchScoreOther: return "Other";
    }
    return "?";
}

static const char* typeName(XPath::TargetData::eTargetType t)
{
    switch (t)
    {
    case XPath::TargetData::eAttribute: return "eAttribute";
    case XPath::TargetData::eElement: return "eElement";
    case XPath::TargetData::eAny: return "eAny";
    case XPath::TargetData::eOther: return "eOther";
    }
    return "?";
}

static std::string targets(const std::string& ns, const std::string& patHex)
{
    MemoryManager& mm = XalanMemMgrs::getDefaultXercesMemMgr();
    try
    {
        MapResolver res;
        if (ns != "-")
        {
            std::stringstream s(ns);
            std::string item;
            while (std::getline(s, item, ','))
            {
                size_t eq = item.find('=');
                if (eq == std::string::npos) continue;
                res.m[item.substr(0, eq)] = new XalanDOMString(item.substr(eq + 1).c_str(), mm);
            }
        }
        XPathConstructionContextDefault cctx(mm);
        XPathFactoryDefault factory(mm);
        XPathProcessorImpl proc(mm);
        XPath* xp = factory.create();
        proc.initMatchPattern(*xp, cctx, XalanDOMString(unhex(patHex).c_str(), mm), res);
        XPath::TargetDataVectorType data(mm);
        xp->getTargetData(data);
        std::ostringstream r;
        for (XPath::TargetDataVectorType::size_type i = 0; i < data.size(); ++i)
        {
            std::string s = narrow(XalanDOMString(data[i].getString(), mm));
            std::string name;
            if (s == narrow(XalanDOMString(XPath::PSEUDONAME_TEXT, mm))) name = "TEXT";
            else if (s == narrow(XalanDOMString(XPath::PSEUDONAME_COMMENT, mm))) name = "COMMENT";
            else if (s == narrow(XalanDOMString(XPath::PSEUDONAME_ROOT, mm))) name = "ROOT";
            else if (s == narrow(XalanDOMString(XPath::PSEUDONAME_PI, mm))) name = "PI";
            else if (s == narrow(XalanDOMString(XPath::PSEUDONAME_NODE, mm))) name = "NODE";
            else if (s == narrow(XalanDOMString(XPath::PSEUDONAME_ANY, mm))) name = "ANY";
            else name = "name:" + s;
            if (i) r << " ";
            r << name << "/" << scoreName(data[i].getDefaultPriority()) << "/" << typeName(data[i].getTargetType());
        }
        std::string out = r.str();
        return out.empty() ? "-" : out;
    }
    catch (const XSLException& e)
    {
        return "ERR xsl: " + oneLine(narrow(e.getMessage()));
    }
    catch (...)
    {
        return "ERR unknown";
    }
}

int main()
{
    XMLPlatformUtils::Initialize();
    {
        XSLTInit theInit(XalanMemMgrs::getDefaultXercesMemMgr());
        XalanSourceTreeInit theSourceTreeInit(XalanMemMgrs::getDefaultXercesMemMgr());
        std::string line;
        while (std::getline(std::cin, line))
        {
            std::istringstream is(line);
            std::string cmd;
            is >> cmd;
            // every reply line starts with "@@ " so that anything the library itself prints to stdout cannot be
            // mistaken for a reply
            std::cout << "@@ ";
            if (cmd == "run")
            {
                int q;
                std::string xsl, xml;
                is >> q >> xsl >> xml;
                std::cout << runOne(q != 0, xsl, xml) << "\n";
            }
            else if (cmd == "targets")
            {
                std::string ns, pat;
                is >> ns >> pat;
                std::cout << targets(ns, pat) << "\n";
            }
            else
            {
                std::cout << "ERR bad request\n";
            }
            std::cout.flush();
        }
    }
    XMLPlatformUtils::Terminate();
    return 0;
}
