// C03 harness: feeds byte strings (stylesheet, source, XPath, parameters) through the real entry points of
// the working-tree build of libxalan-c and reports, per request line, what the property talks about:
// the status, the length of the error message, whether an exception left the entry point, and whether the
// same transformer still performs a known-good transformation afterwards.  A crash / sanitizer abort / hang
// shows up as a missing reply (the check attributes it to the request being processed).
//
//   mode "xslt"  (argv[1]):  XalanInitialize() (C API) once; one persistent XalanTransformer T and one C handle H
//     xf <sty> <src> [<name>=<expr> ...]   T.transform(stream, stream, ostream)
//     xc <sty> <src>                       compileStylesheet / parseSource / transform(prebuilt) / destroy
//     ca <sty> <src>                       the same through the C API (…FromStream, …ToDataPrebuilt)
//     cp <key> <expr> <sty> <src>          XalanSetStylesheetParam(key, expr, H) + C API transformation
//     inject <entry> <Class> <msgEmpty>    make the named exception class surface inside the named method
//     num <16 hex digits>                  NumberToDOMString(double)
//   mode "xpath":  XalanXPathAPIInitialize(); one evaluator handle
//     xp <expr> <src>                      XalanCreateXPath + XalanEvaluateXPathAsBoolean + XalanDestroyXPath
//     xe <expr> <src>                      C++ XPathEvaluator::evaluate (errors are exceptions by contract)
// all <...> arguments are hex-encoded byte strings ("-" = empty).
//
// reply:  rc=<status> msg=<len of getLastError()> esc=<none|class> fu=<1|0> [out=<hex>]
#include <xalanc/Include/PlatformDefinitions.hpp>

#include <xercesc/util/PlatformUtils.hpp>
#include <xercesc/util/OutOfMemoryException.hpp>
#include <xercesc/util/RuntimeException.hpp>
#include <xercesc/util/IOException.hpp>
#include <xercesc/sax/SAXException.hpp>
#include <xercesc/sax/SAXParseException.hpp>
#include <xercesc/sax/EntityResolver.hpp>
#include <xercesc/sax/InputSource.hpp>
#include <xercesc/dom/DOMException.hpp>
#include <xercesc/framework/MemBufInputSource.hpp>

#include <xalanc/XalanTransformer/XalanTransformer.hpp>
#include <xalanc/XalanTransformer/XalanCAPI.h>
#include <xalanc/XPathCAPI/XPathCAPI.h>
#include <xalanc/XPath/Function.hpp>
#include <xalanc/XPath/XObjectFactory.hpp>
#include <xalanc/XPath/XPathEvaluator.hpp>
#include <xalanc/XPath/XPathParserException.hpp>
#include <xalanc/XPath/XalanXPathException.hpp>
#include <xalanc/XPath/XObject.hpp>
#include <xalanc/XSLT/XSLTProcessorException.hpp>
#include <xalanc/XSLT/ElemMessage.hpp>
#include <xalanc/XalanDOM/XalanDOMException.hpp>
#include <xalanc/XalanDOM/XalanDOMString.hpp>
#include <xalanc/XercesParserLiaison/XercesDOMException.hpp>
#include <xalanc/PlatformSupport/XSLException.hpp>
#include <xalanc/PlatformSupport/DOMStringHelper.hpp>
#include <xalanc/PlatformSupport/XalanOutputStream.hpp>
#include <xalanc/PlatformSupport/XalanTranscodingServices.hpp>
#include <xalanc/PlatformSupport/XalanMessageLoader.hpp>
#include <xalanc/PlatformSupport/XalanParsedURI.hpp>
#include <xalanc/DOMSupport/DOMSupportException.hpp>
#include <xalanc/XalanSourceTree/XalanSourceTreeDOMSupport.hpp>
#include <xalanc/XalanSourceTree/XalanSourceTreeParserLiaison.hpp>
#include <xalanc/XalanSourceTree/XalanSourceTreeInit.hpp>

#include <cstdio>
#include <cstdlib>
#include <cstring>
#include <iostream>
#include <sstream>
#include <string>
#include <typeinfo>
#include <vector>
#include <new>
#include <stdexcept>

using namespace xalanc;
using xercesc::MemoryManager;

static std::string unhex(const std::string& h)
{
    std::string r;
    if (h == "-") return r;
    for (size_t i = 0; i + 1 < h.size(); i += 2)
        r.push_back(char(std::strtol(h.substr(i, 2).c_str(), 0, 16)));
    return r;
}

static std::string tohex(const std::string& s)
{
    static const char* d = "0123456789abcdef";
    if (s.empty()) return "-";
    std::string r;
    for (unsigned char c : s) { r.push_back(d[c >> 4]); r.push_back(d[c & 15]); }
    return r;
}

// malloc-backed manager that counts the blocks it has handed out and not got back
class CountingManager : public xercesc::MemoryManager
{
public:
    long live;
    long total;
    CountingManager() : live(0), total(0) {}
    void* allocate(XMLSize_t n) { void* p = std::malloc(n ? n : 1); if (!p) throw std::bad_alloc(); ++live; ++total; return p; }
    void deallocate(void* p) { if (p) { --live; std::free(p); } }
    xercesc::MemoryManager* getExceptionMemoryManager() { return this; }
};

static const char* const GOOD_XSL =
    "<xsl:stylesheet version='1.0' xmlns:xsl='http://www.w3.org/1999/XSL/Transform'>"
    "<xsl:output method='xml' omit-xml-declaration='yes'/>"
    "<xsl:template match='/'><o><xsl:for-each select='r/i'><xsl:sort select='.' data-type='number'/>"
    "<v><xsl:value-of select='. * 2'/></v></xsl:for-each><xsl:number value='3' format='a'/></o></xsl:template>"
    "</xsl:stylesheet>";
static const char* const GOOD_XML = "<r><i>3</i><i>1</i><i>2</i></r>";
static const char* const GOOD_OUT = "<o><v>2</v><v>4</v><v>6</v>c</o>";

// ---------------------------------------------------------------- exception injection
static std::string g_injectClass;
static bool g_injectEmpty = false;

static void throwNamed(const std::string& cls, bool emptyMsg)
{
    MemoryManager& mm = XalanMemMgrs::getDefaultXercesMemMgr();
    XalanDOMString msg(emptyMsg ? "" : "injected by the C03 harness", mm);
    static const XMLCh wmsg[] = { 'i', 'n', 'j', 0 };
    static const XMLCh wempty[] = { 0 };
    const XMLCh* xm = emptyMsg ? wempty : wmsg;
    if (cls == "XSLException" || cls == "XalanXPathException") throw XalanXPathException(msg, mm, 0);
    if (cls == "XPathParserException") throw XPathParserException(msg, mm, 0);
    if (cls == "XSLTProcessorException") throw XSLTProcessorException(mm, msg, 0);
    if (cls == "ElemMessageTerminateException") throw ElemMessage::ElemMessageTerminateException(mm, msg, 0);
    if (cls == "DOMSupportException") throw DOMSupportException(msg, mm, 0);
    if (cls == "XObjectInvalidConversionException")
        throw XObject::XObjectInvalidConversionException(mm, msg, msg, msg);
    if (cls == "UnsupportedEncodingException")
        throw XalanOutputStream::UnsupportedEncodingException(msg, msg, 0);
    if (cls == "UnrepresentableCharacterException")
        throw XalanTranscodingServices::UnrepresentableCharacterException(65, msg, msg, 0);
    if (cls == "XalanDOMException") throw XalanDOMException(XalanDOMException::NOT_SUPPORTED_ERR);
    if (cls == "XercesDOMException") throw XercesDOMException(XercesDOMException::NOT_FOUND_ERR);
    if (cls == "TranscodingError") throw XalanDOMString::TranscodingError();
    if (cls == "xerces_SAXException") throw xercesc::SAXException(xm);
    if (cls == "xerces_SAXNotSupportedException") throw xercesc::SAXNotSupportedException(xm);
    if (cls == "xerces_SAXParseException")
        throw xercesc::SAXParseException(xm, wempty, wmsg, 3, 7);
    if (cls == "xerces_RuntimeException" || cls == "xerces_XMLException")
        throw xercesc::RuntimeException(__FILE__, __LINE__, xercesc::XMLExcepts::Gen_UnexpectedEOF);
    if (cls == "xerces_IOException")
        throw xercesc::IOException(__FILE__, __LINE__, xercesc::XMLExcepts::File_CouldNotOpenFile);
    if (cls == "xerces_OutOfMemoryException") throw xercesc::OutOfMemoryException();
    if (cls == "xerces_DOMException") throw xercesc::DOMException(xercesc::DOMException::NOT_FOUND_ERR, 0, &mm);
    if (cls == "std_bad_alloc") throw std::bad_alloc();
    if (cls == "std_out_of_range") throw std::out_of_range("injected");
}

static bool canThrow(const std::string& cls)
{
    static const char* names[] = {
        "XSLException", "XalanXPathException", "XPathParserException", "XSLTProcessorException",
        "ElemMessageTerminateException", "DOMSupportException", "XObjectInvalidConversionException",
        "UnsupportedEncodingException", "UnrepresentableCharacterException", "XalanDOMException",
        "XercesDOMException", "TranscodingError", "xerces_SAXException", "xerces_SAXNotSupportedException",
        "xerces_SAXParseException", "xerces_RuntimeException", "xerces_XMLException", "xerces_IOException",
        "xerces_OutOfMemoryException", "xerces_DOMException", "std_bad_alloc", "std_out_of_range", 0 };
    for (int i = 0; names[i]; ++i) if (cls == names[i]) return true;
    return false;
}

class FunctionThrow : public Function
{
public:
    virtual XObjectPtr
    execute(XPathExecutionContext& ctx, XalanNode*, const XObjectArgVectorType& args, const Locator*) const
    {
        if (args.size() >= 1)
        {
            // inj:throw('Class'): the class is named by the stylesheet
            const XalanDOMString& n = args[0]->str(ctx);
            std::string cls;
            for (XalanDOMString::size_type i = 0; i < n.length(); ++i) cls.push_back(char(n[i]));
            throwNamed(cls, false);
        }
        throwNamed(g_injectClass, g_injectEmpty);
        return ctx.getXObjectFactory().createNumber(0);
    }
    using Function::execute;
    virtual FunctionThrow* clone(MemoryManager& m) const { return XalanCopyConstruct(m, *this); }
protected:
    const XalanDOMString& getError(XalanDOMString& r) const { r.assign("inj:throw()"); return r; }
};

class ThrowingResolver : public xercesc::EntityResolver
{
public:
    virtual xercesc::InputSource* resolveEntity(const XMLCh* const, const XMLCh* const systemId)
    {
        // only for the marker entity
        static const XMLCh marker[] = { 'c', '0', '3', '-', 't', 'h', 'r', 'o', 'w', 0 };
        const XMLCh* s = systemId;
        size_t n = 0;
        while (s && s[n]) ++n;
        if (n >= 9)
        {
            bool same = true;
            for (size_t i = 0; i < 9; ++i) if (s[n - 9 + i] != marker[i]) same = false;
            if (same) throwNamed(g_injectClass, g_injectEmpty);
        }
        return 0;
    }
};

static const char* excName(const std::exception_ptr&) { return "?"; }

// run f(); return name of an escaping exception class ("none" when it returned)
template <class F>
static std::string guarded(F f)
{
    try { f(); return "none"; }
    catch (const XSLException& e) { return std::string("XSLException"); }
    catch (const XalanDOMException&) { return "XalanDOMException"; }
    catch (const xercesc::SAXException&) { return "xerces_SAXException"; }
    catch (const xercesc::XMLException&) { return "xerces_XMLException"; }
    catch (const xercesc::OutOfMemoryException&) { return "xerces_OutOfMemoryException"; }
    catch (const xercesc::DOMException&) { return "xerces_DOMException"; }
    catch (const std::bad_alloc&) { return "std_bad_alloc"; }
    catch (const std::exception&) { return "std_exception"; }
    catch (...) { return "unknown"; }
}

static std::string g_lastMsg;
static std::string g_needle;        // set by `nd <hex>`: a text the next error messages must contain
static int g_msgUtf8 = -1, g_msgHasNeedle = -1;

static bool validUtf8(const std::string& s)
{
    size_t i = 0;
    while (i < s.size())
    {
        const unsigned char c = (unsigned char)s[i];
        size_t n = c < 0x80 ? 0 : (c >> 5) == 6 ? 1 : (c >> 4) == 14 ? 2 : (c >> 3) == 30 ? 3 : 99;
        if (n == 99 || i + n > s.size() - 1) return false;
        for (size_t k = 1; k <= n; ++k) if ((((unsigned char)s[i + k]) >> 6) != 2) return false;
        i += n + 1;
    }
    return true;
}

static size_t msgLen(XalanTransformer& t)
{
    const char* m = t.getLastError();
    const std::string full = m ? std::string(m) : std::string();
    g_lastMsg = full.substr(0, 160);
    g_msgUtf8 = validUtf8(full) ? 1 : 0;
    g_msgHasNeedle = g_needle.empty() ? -1 : (full.find(g_needle) != std::string::npos ? 1 : 0);
    return full.size();
}

static bool followUp(XalanTransformer& t)
{
    std::istringstream xs(GOOD_XML), ss(GOOD_XSL);
    std::ostringstream os;
    int rc = -99;
    std::string esc = guarded([&] { rc = t.transform(XSLTInputSource(xs), XSLTInputSource(ss), XSLTResultTarget(os)); });
    return esc == "none" && rc == 0 && os.str() == GOOD_OUT;
}

static void reply(int rc, size_t ml, const std::string& esc, bool fu, const std::string* out = 0)
{
    std::cout << "rc=" << rc << " msg=" << ml << " esc=" << esc << " fu=" << (fu ? 1 : 0);
    if (out) std::cout << " out=" << tohex(out->size() > 4096 ? out->substr(0, 4096) : *out);
    if (rc != 0 && !g_lastMsg.empty()) std::cout << " err=" << tohex(g_lastMsg);
    if (rc != 0) std::cout << " eu=" << g_msgUtf8 << " nf=" << g_msgHasNeedle;
    g_lastMsg.clear();
    std::cout << std::endl;
}

static int xsltMode()
{
    if (XalanInitialize() != 0) { std::cout << "init-failed" << std::endl; return 3; }
    {
        XalanTransformer T;
        T.setWarningStream(0);
        FunctionThrow fthrow;
        T.installExternalFunction(XalanDOMString("urn:c03"), XalanDOMString("throw"), fthrow);
        ThrowingResolver resolver;
        XalanHandle H = CreateXalanTransformer();
        std::string line;
        while (std::getline(std::cin, line))
        {
            std::istringstream in(line);
            std::string cmd;
            in >> cmd;
            std::vector<std::string> a;
            for (std::string w; in >> w;) a.push_back(w);
            if (cmd == "xf" && a.size() >= 2)
            {
                const std::string sty = unhex(a[0]), src = unhex(a[1]);
                int rc = -99;
                std::ostringstream os;
                std::string esc = guarded([&] {
                    for (size_t i = 2; i < a.size(); ++i)
                    {
                        const size_t eq = a[i].find('=');
                        if (eq == std::string::npos) continue;
                        T.setStylesheetParam(unhex(a[i].substr(0, eq)).c_str(), unhex(a[i].substr(eq + 1)).c_str());
                    }
                    std::istringstream xs(src), ss(sty);
                    rc = T.transform(XSLTInputSource(xs), XSLTInputSource(ss), XSLTResultTarget(os));
                });
                const size_t ml = msgLen(T);
                guarded([&] { T.clearStylesheetParams(); });
                const std::string out = os.str();
                reply(rc, ml, esc, followUp(T), &out);
            }
            else if (cmd == "xu" && a.size() >= 4)
            {
                // stream inputs that carry a system id (the base URI against which href / document() references are resolved)
                const std::string sty = unhex(a[0]), src = unhex(a[1]), styId = unhex(a[2]), srcId = unhex(a[3]);
                int rc = -99;
                std::ostringstream os;
                std::string esc = guarded([&] {
                    std::istringstream xs(src), ss(sty);
                    XSLTInputSource theSource(xs), theStylesheet(ss);
                    const XalanDOMString styIdW(styId.c_str()), srcIdW(srcId.c_str());
                    theStylesheet.setSystemId(styIdW.c_str());
                    theSource.setSystemId(srcIdW.c_str());
                    rc = T.transform(theSource, theStylesheet, XSLTResultTarget(os));
                });
                const size_t ml = msgLen(T);
                const std::string out = os.str();
                reply(rc, ml, esc, followUp(T), &out);
            }
            else if (cmd == "xr" && a.size() >= 2)
            {
                // like xf, and the same request on a fresh transformer: a transformer that has a history must give the same answer
                const std::string sty = unhex(a[0]), src = unhex(a[1]);
                int rc = -99, rcRef = -99;
                std::ostringstream os, osRef;
                std::string esc = guarded([&] {
                    std::istringstream xs(src), ss(sty);
                    rc = T.transform(XSLTInputSource(xs), XSLTInputSource(ss), XSLTResultTarget(os));
                });
                const size_t ml = msgLen(T);
                std::string escRef = guarded([&] {
                    XalanTransformer F;
                    F.setWarningStream(0);
                    std::istringstream xs(src), ss(sty);
                    rcRef = F.transform(XSLTInputSource(xs), XSLTInputSource(ss), XSLTResultTarget(osRef));
                });
                const std::string out = os.str();
                const bool same = esc == escRef && rc == rcRef && (rc != 0 || out == osRef.str());
                std::cout << "rc=" << rc << " msg=" << ml << " esc=" << esc << " fu=" << (followUp(T) ? 1 : 0) << " ref=" << (same ? 1 : 0)
                          << " out=" << tohex(out.size() > 4096 ? out.substr(0, 4096) : out);
                if (!same) std::cout << " refout=" << tohex(osRef.str().substr(0, 2048)) << " refrc=" << rcRef;
                g_lastMsg.clear();
                std::cout << std::endl;
            }
            else if (cmd == "msgall" && a.size() >= 2)
            {
                // every message of the catalogue through every getMessage overload, each substitution text `len` characters long
                // (a message with fewer slots than arguments simply ignores the rest)
                const size_t len = size_t(std::atol(a[0].c_str()));
                MemoryManager& mm = XalanMemMgrs::getDefaultXercesMemMgr();
                XalanDOMString rep(mm);
                for (size_t i = 0; i < len; ++i) rep.push_back(XalanDOMChar('a' + i % 26));
                std::string narrow(len, 'n');
                const size_t count = size_t(std::atol(a[1].c_str()));     // number of codes in XalanMessages::Codes (from the translator)
                size_t maxLen = 0, calls = 0;
                std::string esc = guarded([&] {
                    for (size_t c = 0; c < count; ++c)
                    {
                        const XalanMessages::Codes code = XalanMessages::Codes(c);
                        XalanDOMString r(mm);
                        XalanMessageLoader::getMessage(r, code); if (r.length() > maxLen) maxLen = r.length(); r.clear();
                        XalanMessageLoader::getMessage(r, code, rep); if (r.length() > maxLen) maxLen = r.length(); r.clear();
                        XalanMessageLoader::getMessage(r, code, rep, rep); if (r.length() > maxLen) maxLen = r.length(); r.clear();
                        XalanMessageLoader::getMessage(r, code, rep, rep, rep); if (r.length() > maxLen) maxLen = r.length(); r.clear();
                        XalanMessageLoader::getMessage(r, code, narrow.c_str(), narrow.c_str(), narrow.c_str(), narrow.c_str()); if (r.length() > maxLen) maxLen = r.length(); r.clear();
                        XalanMessageLoader::getMessage(r, code, rep.c_str(), rep.c_str(), rep.c_str(), rep.c_str()); if (r.length() > maxLen) maxLen = r.length(); r.clear();
                        calls += 6;
                    }
                });
                std::cout << "rc=0 msg=0 esc=" << esc << " fu=1 codes=" << count << " calls=" << calls << " maxlen=" << maxLen << std::endl;
            }
            else if (cmd == "nd" && a.size() >= 1)
            {
                g_needle = a[0] == "-" ? std::string() : unhex(a[0]);
                std::cout << "rc=0 msg=0 esc=none fu=1" << std::endl;
            }
            else if (cmd == "uri" && a.size() >= 2)
            {
                // XalanParsedURI::resolve(relative, base) on exactly-sized, unterminated heap copies (so that a read past the end is seen
                // by ASan), then on copies that are followed by ":/" and by "//" outside the stated length: a result that differs shows,
                // without a sanitizer, that an element behind the end was read
                const std::string rel = unhex(a[0]), base = unhex(a[1]);
                std::string outs[3];
                std::string esc = "none";
                for (int pass = 0; pass < 3 && esc == "none"; ++pass)
                {
                    const size_t pad = pass == 0 ? 0 : 2;
                    XalanDOMChar* const r = new XalanDOMChar[rel.size() + pad];
                    XalanDOMChar* const b = new XalanDOMChar[base.size() + pad];
                    for (size_t i = 0; i < rel.size(); ++i) r[i] = XalanDOMChar((unsigned char)rel[i]);
                    for (size_t i = 0; i < base.size(); ++i) b[i] = XalanDOMChar((unsigned char)base[i]);
                    if (pad)
                    {
                        r[rel.size()] = b[base.size()] = XalanDOMChar(pass == 1 ? ':' : '/');
                        r[rel.size() + 1] = b[base.size() + 1] = XalanDOMChar('/');
                    }
                    std::string& o = outs[pass];
                    esc = guarded([&] {
                        XalanDOMString res(XalanMemMgrs::getDefaultXercesMemMgr());
                        XalanParsedURI::resolve(r, XalanDOMString::size_type(rel.size()), b, XalanDOMString::size_type(base.size()), res);
                        for (XalanDOMString::size_type i = 0; i < res.length(); ++i) o.push_back(char(res[i]));
                    });
                    delete[] r;
                    delete[] b;
                }
                std::cout << "rc=0 msg=0 esc=" << esc << " fu=1 out=" << tohex(outs[0]) << " pout=" << tohex(outs[1] == outs[0] ? outs[2] : outs[1]) << std::endl;
            }
            else if (cmd == "lk" && a.size() >= 2)
            {
                // a transformer of its own on a counting memory manager: compile + transform (stream API), then the same through
                // compileStylesheet/parseSource; after the transformer is destroyed every block must have come back
                const std::string sty = unhex(a[0]), src = unhex(a[1]);
                CountingManager mm;
                int rc = -99, rcC = -99;
                size_t ml = 0;
                std::string esc;
                {
                    XalanTransformer F(mm);
                    F.setWarningStream(0);
                    F.installExternalFunction(XalanDOMString("urn:c03"), XalanDOMString("throw"), fthrow);
                    std::ostringstream os;
                    esc = guarded([&] {
                        std::istringstream xs(src), ss(sty);
                        rc = F.transform(XSLTInputSource(xs), XSLTInputSource(ss), XSLTResultTarget(os));
                        ml = msgLen(F);
                        const XalanCompiledStylesheet* cs = 0;
                        std::istringstream ss2(sty);
                        rcC = F.compileStylesheet(XSLTInputSource(ss2), cs);
                        // not destroyed explicitly: the transformer owns it
                    });
                }
                g_lastMsg.clear();
                std::cout << "rc=" << rc << " msg=" << ml << " esc=" << esc << " fu=1 rcc=" << rcC << " live=" << mm.live << " total=" << mm.total << std::endl;
            }
            else if (cmd == "xs" && a.size() >= 4)
            {
                // ONE compiled stylesheet and ONE parsed source, used twice on T: first with parameter set A (which may make the
                // transformation abort half-way: inside an attribute set, a sort, a key, xsl:number …), then with set B.  The second
                // run must equal what a fresh transformer produces for B.   xs <sty> <src> <A: n=e,n=e|-> <B: …>
                const std::string sty = unhex(a[0]), src = unhex(a[1]);
                auto setParams = [&](XalanTransformer& t, const std::string& spec) {
                    t.clearStylesheetParams();
                    if (spec == "-") return;
                    std::istringstream ps(spec);
                    for (std::string kv; std::getline(ps, kv, ',');)
                    {
                        const size_t eq = kv.find('=');
                        if (eq != std::string::npos) t.setStylesheetParam(unhex(kv.substr(0, eq)).c_str(), unhex(kv.substr(eq + 1)).c_str());
                    }
                };
                int rcC = -99, rc1 = -99, rc2 = -99, rcRef = -99;
                size_t ml1 = 0, ml2 = 0;
                std::ostringstream os1, os2, osRef;
                std::string esc = guarded([&] {
                    const XalanCompiledStylesheet* cs = 0;
                    const XalanParsedSource* ps = 0;
                    std::istringstream ss(sty), xs(src);
                    rcC = T.compileStylesheet(XSLTInputSource(ss), cs);
                    if (rcC != 0) { ml1 = msgLen(T); return; }
                    rcC = T.parseSource(XSLTInputSource(xs), ps);
                    if (rcC != 0) { ml1 = msgLen(T); T.destroyStylesheet(cs); return; }
                    setParams(T, a[2]);
                    rc1 = T.transform(*ps, cs, XSLTResultTarget(os1));
                    ml1 = msgLen(T);
                    setParams(T, a[3]);
                    rc2 = T.transform(*ps, cs, XSLTResultTarget(os2));
                    ml2 = msgLen(T);
                    T.clearStylesheetParams();
                    T.destroyParsedSource(ps);
                    T.destroyStylesheet(cs);
                });
                std::string escRef = guarded([&] {
                    XalanTransformer F;
                    F.setWarningStream(0);
                    F.installExternalFunction(XalanDOMString("urn:c03"), XalanDOMString("throw"), fthrow);
                    setParams(F, a[3]);
                    std::istringstream xs(src), ss(sty);
                    rcRef = F.transform(XSLTInputSource(xs), XSLTInputSource(ss), XSLTResultTarget(osRef));
                });
                guarded([&] { T.clearStylesheetParams(); });
                const bool same = rcC != 0 || (rc2 == rcRef && (rc2 != 0 || os2.str() == osRef.str()));
                std::cout << "rc=" << (rcC != 0 ? rcC : rc1) << " msg=" << ml1 << " esc=" << esc << " fu=" << (followUp(T) ? 1 : 0)
                          << " rc2=" << rc2 << " msg2=" << ml2 << " ref=" << (same ? 1 : 0) << " refrc=" << rcRef << " cmp=" << (rcC == 0 ? 1 : 0);
                if (!same) std::cout << " out2=" << tohex(os2.str().substr(0, 1024)) << " refout=" << tohex(osRef.str().substr(0, 1024));
                if (!g_lastMsg.empty()) std::cout << " err=" << tohex(g_lastMsg);
                g_lastMsg.clear();
                std::cout << std::endl;
            }
            else if (cmd == "xc" && a.size() >= 2)
            {
                const std::string sty = unhex(a[0]), src = unhex(a[1]);
                int rc = -99;
                size_t ml = 0;
                std::ostringstream os;
                std::string esc = guarded([&] {
                    const XalanCompiledStylesheet* cs = 0;
                    const XalanParsedSource* ps = 0;
                    std::istringstream ss(sty);
                    rc = T.compileStylesheet(XSLTInputSource(ss), cs);
                    ml = msgLen(T);
                    if (rc == 0)
                    {
                        std::istringstream xs(src);
                        rc = T.parseSource(XSLTInputSource(xs), ps);
                        ml = msgLen(T);
                        if (rc == 0)
                        {
                            rc = T.transform(*ps, cs, XSLTResultTarget(os));
                            ml = msgLen(T);
                            // use the compiled stylesheet a second time
                            if (rc == 0)
                            {
                                std::ostringstream os2;
                                int rc2 = T.transform(*ps, cs, XSLTResultTarget(os2));
                                if (rc2 != 0 || os2.str() != os.str()) rc = 7777;
                            }
                            if (T.destroyParsedSource(ps) != 0) rc = 7778;
                        }
                        if (T.destroyStylesheet(cs) != 0) rc = 7779;
                    }
                });
                const std::string out = os.str();
                reply(rc, ml, esc, followUp(T), &out);
            }
            else if ((cmd == "ca" && a.size() >= 2) || (cmd == "cp" && a.size() >= 4))
            {
                const bool withParam = cmd == "cp";
                const std::string key = withParam ? unhex(a[0]) : "", expr = withParam ? unhex(a[1]) : "";
                const std::string sty = unhex(a[withParam ? 2 : 0]), src = unhex(a[withParam ? 3 : 1]);
                int rc = -99;
                size_t ml = 0;
                std::string out;
                std::string esc = guarded([&] {
                    if (withParam) XalanSetStylesheetParam(key.c_str(), expr.c_str(), H);
                    XalanCSSHandle cs = 0;
                    XalanPSHandle ps = 0;
                    rc = XalanCompileStylesheetFromStream(sty.data(), (unsigned long)sty.size(), H, &cs);
                    if (rc == 0)
                    {
                        rc = XalanParseSourceFromStream(src.data(), (unsigned long)src.size(), H, &ps);
                        if (rc == 0)
                        {
                            char* data = 0;
                            rc = XalanTransformToDataPrebuilt(ps, cs, &data, H);
                            if (rc == 0 && data) { out = data; XalanFreeData(data); }
                            const char* m = XalanGetLastError(H);
                            ml = m ? std::strlen(m) : 0;
                            g_lastMsg = m ? std::string(m).substr(0, 160) : std::string();
                            if (XalanDestroyParsedSource(ps, H) != 0) rc = 7778;
                        }
                        else { const char* m = XalanGetLastError(H); ml = m ? std::strlen(m) : 0; }
                        if (XalanDestroyCompiledStylesheet(cs, H) != 0) rc = 7779;
                    }
                    else { const char* m = XalanGetLastError(H); ml = m ? std::strlen(m) : 0; }
                });
                guarded([&] { XalanClearStylesheetParams(H); });
                // follow-up on the C handle
                bool fu = false;
                {
                    XalanTransformer* th = static_cast<XalanTransformer*>(H);
                    fu = followUp(*th);
                }
                reply(rc, ml, esc, fu, &out);
            }
            else if (cmd == "inject" && a.size() >= 3)
            {
                const std::string entry = a[0];
                g_injectClass = a[1];
                g_injectEmpty = a[2] == "1";
                if (!canThrow(g_injectClass)) { std::cout << "unsupported" << std::endl; continue; }
                int rc = -99;
                std::string esc;
                const std::string styThrow =
                    "<xsl:stylesheet version='1.0' xmlns:xsl='http://www.w3.org/1999/XSL/Transform' xmlns:inj='urn:c03'>"
                    "<xsl:template match='/'><o><xsl:value-of select='inj:throw()'/></o></xsl:template></xsl:stylesheet>";
                const std::string styEnt =
                    "<!DOCTYPE xsl:stylesheet [<!ENTITY e SYSTEM 'c03-throw'>]>"
                    "<xsl:stylesheet version='1.0' xmlns:xsl='http://www.w3.org/1999/XSL/Transform'>"
                    "<xsl:template match='/'><o>&e;</o></xsl:template></xsl:stylesheet>";
                const std::string srcEnt = "<!DOCTYPE r [<!ENTITY e SYSTEM 'c03-throw'>]><r>&e;</r>";
                if (entry == "doTransform")
                {
                    std::ostringstream os;
                    esc = guarded([&] {
                        std::istringstream xs(GOOD_XML), ss(styThrow);
                        rc = T.transform(XSLTInputSource(xs), XSLTInputSource(ss), XSLTResultTarget(os));
                    });
                }
                else if (entry == "compileStylesheet")
                {
                    T.setEntityResolver(&resolver);
                    esc = guarded([&] {
                        const XalanCompiledStylesheet* cs = 0;
                        std::istringstream ss(styEnt);
                        rc = T.compileStylesheet(XSLTInputSource(ss), cs);
                        if (rc == 0 && cs) T.destroyStylesheet(cs);
                    });
                    T.setEntityResolver(0);
                }
                else if (entry == "parseSource")
                {
                    T.setEntityResolver(&resolver);
                    esc = guarded([&] {
                        const XalanParsedSource* ps = 0;
                        std::istringstream xs(srcEnt);
                        rc = T.parseSource(XSLTInputSource(xs), ps);
                        if (rc == 0 && ps) T.destroyParsedSource(ps);
                    });
                    T.setEntityResolver(0);
                }
                else { std::cout << "unsupported" << std::endl; continue; }
                const size_t ml = esc == "none" ? msgLen(T) : 0;
                reply(rc, ml, esc, followUp(T));
            }
            else if (cmd == "pu" && a.size() >= 1)
            {
                // source (and stylesheet) named by system id / URL instead of a stream
                const std::string url = unhex(a[0]);
                int rc = -99;
                size_t ml = 0;
                std::string esc = guarded([&] {
                    const XalanParsedSource* ps = 0;
                    rc = T.parseSource(XSLTInputSource(url.c_str()), ps);
                    ml = msgLen(T);
                    if (rc == 0 && ps) T.destroyParsedSource(ps);
                    if (rc == 0)
                    {
                        const XalanCompiledStylesheet* cs = 0;
                        rc = T.compileStylesheet(XSLTInputSource(url.c_str()), cs);
                        ml = msgLen(T);
                        if (rc == 0 && cs) T.destroyStylesheet(cs);
                    }
                });
                int rc2 = -99;
                std::string esc2 = guarded([&] {
                    char* data = 0;
                    rc2 = XalanTransformToData(url.c_str(), url.c_str(), &data, H);
                    if (rc2 == 0 && data) XalanFreeData(data);
                });
                if (esc == "none" && esc2 != "none") esc = esc2;
                std::cout << "rc=" << rc << " msg=" << ml << " esc=" << esc << " fu=" << (followUp(T) ? 1 : 0) << " rc2=" << rc2;
                if (!g_lastMsg.empty()) std::cout << " err=" << tohex(g_lastMsg);
                g_lastMsg.clear();
                std::cout << std::endl;
            }
            else if (cmd == "dd")
            {
                // destroyStylesheet / destroyParsedSource with objects this transformer does not own (owned by T2)
                int rc1 = -99, rc2 = -99, rc3 = -99, rc4 = -99;
                size_t ml1 = 0, ml2 = 0;
                std::string esc = guarded([&] {
                    XalanTransformer T2;
                    const XalanCompiledStylesheet* cs = 0;
                    const XalanParsedSource* ps = 0;
                    std::istringstream ss(GOOD_XSL), xs(GOOD_XML);
                    if (T2.compileStylesheet(XSLTInputSource(ss), cs) != 0 || T2.parseSource(XSLTInputSource(xs), ps) != 0) return;
                    rc1 = T.destroyStylesheet(cs);
                    ml1 = msgLen(T);
                    rc2 = T.destroyParsedSource(ps);
                    ml2 = msgLen(T);
                    rc3 = XalanDestroyCompiledStylesheet(cs, H);
                    rc4 = XalanDestroyParsedSource(ps, H);
                    // the real owner can still use and destroy them
                    std::ostringstream os;
                    if (T2.transform(*ps, cs, XSLTResultTarget(os)) != 0 || os.str() != GOOD_OUT) rc1 = 7777;
                    if (T2.destroyStylesheet(cs) != 0 || T2.destroyParsedSource(ps) != 0) rc1 = 7779;
                });
                g_lastMsg.clear();
                std::cout << "rc=" << rc1 << "," << rc2 << "," << rc3 << "," << rc4 << " msg=" << (ml1 < ml2 ? ml1 : ml2) << " esc=" << esc
                          << " fu=" << (followUp(T) ? 1 : 0) << std::endl;
            }
            else if (cmd == "num" && a.size() >= 1)
            {
                unsigned long long bits = std::strtoull(a[0].c_str(), 0, 16);
                double d;
                std::memcpy(&d, &bits, sizeof d);
                XalanDOMString r(XalanMemMgrs::getDefaultXercesMemMgr());
                NumberToDOMString(d, r);
                std::string s;
                for (XalanDOMString::size_type i = 0; i < r.length(); ++i) s.push_back(char(r[i]));
                std::cout << "len=" << r.length() << " str=" << s << std::endl;
            }
            else
            {
                std::cout << "bad" << std::endl;
            }
        }
        DeleteXalanTransformer(H);
    }
    XalanTerminate(1);
    std::cout << "done" << std::endl;
    return 0;
}

static int xpathMode()
{
    int irc = XalanXPathAPIInitialize();
    if (irc != XALAN_XPATH_API_SUCCESS) { std::cout << "init-failed " << irc << std::endl; return 3; }
    XalanXPathEvaluatorHandle E = 0;
    if (XalanCreateXPathEvaluator(&E) != XALAN_XPATH_API_SUCCESS) { std::cout << "init-failed" << std::endl; return 3; }
    std::string line;
    while (std::getline(std::cin, line))
    {
        std::istringstream in(line);
        std::string cmd;
        in >> cmd;
        std::vector<std::string> a;
        for (std::string w; in >> w;) a.push_back(w);
        if (cmd == "xp" && a.size() >= 2)
        {
            const std::string ex = unhex(a[0]), src = unhex(a[1]);
            int rc = -99, val = -1;
            std::string esc = guarded([&] {
                rc = XalanEvaluateXPathExpressionAsBoolean(E, ex.c_str(), a.size() > 2 ? unhex(a[2]).c_str() : 0, src.c_str(), &val);
            });
            // follow-up: a known-good expression on the same evaluator
            int rc2 = -99, v2 = -1;
            std::string esc2 = guarded([&] { rc2 = XalanEvaluateXPathExpressionAsBoolean(E, "count(/r/i) = 3", 0, GOOD_XML, &v2); });
            std::cout << "rc=" << rc << " msg=0 esc=" << esc << " fu=" << ((esc2 == "none" && rc2 == 0 && v2 == 1) ? 1 : 0)
                      << " val=" << val << std::endl;
        }
        else if (cmd == "xe" && a.size() >= 2)
        {
            const std::string ex = unhex(a[0]), src = unhex(a[1]);
            int rc = 0;
            std::string res;
            std::string esc = guarded([&] {
                MemoryManager& mm = XalanMemMgrs::getDefaultXercesMemMgr();
                XalanSourceTreeDOMSupport dom;
                XalanSourceTreeParserLiaison liaison(dom, mm);
                dom.setParserLiaison(&liaison);
                const xercesc::MemBufInputSource is(reinterpret_cast<const XMLByte*>(src.data()), src.size(), "src", false);
                XalanDocument* const doc = liaison.parseXMLStream(is);
                XPathEvaluator ev(mm);
                const XalanDOMString xs(ex.c_str(), mm);
                const XObjectPtr r = ev.evaluate(dom, doc, xs.c_str());
                const XalanDOMString& s = r->str(ev.getExecutionContext());
                for (XalanDOMString::size_type i = 0; i < s.length() && i < 200; ++i) res.push_back(char(s[i] & 0x7f));
            });
            // errors are exceptions by the documented contract of this C++ class: XSL/SAX/XML/DOM exception = reported
            if (esc != "none") rc = -1;
            int rc2 = -99, v2 = -1;
            std::string esc2 = guarded([&] { rc2 = XalanEvaluateXPathExpressionAsBoolean(E, "count(/r/i) = 3", 0, GOOD_XML, &v2); });
            std::cout << "rc=" << rc << " msg=" << (esc == "none" ? 0 : 1) << " esc=" << esc << " fu="
                      << ((esc2 == "none" && rc2 == 0 && v2 == 1) ? 1 : 0) << " out=" << tohex(res) << std::endl;
        }
        else
        {
            std::cout << "bad" << std::endl;
        }
    }
    XalanDestroyXPathEvaluator(E);
    XalanXPathAPITerminate();
    std::cout << "done" << std::endl;
    return 0;
}

int main(int argc, char** argv)
{
    std::ios::sync_with_stdio(false);
    const std::string mode = argc > 1 ? argv[1] : "xslt";
    return mode == "xpath" ? xpathMode() : xsltMode();
}
