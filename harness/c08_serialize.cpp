// C08 correspondence harness.  Drives the real serializers of /repo's working tree in-process.
//
//   sax <method> <doIndent> <amount> <ver> <enc> <xmldecl> <standalone> <dsys> <dpub> <escURLs> <omitMeta> | <events…>
//        builds the listener exactly as StylesheetExecutionContextDefault::createFormatterTo{XML,HTML,Text} does
//        (XalanXMLSerializerFactory::create / FormatterToHTML::create / FormatterToText::create) on a
//        XalanStdOutputStream, replays the SAX events, replies  "ok <hex of output bytes>"
//   xf <apiIndent> <apiEnc> <apiOmitMeta> <apiEscURLs> <stylesheet> <…model fields, ignored here…>
//        XalanTransformer::transform of the source "<r/>" with the given stylesheet and API overrides
//   events:  S <name> <k> (<aname> <avalue>)*k | E <name> | T <text> | C <text> | R <text> | M <text> | P <target> <data>
//   every string is lower-case hex of its UTF-16 code units (4 digits each), "-" = empty.
#include <xercesc/util/PlatformUtils.hpp>
#include <xercesc/sax/SAXException.hpp>

#include <xalanc/Include/PlatformDefinitions.hpp>
#include <xalanc/XalanTransformer/XalanTransformer.hpp>
#include <xalanc/PlatformSupport/XalanStdOutputStream.hpp>
#include <xalanc/PlatformSupport/XalanOutputStreamPrintWriter.hpp>
#include <xalanc/PlatformSupport/AttributeListImpl.hpp>
#include <xalanc/PlatformSupport/XSLException.hpp>
#include <xalanc/PlatformSupport/PrefixResolver.hpp>
#include <xalanc/Include/STLHelper.hpp>
#include <xalanc/XMLSupport/XalanXMLSerializerFactory.hpp>
#include <xalanc/XMLSupport/FormatterToHTML.hpp>
#include <xalanc/XMLSupport/FormatterToText.hpp>
#include <xalanc/XMLSupport/XalanUTF8Writer.hpp>
#include <xalanc/XSLT/XSLTInputSource.hpp>
#include <xalanc/XSLT/XSLTResultTarget.hpp>
#include <xalanc/XSLT/XSLTEngineImpl.hpp>
#include <xalanc/XSLT/XSLTProcessorEnvSupportDefault.hpp>
#include <xalanc/XPath/XObjectFactoryDefault.hpp>
#include <xalanc/XPath/XPathFactoryBlock.hpp>
#include <xalanc/XalanSourceTree/XalanSourceTreeDOMSupport.hpp>
#include <xalanc/XalanSourceTree/XalanSourceTreeParserLiaison.hpp>

#include <cstdio>
#include <iostream>
#include <sstream>
#include <string>
#include <vector>
#include <memory>

using namespace xalanc;

static bool unhex(const std::string& h, XalanDOMString& out)
{
    out.clear();
    if (h == "-") return true;
    if (h.size() % 4) return false;
    for (size_t i = 0; i < h.size(); i += 4)
    {
        unsigned v = 0;
        for (size_t j = 0; j < 4; ++j)
        {
            char c = h[i + j];
            v <<= 4;
            if (c >= '0' && c <= '9') v |= unsigned(c - '0');
            else if (c >= 'a' && c <= 'f') v |= unsigned(c - 'a' + 10);
            else return false;
        }
        out.push_back(XalanDOMChar(v));
    }
    return true;
}

static std::string utf8of(const XalanDOMString& s)
{
    std::string r;
    for (XalanDOMString::size_type i = 0; i < s.length(); ++i)
    {
        unsigned c = s[i];
        if (c >= 0xD800 && c < 0xDC00 && i + 1 < s.length())
        {
            unsigned d = s[i + 1];
            c = 0x10000 + ((c - 0xD800) << 10) + (d - 0xDC00);
            ++i;
        }
        if (c < 0x80) r += char(c);
        else if (c < 0x800) { r += char(0xC0 | (c >> 6)); r += char(0x80 | (c & 0x3F)); }
        else if (c < 0x10000) { r += char(0xE0 | (c >> 12)); r += char(0x80 | ((c >> 6) & 0x3F)); r += char(0x80 | (c & 0x3F)); }
        else { r += char(0xF0 | (c >> 18)); r += char(0x80 | ((c >> 12) & 0x3F)); r += char(0x80 | ((c >> 6) & 0x3F)); r += char(0x80 | (c & 0x3F)); }
    }
    return r;
}

static std::string hexbytes(const std::string& b)
{
    static const char* d = "0123456789abcdef";
    std::string r;
    if (b.empty()) return "-";
    for (unsigned char c : b) { r += d[c >> 4]; r += d[c & 15]; }
    return r;
}

static std::vector<std::string> words(const std::string& line)
{
    std::vector<std::string> w;
    std::istringstream is(line);
    std::string x;
    while (is >> x) w.push_back(x);
    return w;
}

// The prefix resolver the XSLT engine installs on FormatterToHTML answers from the result namespaces; at SAX level
// the harness binds the prefixes "m" and "svg" (the generator's namespaced vocabulary) and nothing else.
class FixedResolver : public PrefixResolver
{
public:
    FixedResolver() : m_m("urn:m"), m_svg("urn:svg"), m_uri("") {}
    virtual const XalanDOMString* getNamespaceForPrefix(const XalanDOMString& prefix) const
    {
        if (prefix.length() == 1 && prefix[0] == 'm') return &m_m;
        if (prefix.length() == 3 && prefix[0] == 's' && prefix[1] == 'v' && prefix[2] == 'g') return &m_svg;
        return 0;
    }
    virtual const XalanDOMString& getURI() const { return m_uri; }
private:
    XalanDOMString m_m, m_svg, m_uri;
};

static std::string doSax(const std::vector<std::string>& w)
{
    if (w.size() < 13 || w[12] != "|") return "bad";
    const std::string& method = w[1];
    const bool doIndent = w[2] == "1";
    const int amount = std::atoi(w[3].c_str());
    XalanDOMString ver, enc, standalone, dsys, dpub, empty;
    if (!unhex(w[4], ver) || !unhex(w[5], enc) || !unhex(w[7], standalone) || !unhex(w[8], dsys) || !unhex(w[9], dpub)) return "bad";
    const bool xmlDecl = w[6] == "1";
    const bool escURLs = w[10] == "1";
    const bool omitMeta = w[11] == "1";

    MemoryManager& mm = XalanMemMgrs::getDefaultXercesMemMgr();
    std::ostringstream os;
    std::string result;
    std::unique_ptr<FixedResolver> resolver;   // must outlive the listener, must not outlive Xalan
    try
    {
        XalanStdOutputStream stream(os, mm);
        XalanOutputStreamPrintWriter pw(stream);
        FormatterListener* fl = 0;
        if (method == "xml")
            fl = XalanXMLSerializerFactory::create(mm, pw, ver, doIndent, amount, enc, empty, dsys, dpub, xmlDecl, standalone);
        else if (method == "html")
        {
            resolver.reset(new FixedResolver);
            fl = FormatterToHTML::create(mm, pw, enc, empty, dsys, dpub, doIndent, amount, escURLs, omitMeta);
            fl->setPrefixResolver(resolver.get());
        }
        else if (method == "text")
            fl = FormatterToText::create(mm, pw, enc);
        else
            return "bad";
        struct Guard { MemoryManager& m; FormatterListener* p; ~Guard() { DeleteFunctor<FormatterListener> d(m); d(p); } } guard = { mm, fl };
        fl->startDocument();
        size_t i = 13;
        XalanDOMString a, b;
        while (i < w.size())
        {
            const std::string& k = w[i];
            if (k == "S")
            {
                if (i + 2 >= w.size()) return "bad";
                if (!unhex(w[i + 1], a)) return "bad";
                const size_t n = size_t(std::atoi(w[i + 2].c_str()));
                if (i + 2 + 2 * n >= w.size()) return "bad";
                AttributeListImpl attrs(mm);
                static const XalanDOMChar cdataType[] = { 'C', 'D', 'A', 'T', 'A', 0 };
                for (size_t j = 0; j < n; ++j)
                {
                    XalanDOMString an, av;
                    if (!unhex(w[i + 3 + 2 * j], an) || !unhex(w[i + 4 + 2 * j], av)) return "bad";
                    attrs.addAttribute(an.c_str(), cdataType, av.c_str());
                }
                fl->startElement(a.c_str(), attrs);
                i += 3 + 2 * n;
            }
            else if (k == "E") { if (!unhex(w[i + 1], a)) return "bad"; fl->endElement(a.c_str()); i += 2; }
            else if (k == "T") { if (!unhex(w[i + 1], a)) return "bad"; fl->characters(a.c_str(), a.length()); i += 2; }
            else if (k == "C") { if (!unhex(w[i + 1], a)) return "bad"; fl->cdata(a.c_str(), a.length()); i += 2; }
            else if (k == "R") { if (!unhex(w[i + 1], a)) return "bad"; fl->charactersRaw(a.c_str(), a.length()); i += 2; }
            else if (k == "M") { if (!unhex(w[i + 1], a)) return "bad"; fl->comment(a.c_str()); i += 2; }
            else if (k == "P") { if (!unhex(w[i + 1], a) || !unhex(w[i + 2], b)) return "bad"; fl->processingInstruction(a.c_str(), b.c_str()); i += 3; }
            else return "bad";
        }
        fl->endDocument();
        pw.flush();
        stream.flush();
        result = "ok " + hexbytes(os.str());
    }
    catch (const xercesc::SAXException&) { result = "ERR:sax"; }
    catch (const XSLException&) { result = "ERR:xsl"; }
    catch (const XalanOutputStream::XalanOutputStreamException&) { result = "ERR:stream"; }
    catch (...) { result = "ERR:other"; }
    return result;
}

static std::string doXf(XalanTransformer& xt, const std::vector<std::string>& w)
{
    if (w.size() < 6) return "bad";
    const int apiIndent = std::atoi(w[1].c_str());
    XalanDOMString apiEnc, ss;
    if (!unhex(w[2], apiEnc) || !unhex(w[5], ss)) return "bad";
    const int om = std::atoi(w[3].c_str());
    const int eu = std::atoi(w[4].c_str());
    xt.setIndent(apiIndent);
    xt.setOutputEncoding(apiEnc);
    xt.setOmitMETATag(om == 1 ? XalanTransformer::eOmitMETATagNo : om == 2 ? XalanTransformer::eOmitMETATagYes : XalanTransformer::eOmitMETATagDefault);
    xt.setEscapeURLs(eu == 1 ? XalanTransformer::eEscapeURLsNo : eu == 2 ? XalanTransformer::eEscapeURLsYes : XalanTransformer::eEscapeURLsDefault);
    const std::string sheet = utf8of(ss);
    std::istringstream xml("<?xml version='1.0'?><r/>");
    std::istringstream xsl(sheet);
    std::ostringstream out;
    XSLTInputSource src(&xml);
    XSLTInputSource sty(&xsl);
    static const XalanDOMChar sid1[] = { 's', 'r', 'c', 0 };
    static const XalanDOMChar sid2[] = { 'x', 's', 'l', 0 };
    src.setSystemId(sid1);
    sty.setSystemId(sid2);
    XSLTResultTarget tgt(out);
    const int rc = xt.transform(src, sty, tgt);
    if (rc != 0)
    {
        std::string e = xt.getLastError() ? xt.getLastError() : "";
        for (char& c : e) if (c == '\n' || c == '\r') c = ' ';
        return "ERR:transform " + e.substr(0, 200);
    }
    return "ok " + hexbytes(out.str());
}

// xs <useXercesDOM> <source hex> <stylesheet hex>: transform a given source, parsed into Xalan's own source tree or
// into a Xerces DOM (which keeps CDATA sections as nodes of their own)
static std::string doXs(XalanTransformer& xt, const std::vector<std::string>& w)
{
    if (w.size() < 4) return "bad";
    XalanDOMString srcText, ss;
    if (!unhex(w[2], srcText) || !unhex(w[3], ss)) return "bad";
    xt.setIndent(-1);
    xt.setOutputEncoding(XalanDOMString());
    xt.setOmitMETATag(XalanTransformer::eOmitMETATagDefault);
    xt.setEscapeURLs(XalanTransformer::eEscapeURLsDefault);
    const std::string source = utf8of(srcText);
    const std::string sheet = utf8of(ss);
    std::istringstream xml(source);
    std::istringstream xsl(sheet);
    std::ostringstream out;
    XSLTInputSource src(&xml);
    XSLTInputSource sty(&xsl);
    static const XalanDOMChar sid1[] = { 's', 'r', 'c', 0 };
    static const XalanDOMChar sid2[] = { 'x', 's', 'l', 0 };
    src.setSystemId(sid1);
    sty.setSystemId(sid2);
    const XalanParsedSource* parsed = 0;
    if (xt.parseSource(src, parsed, w[1] == "1") != 0 || parsed == 0)
        return "ERR:parse";
    XSLTResultTarget tgt(out);
    const int rc = xt.transform(*parsed, sty, tgt);
    xt.destroyParsedSource(parsed);
    if (rc != 0)
    {
        std::string e = xt.getLastError() ? xt.getLastError() : "";
        for (char& c : e) if (c == '\n' || c == '\r') c = ' ';
        return "ERR:transform " + e.substr(0, 200);
    }
    return "ok " + hexbytes(out.str());
}

// eraw <kind> <start> <length> <buffer hex>: the XSLTProcessor entry points that take (buffer, start, length), called
// directly on a real XSLTEngineImpl whose listener is the real UTF-8 XML serializer:
//   kind = raw   -> XSLTEngineImpl::charactersRaw(ch, start, length)
//   kind = chars -> XSLTEngineImpl::characters(ch, start, length)
//   kind = cdata -> XSLTEngineImpl::cdata(ch, start, length)
// inside <a>…</a>.  Reply: the serialized document.
static std::string doEraw(const std::vector<std::string>& w)
{
    if (w.size() < 5) return "bad";
    XalanDOMString buf;
    if (!unhex(w[4], buf)) return "bad";
    const XalanDOMString::size_type start = XalanDOMString::size_type(std::atoi(w[2].c_str()));
    const XalanDOMString::size_type len = XalanDOMString::size_type(std::atoi(w[3].c_str()));
    if (start + len > buf.length() || len == 0) return "bad";
    MemoryManager& mm = XalanMemMgrs::getDefaultXercesMemMgr();
    std::ostringstream os;
    std::string result;
    try
    {
        XalanSourceTreeDOMSupport       domSupport;
        XalanSourceTreeParserLiaison    liaison(domSupport, mm);
        domSupport.setParserLiaison(&liaison);
        XSLTProcessorEnvSupportDefault  envSupport(mm);
        XObjectFactoryDefault           xobjectFactory(mm);
        XPathFactoryBlock               xpathFactory(mm);
        XSLTEngineImpl                  engine(mm, liaison, envSupport, domSupport, xobjectFactory, xpathFactory);
        envSupport.setProcessor(&engine);
        XalanStdOutputStream stream(os, mm);
        XalanOutputStreamPrintWriter pw(stream);
        XalanDOMString ver, enc, empty;
        FormatterListener* fl = XalanXMLSerializerFactory::create(mm, pw, ver, false, 0, enc, empty, empty, empty, false, empty);
        struct Guard { MemoryManager& m; FormatterListener* p; ~Guard() { DeleteFunctor<FormatterListener> d(m); d(p); } } guard = { mm, fl };
        engine.setFormatterListener(fl);
        static const XalanDOMChar nameA[] = { 'a', 0 };
        fl->startDocument();
        AttributeListImpl attrs(mm);
        fl->startElement(nameA, attrs);
        if (w[1] == "raw") engine.charactersRaw(buf.c_str(), start, len);
        else if (w[1] == "chars") engine.characters(buf.c_str(), start, len);
        else if (w[1] == "cdata") engine.cdata(buf.c_str(), start, len);
        else return "bad";
        fl->endElement(nameA);
        fl->endDocument();
        pw.flush();
        stream.flush();
        result = "ok " + hexbytes(os.str());
    }
    catch (const xercesc::SAXException&) { result = "ERR:sax"; }
    catch (const XSLException&) { result = "ERR:xsl"; }
    catch (...) { result = "ERR:other"; }
    return result;
}

// u8 <kind> <hex units>: the real XalanUTF8Writer on a byte stream.
//   kind = bulk -> write(const XalanDOMChar*, size_type)            (names, disable-output-escaping text, doctype strings)
//   kind = safe -> writeSafe(const XalanDOMChar*, size_type)
//   kind = unit -> the run written one position at a time with write(chars, start, length) (text, CDATA, comments)
static std::string doU8(const std::vector<std::string>& w)
{
    if (w.size() < 3) return "bad";
    XalanDOMString run;
    if (!unhex(w[2], run)) return "bad";
    MemoryManager& mm = XalanMemMgrs::getDefaultXercesMemMgr();
    std::ostringstream os;
    std::string result;
    try
    {
        XalanStdOutputStream stream(os, mm);
        XalanOutputStreamPrintWriter pw(stream);
        {
            XalanDOMString enc("UTF-8", mm);
            stream.setOutputEncoding(enc);
        }
        XalanUTF8Writer u8(pw, mm);
        const XalanDOMString::size_type n = run.length();
        if (w[1] == "bulk") u8.write(run.c_str(), n);
        else if (w[1] == "safe") u8.writeSafe(run.c_str(), n);
        else if (w[1] == "unit")
        {
            for (XalanDOMString::size_type i = 0; i < n; ++i)
                i = u8.write(run.c_str(), i, n);
        }
        else return "bad";
        u8.flushBuffer();
        pw.flush();
        stream.flush();
        result = "ok " + hexbytes(os.str());
    }
    catch (const xercesc::SAXException&) { result = "ERR:sax"; }
    catch (const XSLException&) { result = "ERR:xsl"; }
    catch (...) { result = "ERR:other"; }
    return result;
}

int main()
{
    xercesc::XMLPlatformUtils::Initialize();
    XalanTransformer::initialize();
    {
        XalanTransformer xt;
        std::string line;
        while (std::getline(std::cin, line))
        {
            std::vector<std::string> w = words(line);
            std::string r;
            if (w.empty()) r = "bad";
            else if (w[0] == "sax") r = doSax(w);
            else if (w[0] == "xf") r = doXf(xt, w);
            else if (w[0] == "xs") r = doXs(xt, w);
            else if (w[0] == "eraw") r = doEraw(w);
            else if (w[0] == "u8") r = doU8(w);
            else r = "bad";
            std::cout << r << "\n";
        }
        std::cout.flush();
    }
    XalanTransformer::terminate();
    xercesc::XMLPlatformUtils::Terminate();
    return 0;
}
