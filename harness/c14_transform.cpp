// C14 harness: runs generated stylesheets through the real library (XalanTransformer, default
// XalanSourceTree source, XML output) in-process.
// stdin : one case per line:  <hex(utf-8 stylesheet)> <hex(utf-8 source document)> [<file name>=<hex(utf-8 module)>]*
//         the optional modules are written to the directory given as argv[1] (imported with xsl:import href="<file name>")
// stdout: one reply per line: OK <hex(utf-8 result)>   |   ERR <hex(message)>
#include <xalanc/Include/PlatformDefinitions.hpp>
#include <xercesc/util/PlatformUtils.hpp>
#include <xalanc/XalanTransformer/XalanTransformer.hpp>
#include <xalanc/XSLT/XSLTInputSource.hpp>
#include <xalanc/XSLT/XSLTResultTarget.hpp>
#include <iostream>
#include <sstream>
#include <fstream>
#include <vector>
#include <string>

using xercesc::XMLPlatformUtils;
using xalanc::XalanTransformer;
using xalanc::XSLTInputSource;
using xalanc::XSLTResultTarget;

static int hv(char c) { return c <= '9' ? c - '0' : (c | 32) - 'a' + 10; }
static std::string unhex(const std::string& h) {
    std::string r;
    for (size_t i = 0; i + 1 < h.size(); i += 2) r.push_back(char(hv(h[i]) * 16 + hv(h[i + 1])));
    return r;
}
static std::string hex(const std::string& s) {
    static const char* d = "0123456789abcdef";
    std::string r;
    for (unsigned char c : s) { r.push_back(d[c >> 4]); r.push_back(d[c & 15]); }
    return r.empty() ? "-" : r;
}

int main(int argc, char** argv) {
    const std::string dir = argc > 1 ? argv[1] : ".";
    XMLPlatformUtils::Initialize();
    XalanTransformer::initialize();
    {
        std::string line;
        while (std::getline(std::cin, line)) {
            std::vector<std::string> f;
            {
                std::istringstream ls(line);
                std::string w;
                while (ls >> w) f.push_back(w);
            }
            if (f.size() < 2) { std::cout << "ERR " << hex("bad request") << "\n"; continue; }
            std::string xsl = unhex(f[0]), xml = unhex(f[1]);
            for (size_t k = 2; k < f.size(); ++k) {
                size_t eq = f[k].find('=');
                if (eq == std::string::npos) continue;
                std::ofstream o((dir + "/" + f[k].substr(0, eq)).c_str(), std::ios::binary | std::ios::trunc);
                o << unhex(f[k].substr(eq + 1));
            }
            std::istringstream xmlIn(xml), xslIn(xsl);
            std::ostringstream out;
            XalanTransformer t;
            XSLTInputSource src(&xmlIn), sty(&xslIn);
            src.setSystemId(xalanc::XalanDOMString("file:///c14/in.xml").c_str());
            sty.setSystemId(xalanc::XalanDOMString((std::string("file://") + dir + "/main.xsl").c_str()).c_str());
            XSLTResultTarget res(out);
            int rc = t.transform(src, sty, res);
            if (rc == 0) std::cout << "OK " << hex(out.str()) << "\n";
            else std::cout << "ERR " << hex(t.getLastError()) << "\n";
        }
        std::cout.flush();
    }
    XalanTransformer::terminate();
    XMLPlatformUtils::Terminate();
    return 0;
}
