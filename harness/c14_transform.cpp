// C14 harness: runs generated stylesheets through the real library (XalanTransformer, default
// XalanSourceTree source, XML output) in-process.
// stdin : one case per line:  <hex(utf-8 stylesheet)> <hex(utf-8 source document)>
// stdout: one reply per line: OK <hex(utf-8 result)>   |   ERR <hex(message)>
#include <xalanc/Include/PlatformDefinitions.hpp>
#include <xercesc/util/PlatformUtils.hpp>
#include <xalanc/XalanTransformer/XalanTransformer.hpp>
#include <xalanc/XSLT/XSLTInputSource.hpp>
#include <xalanc/XSLT/XSLTResultTarget.hpp>
#include <iostream>
#include <sstream>
#include <string>

using xercesc::XMLPlatformUtils;
using xalanc::XalanTransformer;
using xalanc::XSLTInputSource;
using xalanc::XSLTResultTarget;

static int hv(char c) { return c <= '9' ? c - '0' : (c | 32) - 'a' + 10; }
static std::string unhex(const std::string& h) {
    std::string r;
    for (size_t i = 0; i + 1 < h.size(); i += 2) r.push_back(char(hv(h[i]) * 16 + hv(h[i + 1])));
    return r;
}
static std::string hex(const std::string& s) {
    static const char* d = "0123456789abcdef";
    std::string r;
    for (unsigned char c : s) { r.push_back(d[c >> 4]); r.push_back(d[c & 15]); }
    return r.empty() ? "-" : r;
}

int main() {
    XMLPlatformUtils::Initialize();
    XalanTransformer::initialize();
    {
        std::string line;
        while (std::getline(std::cin, line)) {
            size_t sp = line.find(' ');
            if (sp == std::string::npos) { std::cout << "ERR " << hex("bad request") << "\n"; continue; }
            std::string xsl = unhex(line.substr(0, sp)), xml = unhex(line.substr(sp + 1));
            std::istringstream xmlIn(xml), xslIn(xsl);
            std::ostringstream out;
            XalanTransformer t;
            XSLTInputSource src(&xmlIn), sty(&xslIn);
            src.setSystemId(xalanc::XalanDOMString("file:///c14/in.xml").c_str());
            sty.setSystemId(xalanc::XalanDOMString("file:///c14/in.xsl").c_str());
            XSLTResultTarget res(out);
            int rc = t.transform(src, sty, res);
            if (rc == 0) std::cout << "OK " << hex(out.str()) << "\n";
            else std::cout << "ERR " << hex(t.getLastError()) << "\n";
        }
        std::cout.flush();
    }
    XalanTransformer::terminate();
    XMLPlatformUtils::Terminate();
    return 0;
}
