// C13 harness: drives the real library (working-tree build) in-process.
//
//   c13_strip <dir>      reads request lines on stdin, one reply line each on stdout
//
//   strip <case> ...     compile <dir>/<case>.xsl, parse <dir>/<case>.xml (default XalanSourceTree),
//                        walk the source in document order and ask the real
//                        StylesheetRoot::shouldStripSourceNode(text) for every text node;
//                        reply: one char per text node (1 = stripped), "-" if there is none
//   eval|copy|key|number <case> ...
//                        transform <case>.xml with <case>.xsl (value-of of one expression / copy-of / key lookup /
//                        xsl:number level=any at every node, method=text); reply: S<hex of the UTF-16 units of the output>
//   xform <case> ...     transform <case>.xml with <case>.xsl; reply: X<hex of the output bytes>
//   <kind>x              (stripx, evalx, copyx, keyx, numberx, numbersmx, xformx) the same with the source parsed into a Xerces DOM (XercesDOMWrapper) instead of XalanSourceTree
//   errors               ERR:<what>
//
// Everything after <case> on the line is for the Lean driver and ignored here.
#include <cstdio>
#include <iostream>
#include <sstream>
#include <string>
#include <vector>

#include <xercesc/util/PlatformUtils.hpp>

#include <xalanc/Include/PlatformDefinitions.hpp>
#include <xalanc/XalanDOM/XalanDocument.hpp>
#include <xalanc/XalanDOM/XalanNode.hpp>
#include <xalanc/XalanDOM/XalanText.hpp>
#include <xalanc/XSLT/StylesheetRoot.hpp>
#include <xalanc/XSLT/XSLTInputSource.hpp>
#include <xalanc/XSLT/XSLTResultTarget.hpp>
#include <xalanc/XalanTransformer/XalanCompiledStylesheet.hpp>
#include <xalanc/XalanTransformer/XalanParsedSource.hpp>
#include <xalanc/XalanTransformer/XalanTransformer.hpp>

using namespace xalanc;

static std::string hexBytes(const std::string& s)
{
    static const char* d = "0123456789abcdef";
    std::string r;
    r.reserve(s.size() * 2);
    for (unsigned char c : s) { r += d[c >> 4]; r += d[c & 15]; }
    return r.empty() ? std::string("-") : r;
}

// UTF-8 -> UTF-16 units -> 4 hex digits each (what the Lean driver prints)
static std::string hexUnits(const std::string& s)
{
    static const char* d = "0123456789abcdef";
    std::string r;
    size_t i = 0;
    while (i < s.size())
    {
        unsigned c = (unsigned char)s[i];
        unsigned cp = 0; int n = 0;
        if (c < 0x80) { cp = c; n = 1; }
        else if ((c >> 5) == 6) { cp = c & 31; n = 2; }
        else if ((c >> 4) == 14) { cp = c & 15; n = 3; }
        else { cp = c & 7; n = 4; }
        for (int k = 1; k < n && i + k < s.size(); ++k) cp = (cp << 6) | ((unsigned char)s[i + k] & 63);
        i += n;
        unsigned units[2]; int nu = 1;
        if (cp >= 0x10000) { cp -= 0x10000; units[0] = 0xD800 + (cp >> 10); units[1] = 0xDC00 + (cp & 0x3FF); nu = 2; }
        else units[0] = cp;
        for (int k = 0; k < nu; ++k)
        {
            r += d[(units[k] >> 12) & 15]; r += d[(units[k] >> 8) & 15]; r += d[(units[k] >> 4) & 15]; r += d[units[k] & 15];
        }
    }
    return r.empty() ? std::string("-") : r;
}

static void walk(const XalanNode* n, const StylesheetRoot* root, std::string& bits)
{
    for (const XalanNode* c = n->getFirstChild(); c != 0; c = c->getNextSibling())
    {
        if (c->getNodeType() == XalanNode::TEXT_NODE)
        {
            const XalanText& t = static_cast<const XalanText&>(*c);
            bits += root->shouldStripSourceNode(t) ? '1' : '0';
        }
        else if (c->getNodeType() == XalanNode::ELEMENT_NODE)
        {
            walk(c, root, bits);
        }
    }
}

int main(int argc, char** argv)
{
    if (argc < 2) { std::fprintf(stderr, "usage: c13_strip <dir>\n"); return 2; }
    const std::string dir = argv[1];
    xercesc::XMLPlatformUtils::Initialize();
    XalanTransformer::initialize();
    {
        std::string line;
        while (std::getline(std::cin, line))
        {
            std::istringstream is(line);
            std::string kind, cs;
            is >> kind >> cs;
            const std::string xsl = dir + "/" + cs + ".xsl";
            const std::string xml = dir + "/" + cs + ".xml";
            XalanTransformer xt;
            // a trailing 'x' on the kind: parse the source into a Xerces DOM (wrapped) instead of the XalanSourceTree
            bool xercesDom = false;
            if (kind.size() > 1 && kind[kind.size() - 1] == 'x') { xercesDom = true; kind.erase(kind.size() - 1); }
            if (kind == "strip")
            {
                const XalanCompiledStylesheet* comp = 0;
                const XalanParsedSource* src = 0;
                if (xt.compileStylesheet(XSLTInputSource(xsl.c_str()), comp) != 0 || comp == 0)
                {
                    std::cout << "ERR:compile " << xt.getLastError() << "\n";
                    continue;
                }
                if (xt.parseSource(XSLTInputSource(xml.c_str()), src, xercesDom) != 0 || src == 0)
                {
                    std::cout << "ERR:parse " << xt.getLastError() << "\n";
                    continue;
                }
                std::string bits;
                walk(src->getDocument(), comp->getStylesheetRoot(), bits);
                std::cout << (bits.empty() ? std::string("-") : bits) << "\n";
                xt.destroyParsedSource(src);
                xt.destroyStylesheet(comp);
            }
            else if (kind == "eval" || kind == "xform" || kind == "copy" || kind == "key" || kind == "keyarg" || kind == "number" || kind == "numbersm")
            {
                std::ostringstream out;
                int rc;
                if (xercesDom)
                {
                    const XalanParsedSource* src = 0;
                    rc = xt.parseSource(XSLTInputSource(xml.c_str()), src, true);
                    if (rc == 0 && src != 0)
                    {
                        rc = xt.transform(*src, XSLTInputSource(xsl.c_str()), XSLTResultTarget(out));
                        xt.destroyParsedSource(src);
                    }
                }
                else
                    rc = xt.transform(XSLTInputSource(xml.c_str()), XSLTInputSource(xsl.c_str()), XSLTResultTarget(out));
                if (rc != 0)
                {
                    std::string e = xt.getLastError();
                    for (char& ch : e) if (ch == '\n' || ch == '\r') ch = ' ';
                    std::cout << "ERR:transform " << e << "\n";
                }
                else if (kind != "xform")
                    std::cout << "S" << hexUnits(out.str()) << "\n";
                else
                    std::cout << "X" << hexBytes(out.str()) << "\n";
            }
            else
            {
                std::cout << "bad\n";
            }
            std::cout.flush();
        }
    }
    XalanTransformer::terminate();
    xercesc::XMLPlatformUtils::Terminate();
    return 0;
}
