// C20 correspondence harness: replays container operation logs on the real Xalan templates
// (compiled from /repo's working-tree headers, under ASan+UBSan) side by side with the std::
// containers.  Reply per request line:  "<size> <capacity> : <elements...>"  (+ " !std" when
// the contents differ from the std:: model — the property evaluated on the implementation).
#include <xalanc/Include/PlatformDefinitions.hpp>
#include <xalanc/Include/XalanVector.hpp>
#include <xalanc/Include/XalanMemoryManagement.hpp>
#include <xercesc/framework/MemoryManager.hpp>

#include <cstdio>
#include <cstdlib>
#include <iostream>
#include <sstream>
#include <string>
#include <vector>

using namespace xalanc;

// A malloc-backed manager that counts live blocks (no Xerces initialisation needed).
class CountingManager : public xercesc::MemoryManager
{
public:
    long live = 0;
    void* allocate(XMLSize_t n) override { ++live; void* p = std::malloc(n ? n : 1); if (!p) throw std::bad_alloc(); return p; }
    void deallocate(void* p) override { if (p) { --live; std::free(p); } }
    xercesc::MemoryManager* getExceptionMemoryManager() override { return this; }
};

static CountingManager g_mm;

typedef XalanVector<int> XVec;

struct VecPair
{
    XVec x;
    std::vector<int> s;
    VecPair() : x(g_mm) {}
};

static std::string show(VecPair& p)
{
    std::ostringstream o;
    o << p.x.size() << " " << p.x.capacity() << " :";
    bool same = p.x.size() == p.s.size();
    for (size_t i = 0; i < p.x.size(); ++i)
    {
        o << " " << p.x[i];
        if (same && p.x[i] != p.s[i]) same = false;
    }
    if (!same) o << " !std";
    return o.str();
}

int main()
{
    std::vector<VecPair*> vs;
    for (int i = 0; i < 4; ++i) vs.push_back(new VecPair);
    std::string line;
    while (std::getline(std::cin, line))
    {
        std::istringstream in(line);
        std::string sub, op;
        in >> sub >> op;
        if (sub != "vec") { std::cout << "bad\n"; continue; }
        long a[5] = {0, 0, 0, 0, 0};
        int n = 0;
        while (n < 5 && (in >> a[n])) ++n;
        size_t id = size_t(a[0]);
        if (id >= vs.size()) { std::cout << "bad\n"; continue; }
        VecPair& p = *vs[id];
        if (op == "new") { delete vs[id]; vs[id] = new VecPair; std::cout << show(*vs[id]) << "\n"; continue; }
        if (op == "newcap")
        {
            delete vs[id];
            vs[id] = new VecPair;
            XVec t(g_mm, size_t(a[1]));
            vs[id]->x.swap(t);
            std::cout << show(*vs[id]) << "\n";
            continue;
        }
        if (op == "push") { p.x.push_back(int(a[1])); p.s.push_back(int(a[1])); }
        else if (op == "pop") { p.x.pop_back(); p.s.pop_back(); }
        else if (op == "ins1") { p.x.insert(p.x.begin() + a[1], int(a[2])); p.s.insert(p.s.begin() + a[1], int(a[2])); }
        else if (op == "insn") { p.x.insert(p.x.begin() + a[1], size_t(a[2]), int(a[3])); p.s.insert(p.s.begin() + a[1], size_t(a[2]), int(a[3])); }
        else if (op == "insr")
        {
            VecPair& q = *vs[size_t(a[2])];
            p.x.insert(p.x.begin() + a[1], q.x.begin() + a[3], q.x.begin() + a[4]);
            p.s.insert(p.s.begin() + a[1], q.s.begin() + a[3], q.s.begin() + a[4]);
        }
        else if (op == "erase") { p.x.erase(p.x.begin() + a[1], p.x.begin() + a[2]); p.s.erase(p.s.begin() + a[1], p.s.begin() + a[2]); }
        else if (op == "resize") { p.x.resize(size_t(a[1]), int(a[2])); p.s.resize(size_t(a[1]), int(a[2])); }
        else if (op == "reserve") { p.x.reserve(size_t(a[1])); p.s.reserve(size_t(a[1])); }
        else if (op == "clear") { p.x.clear(); p.s.clear(); }
        else if (op == "assign")
        {
            VecPair& q = *vs[size_t(a[1])];
            p.x.assign(q.x.begin() + a[2], q.x.begin() + a[3]);
            p.s.assign(q.s.begin() + a[2], q.s.begin() + a[3]);
        }
        else if (op == "copy") { VecPair& q = *vs[size_t(a[1])]; p.x = q.x; p.s = q.s; }
        else if (op == "swap") { VecPair& q = *vs[size_t(a[1])]; p.x.swap(q.x); p.s.swap(q.s); }
        // aliasing forms: the value argument refers to an element of the same vector
        else if (op == "insself") { p.s.insert(p.s.begin() + a[1], size_t(a[2]), p.s[size_t(a[3])]); p.x.insert(p.x.begin() + a[1], size_t(a[2]), p.x[size_t(a[3])]); }
        else if (op == "pushself") { p.s.push_back(p.s[size_t(a[1])]); p.x.push_back(p.x[size_t(a[1])]); }
        else { std::cout << "bad\n"; continue; }
        std::cout << show(p) << "\n";
    }
    for (auto* v : vs) delete v;
    std::cout << "live " << g_mm.live << "\n";
    return 0;
}
