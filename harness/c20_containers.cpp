// C20 correspondence harness: replays container operation logs on the real Xalan templates
// (compiled from /repo's working-tree headers, under ASan+UBSan) side by side with the std::
// containers.  One reply line per request line; the reply is the canonical dump of the container
// acted on (same format as lean/Driver/C20.lean) + " !std" when the observable state differs from
// the std:: reference — the property evaluated on the implementation.  After a " !std" reply every
// further request of the same sequence is answered "skip" (the two sides have diverged); `reset`
// starts the next sequence with fresh containers.
#include <xalanc/Include/PlatformDefinitions.hpp>
#include <xalanc/Include/XalanVector.hpp>
#include <xalanc/Include/XalanList.hpp>
#include <xalanc/Include/XalanMap.hpp>
#include <xalanc/Include/XalanSet.hpp>
#include <xalanc/Include/XalanDeque.hpp>
#include <xalanc/Include/XalanObjectCache.hpp>
#include <xalanc/Include/XalanMemoryManagement.hpp>
#include <xercesc/framework/MemoryManager.hpp>

#include <algorithm>
#include <cstdio>
#include <cstdlib>
#include <cstdint>
#include <deque>
#include <iostream>
#include <list>
#include <map>
#include <memory>
#include <set>
#include <sstream>
#include <string>
#include <vector>

using namespace xalanc;

// A malloc-backed manager that counts live blocks (no Xerces initialisation needed).
class CountingManager : public xercesc::MemoryManager
{
public:
    long live = 0;
    void* allocate(XMLSize_t n) override { ++live; void* p = std::malloc(n ? n : 1); if (!p) throw std::bad_alloc(); return p; }
    void deallocate(void* p) override { if (p) { --live; std::free(p); } }
    xercesc::MemoryManager* getExceptionMemoryManager() override { return this; }
};

static CountingManager g_mm;      // vectors, maps, sets, deques
static CountingManager g_mmList;  // lists only: its live count is an observable of the list model


// ------------------------------------------------------------------------------------ element type
// Built twice: with plain int elements, and (-DC20_ELEM) with a class that has user-provided copy
// construction / assignment / destruction, counts its live instances and poisons itself when destroyed.
// With it a double destroy, an assignment into a raw (never constructed or already destroyed) cell, a read
// of a destroyed element and the smear of an overlapping element-wise copy in the wrong direction become
// observable; libstdc++ turns std::copy/copy_backward over trivially copyable types into memmove, which hides
// the direction.
#if defined(C20_ELEM)
struct Elem
{
    enum { ALIVE = 0x5a17c0de, DEAD = 0x0dead0ad };
    static long live;
    static long bad;
    static long cc, as, dt, nd;   // calls of the copy constructor, copy assignment, destructor, other constructors
    int v;
    unsigned magic;
    Elem(int x = 0) : v(x), magic(ALIVE) { ++live; ++nd; }
    Elem(const Elem& o) : v(o.val()), magic(ALIVE) { ++live; ++cc; }
    Elem& operator=(const Elem& o) { if (magic != unsigned(ALIVE)) ++bad; v = o.val(); ++as; return *this; }
    ~Elem() { if (magic != unsigned(ALIVE)) ++bad; magic = DEAD; v = -777; --live; ++dt; }
    int val() const { if (magic != unsigned(ALIVE)) ++bad; return v; }
    operator int() const { return val(); }
};
long Elem::live = 0;
long Elem::bad = 0;
long Elem::cc = 0;
long Elem::as = 0;
long Elem::dt = 0;
long Elem::nd = 0;
typedef Elem VALT;
// X(stmt): run one call into the container and add the element-class calls it made to g_acc (arguments are
// built before, so that only what the container itself constructs / assigns / destroys is counted)
static long g_acc[4] = {0, 0, 0, 0};
#define X(stmt) do { const long c0 = Elem::cc, a0 = Elem::as, d0 = Elem::dt, n0 = Elem::nd; stmt; \
    g_acc[0] += Elem::cc - c0; g_acc[1] += Elem::as - a0; g_acc[2] += Elem::dt - d0; g_acc[3] += Elem::nd - n0; } while (0)
#else
typedef int VALT;
#define X(stmt) do { stmt; } while (0)
#endif

// ------------------------------------------------------------------------------------ vector
typedef XalanVector<VALT> XVec;

struct VecPair
{
    XVec x;
    std::vector<int> s;
    VecPair() : x(g_mm) {}
};

static std::string show(VecPair& p, bool& bad)
{
    std::ostringstream o;
    o << p.x.size() << " " << p.x.capacity() << " :";
    bool same = p.x.size() == p.s.size();
    for (size_t i = 0; i < p.x.size(); ++i)
    {
        o << " " << p.x[i];
        if (same && p.x[i] != p.s[i]) same = false;
    }
    if (!same) { o << " !std"; bad = true; }
    return o.str();
}

// a returned vector iterator as an offset from the current begin(), by address comparison only (nothing is read
// through it): an address outside [begin, end] of the current buffer is reported as dangling
static std::string retOff(XVec& x, XVec::iterator it, long stdOff, bool& bad)
{
    const uintptr_t b = reinterpret_cast<uintptr_t>(x.begin()), e = reinterpret_cast<uintptr_t>(x.end());
    const uintptr_t p = reinterpret_cast<uintptr_t>(it);
    std::ostringstream o;
    if (p < b || p > e || (p - b) % sizeof(VALT) != 0) { o << "ret=dangling "; bad = true; }
    else { const long off = long((p - b) / sizeof(VALT)); o << "ret=" << off << " "; if (off != stdOff) bad = true; }
    return o.str();
}

// ------------------------------------------------------------------------------------ map / set
struct CKey
{
    int v;
    CKey(int x = 0) : v(x) {}
    bool operator==(const CKey& o) const { return v == o.v; }
};

struct CKeyHasher
{
    size_t operator()(const CKey& k) const { return size_t(k.v) / 2; }   // collides pairwise, see Driver.C20.khash
};

namespace XALAN_CPP_NAMESPACE
{
template <>
struct XalanMapKeyTraits<CKey>
{
    typedef CKeyHasher              Hasher;
    typedef std::equal_to<CKey>     Comparator;
};
}

typedef XalanMap<CKey, VALT> XMapBase;

struct XM : public XMapBase   // derived only to read the protected members
{
    XM(MemoryManager& mm, double lf, size_t minb, size_t thr) : XMapBase(mm, lf, minb, thr) {}
    XM(MemoryManager& mm) : XMapBase(mm) {}
    XM(const XM& o, MemoryManager& mm) : XMapBase(o, mm) {}
    size_t nb() const { return m_buckets.size(); }
    size_t nfree() const { return m_freeEntries.size(); }
    size_t bcapSum() { size_t n = 0; for (TableIterator b = m_buckets.begin(); b != m_buckets.end(); ++b) n += b->capacity(); return n; }
    void ptrs(size_t& total, size_t& stale)
    {
        total = stale = 0;
        for (TableIterator b = m_buckets.begin(); b != m_buckets.end(); ++b)
            for (BucketIterator j = b->begin(); j != b->end(); ++j)
            {
                ++total;
                if ((*j)->erased) ++stale;
            }
    }
};

struct MapPair
{
    std::unique_ptr<XM> x;
    std::vector<std::pair<int, int> > s;   // insertion-ordered association list
    std::map<int, int> m;                   // and std::map for membership/values
    MapPair() : x(new XM(g_mm)) {}
    int* sfind(int k) { for (auto& p : s) if (p.first == k) return &p.second; return 0; }
};

static std::string show(MapPair& p, const std::string& pre, bool& bad)
{
    std::ostringstream o;
    size_t total, stale;
    p.x->ptrs(total, stale);
    o << pre << p.x->size() << " nb=" << p.x->nb() << " ptr=" << total << " stale=" << stale << " free=" << p.x->nfree() << " bc=" << p.x->bcapSum() << " :";
    bool same = p.x->size() == p.s.size() && p.s.size() == p.m.size() && p.x->empty() == p.s.empty();
    size_t i = 0;
    for (XM::iterator it = p.x->begin(); it != p.x->end(); ++it, ++i)
    {
        o << " " << (*it).first.v << "=" << (*it).second;
        if (same && (i >= p.s.size() || p.s[i].first != (*it).first.v || p.s[i].second != (*it).second)) same = false;
        if (same) { auto f = p.m.find((*it).first.v); if (f == p.m.end() || f->second != (*it).second) same = false; }
    }
    if (i != p.s.size()) same = false;
    // every key of the reference must be found, with its value, through find()
    if (same)
        for (auto& kv : p.s)
        {
            XM::iterator f = p.x->find(CKey(kv.first));
            if (f == p.x->end() || (*f).second != kv.second) { same = false; break; }
        }
    if (!same) { o << " !std"; bad = true; }
    return o.str();
}

struct SetPair
{
    std::unique_ptr<XalanSet<CKey> > x;
    std::vector<int> s;
    std::set<int> m;
    SetPair() : x(new XalanSet<CKey>(g_mm)) {}
};

static std::string show(SetPair& p, const std::string& pre, bool& bad)
{
    std::ostringstream o;
    o << pre << p.x->size() << " :";
    bool same = p.x->size() == p.s.size() && p.s.size() == p.m.size();
    size_t i = 0;
    for (XalanSet<CKey>::const_iterator it = p.x->begin(); it != p.x->end(); ++it, ++i)
    {
        o << " " << (*it).v;
        if (same && (i >= p.s.size() || p.s[i] != (*it).v || !p.m.count((*it).v))) same = false;
    }
    if (i != p.s.size()) same = false;
    if (same)
        for (int k : p.s)
            if (p.x->count(CKey(k)) != 1) { same = false; break; }
    if (!same) { o << " !std"; bad = true; }
    return o.str();
}

// ------------------------------------------------------------------------------------ deque
typedef XalanDeque<VALT> XDeq;

struct DeqPair
{
    std::unique_ptr<XDeq> x;
    std::deque<int> s;
    DeqPair() : x(new XDeq(g_mm, 0, 10)) {}
};

static std::string show(DeqPair& p, bool& bad)
{
    std::ostringstream o;
    const size_t sz = p.x->size();
    o << sz << " e=" << (p.x->empty() ? 1 : 0) << " b=";
    bool same = sz == p.s.size() && p.x->empty() == p.s.empty();
    if (!same)
    {
        // do not walk a deque whose size is already wrong (operator[] would leave its blocks)
        o << "? : !std";
        bad = true;
        return o.str();
    }
    if (!p.x->empty()) { o << p.x->back(); if (same && p.x->back() != p.s.back()) same = false; } else o << "-";
    o << " :";
    for (size_t i = 0; i < sz; ++i)
    {
        o << " " << (*p.x)[i];
        if (same && (*p.x)[i] != p.s[i]) same = false;
    }
    // iterators deliver the same sequence
    if (same)
    {
        size_t i = 0;
        const XDeq& c = *p.x;
        for (XDeq::const_iterator it = c.begin(); it != c.end(); ++it, ++i)
            if (i >= p.s.size() || *it != p.s[i]) { same = false; break; }
        if (i != p.s.size()) same = false;
    }
    if (!same) { o << " !std"; bad = true; }
    return o.str();
}

// ------------------------------------------------------------------------------------ list
typedef XalanList<VALT> XLst;

struct LstPair
{
    std::unique_ptr<XLst> x;
    std::list<int> s;
    LstPair() : x(new XLst(g_mmList)) {}
};

struct Slot
{
    std::unique_ptr<XLst::iterator> x;
    std::list<int>::iterator s;
};

static std::string show(LstPair& p, const std::string& pre, bool& bad)
{
    std::ostringstream o;
    std::ostringstream fwd, bwd;
    bool same = true;
    size_t n = 0;
    {
        std::list<int>::iterator si = p.s.begin();
        for (XLst::iterator it = p.x->begin(); it != p.x->end(); ++it, ++n)
        {
            fwd << " " << *it;
            if (same && (si == p.s.end() || *si != *it)) same = false;
            if (si != p.s.end()) ++si;
        }
        if (n != p.s.size()) same = false;
        XLst::iterator it = p.x->end();
        while (it != p.x->begin()) { --it; bwd << " " << *it; }
    }
    if (p.x->size() != n || p.x->empty() != (n == 0)) same = false;
    o << pre << n << " blocks=" << g_mmList.live << " f=";
    if (n) { o << p.x->front(); if (p.x->front() != p.s.front()) same = false; } else o << "-";
    o << " b=";
    if (n) { o << p.x->back(); if (p.x->back() != p.s.back()) same = false; } else o << "-";
    o << " :" << fwd.str() << " |" << bwd.str();
    if (!same) { o << " !std"; bad = true; }
    return o.str();
}

// ------------------------------------------------------------------------------------ object cache
struct CObj
{
    static long created;
    static long alive;
    long id;
    std::vector<int> data;
    CObj() : id(created++) { ++alive; }
    ~CObj() { --alive; }
    void clear() { data.clear(); }
};
long CObj::created = 0;
long CObj::alive = 0;

typedef XalanObjectCache<CObj, DefaultCacheCreateFunctor<CObj>, DeleteFunctor<CObj>, ClearCacheResetFunctor<CObj> > XCache;

struct CachePair
{
    std::unique_ptr<XCache> x;
    CObj* slot[4];
    std::set<long> held;     // reference: ids currently handed out
    CachePair() : x(new XCache(g_mm)) { for (int i = 0; i < 4; ++i) slot[i] = 0; CObj::created = 0; }
    // objects still held are given back first: without the busy list the cache does not own what it handed out
    ~CachePair() { for (int i = 0; i < 4; ++i) if (slot[i] != 0) x->release(slot[i]); }
};

// a returned list iterator as its distance from begin(): found by comparing node addresses while walking the list
static std::string lstRet(XLst& x, XLst::iterator r, long stdIdx, bool& bad)
{
    long idx = 0;
    for (XLst::iterator it = x.begin(); it != x.end(); ++it, ++idx)
        if (it == r)
        {
            std::ostringstream o; o << "ret=" << idx << " ";
            if (idx != stdIdx) bad = true;
            return o.str();
        }
    bad = true;
    return "ret=dangling ";
}

template <class It> static It adv(It it, long n) { while (n-- > 0) ++it; return it; }

// ------------------------------------------------------------------------------------ main
struct World
{
    std::vector<VecPair*> vs;
    std::vector<MapPair*> ms;
    std::vector<SetPair*> ss;
    std::vector<DeqPair*> ds;
    std::vector<LstPair*> ls;
    std::vector<Slot> slots;
    std::unique_ptr<CachePair> oc;
    World()
    {
        for (int i = 0; i < 4; ++i) vs.push_back(new VecPair);
        for (int i = 0; i < 4; ++i) ms.push_back(new MapPair);
        for (int i = 0; i < 2; ++i) ss.push_back(new SetPair);
        for (int i = 0; i < 4; ++i) ds.push_back(new DeqPair);
        for (int i = 0; i < 3; ++i) ls.push_back(new LstPair);
        slots.resize(4);
        oc.reset(new CachePair);
    }
    ~World()
    {
        slots.clear();
        oc.reset();
        for (auto* p : vs) delete p;
        for (auto* p : ms) delete p;
        for (auto* p : ss) delete p;
        for (auto* p : ds) delete p;
        for (auto* p : ls) delete p;
    }
};

static long total(World& w)
{
    long n = 0;
    for (auto* p : w.vs) n += long(p->x.size());
    for (auto* p : w.ms) n += long(p->x->size());
    for (auto* p : w.ds) n += long(p->x->size());
    for (auto* p : w.ls) n += long(p->x->size());
    return n;
}

int main()
{
    std::unique_ptr<World> w(new World);
    bool poisoned = false;
    long leaked = 0;
    std::string line;
    while (std::getline(std::cin, line))
    {
        std::istringstream in(line);
        std::string sub, op;
        in >> sub >> op;
        if (sub == "reset")
        {
            w.reset();
            leaked += CObj::alive; CObj::alive = 0;
            leaked += g_mm.live + g_mmList.live;   // every block must be back once the containers are destroyed
            g_mm.live = 0; g_mmList.live = 0;
#if defined(C20_ELEM)
            leaked += Elem::live; Elem::live = 0; Elem::bad = 0;
#endif
            w.reset(new World);
            poisoned = false;
            std::cout << "ok\n";
            continue;
        }
        if (sub == "arith")
        {
            // the two floating-point size computations of the containers against the integer formulas of the models
            size_t nmax = size_t(std::strtoul(op.c_str(), 0, 10)), badAt = 0;
            for (size_t n = 1; n <= nmax && badAt == 0; ++n)
            {
                if (size_t(1.6 * n) != 8 * n / 5) badAt = n;                      // XalanMap::rehash
                if (size_t((n * 1.6) + 0.5) != (16 * n + 5) / 10) badAt = n;      // XalanVector::grow
                if (size_t(0.75 * n) != 3 * n / 4) badAt = n;                     // load factor 0.75
            }
            if (badAt) std::cout << "arith differs at " << badAt << " !std\n"; else std::cout << "ok\n";
            continue;
        }
        if (poisoned) { std::cout << "skip\n"; continue; }
#if defined(C20_ELEM)
        g_acc[0] = g_acc[1] = g_acc[2] = g_acc[3] = 0;
#endif
        long a[6] = {0, 0, 0, 0, 0, 0};
        int n = 0;
        while (n < 6 && (in >> a[n])) ++n;
        bool bad = false;
        std::string out;
        std::string retpre;     // a returned iterator, as an offset from the current begin()
        if (sub == "vec")
        {
            size_t id = size_t(a[0]);
            if (id >= w->vs.size()) { std::cout << "bad\n"; continue; }
            VecPair& p = *w->vs[id];
            if (op == "new") { X(delete w->vs[id]); w->vs[id] = new VecPair; out = show(*w->vs[id], bad); }
            else if (op == "newcap")
            {
                X(delete w->vs[id]);
                w->vs[id] = new VecPair;
                XVec t(g_mm, size_t(a[1]));
                w->vs[id]->x.swap(t);
                out = show(*w->vs[id], bad);
            }
            else
            {
                if (op == "push") { const VALT val = VALT(int(a[1])); X(p.x.push_back(val)); p.s.push_back(int(a[1])); }
                else if (op == "pop") { X(p.x.pop_back()); p.s.pop_back(); }
                else if (op == "ins1")
                {
                    const VALT val = VALT(int(a[2]));
                    XVec::iterator r = 0;
                    X(r = p.x.insert(p.x.begin() + a[1], val));
                    std::vector<int>::iterator sr = p.s.insert(p.s.begin() + a[1], int(a[2]));
                    retpre = retOff(p.x, r, long(sr - p.s.begin()), bad);
                }
                else if (op == "insn") { const VALT val = VALT(int(a[3])); X(p.x.insert(p.x.begin() + a[1], size_t(a[2]), val)); p.s.insert(p.s.begin() + a[1], size_t(a[2]), int(a[3])); }
                else if (op == "insr")
                {
                    VecPair& q = *w->vs[size_t(a[2])];
                    X(p.x.insert(p.x.begin() + a[1], q.x.begin() + a[3], q.x.begin() + a[4]));
                    p.s.insert(p.s.begin() + a[1], q.s.begin() + a[3], q.s.begin() + a[4]);
                }
                else if (op == "erase")
                {
                    XVec::iterator r = 0;
                    X(r = p.x.erase(p.x.begin() + a[1], p.x.begin() + a[2]));
                    std::vector<int>::iterator sr = p.s.erase(p.s.begin() + a[1], p.s.begin() + a[2]);
                    retpre = retOff(p.x, r, long(sr - p.s.begin()), bad);
                }
                else if (op == "erase1")
                {
                    XVec::iterator r = 0;
                    X(r = p.x.erase(p.x.begin() + a[1]));
                    std::vector<int>::iterator sr = p.s.erase(p.s.begin() + a[1]);
                    retpre = retOff(p.x, r, long(sr - p.s.begin()), bad);
                }
                else if (op == "resize") { const VALT val = VALT(int(a[2])); X(p.x.resize(size_t(a[1]), val)); p.s.resize(size_t(a[1]), int(a[2])); }
                else if (op == "reserve") { X(p.x.reserve(size_t(a[1]))); p.s.reserve(size_t(a[1])); }
                else if (op == "clear") { X(p.x.clear()); p.s.clear(); }
                else if (op == "assign")
                {
                    VecPair& q = *w->vs[size_t(a[1])];
                    X(p.x.assign(q.x.begin() + a[2], q.x.begin() + a[3]));
                    p.s.assign(q.s.begin() + a[2], q.s.begin() + a[3]);
                }
                else if (op == "copy") { VecPair& q = *w->vs[size_t(a[1])]; X(p.x = q.x); p.s = q.s; }
                else if (op == "swap") { VecPair& q = *w->vs[size_t(a[1])]; X(p.x.swap(q.x)); p.s.swap(q.s); }
                // aliasing forms: the value argument refers to an element of the same vector
                else if (op == "insself") { p.s.insert(p.s.begin() + a[1], size_t(a[2]), p.s[size_t(a[3])]); X(p.x.insert(p.x.begin() + a[1], size_t(a[2]), p.x[size_t(a[3])])); }
                else if (op == "resizeself") { int v = p.s[size_t(a[2])]; p.s.resize(size_t(a[1]), v); X(p.x.resize(size_t(a[1]), p.x[size_t(a[2])])); }
                else if (op == "pushself") { p.s.push_back(p.s[size_t(a[1])]); X(p.x.push_back(p.x[size_t(a[1])])); }
                else { std::cout << "bad\n"; continue; }
                { bool b2 = false; out = retpre + show(p, b2); if (bad && !b2) out += " !std"; bad = bad || b2; }
            }
        }
        else if (sub == "map")
        {
            size_t id = size_t(a[0]);
            if (id >= w->ms.size()) { std::cout << "bad\n"; continue; }
            MapPair& p = *w->ms[id];
            std::string pre;
            if (op == "new")
            {
                X(p.x.reset(new XM(g_mm, double(a[1]) / double(a[2]), size_t(a[3]), size_t(a[4]))));
                p.s.clear(); p.m.clear();
            }
            else if (op == "ins")
            {
                { const VALT val = VALT(int(a[2])); X(p.x->insert(CKey(int(a[1])), val)); }
                if (!p.sfind(int(a[1]))) p.s.push_back(std::make_pair(int(a[1]), int(a[2])));
                p.m.insert(std::make_pair(int(a[1]), int(a[2])));
            }
            else if (op == "set")
            {
                { const VALT val = VALT(int(a[2])); X((*p.x)[CKey(int(a[1]))] = val); }
                if (int* v = p.sfind(int(a[1]))) *v = int(a[2]); else p.s.push_back(std::make_pair(int(a[1]), int(a[2])));
                p.m[int(a[1])] = int(a[2]);
            }
            else if (op == "find")
            {
                const XM& c = *p.x;
                XM::const_iterator f = c.find(CKey(int(a[1])));
                std::map<int, int>::iterator sf = p.m.find(int(a[1]));
                std::ostringstream o;
                if (f == c.end()) { o << "r=nf "; if (sf != p.m.end()) bad = true; }
                else { o << "r=" << (*f).second << " "; if (sf == p.m.end() || sf->second != (*f).second || (*f).first.v != int(a[1])) bad = true; }
                pre = o.str();
            }
            else if (op == "erase")
            {
                size_t r = 0;
                X(r = p.x->erase(CKey(int(a[1]))));
                size_t sr = p.m.erase(int(a[1]));
                for (size_t i = 0; i < p.s.size(); ++i) if (p.s[i].first == int(a[1])) { p.s.erase(p.s.begin() + i); break; }
                std::ostringstream o; o << "r=" << r << " "; pre = o.str();
                if (r != sr) bad = true;
            }
            else if (op == "clear") { X(p.x->clear()); p.s.clear(); p.m.clear(); }
            else if (op == "copy")
            {
                MapPair& q = *w->ms[size_t(a[1])];
                X(static_cast<XMapBase&>(*p.x) = static_cast<const XMapBase&>(*q.x));
                if (&p != &q) { p.s = q.s; p.m = q.m; }
            }
            else if (op == "copyctor")
            {
                MapPair& q = *w->ms[size_t(a[1])];
                X({ std::unique_ptr<XM> t(new XM(*q.x, g_mm)); p.x.swap(t); });
                if (&p != &q) { p.s = q.s; p.m = q.m; }
            }
            else if (op == "swap")
            {
                MapPair& q = *w->ms[size_t(a[1])];
                if (&p != &q) { p.x->swap(*q.x); p.s.swap(q.s); p.m.swap(q.m); }
                show(q, std::string(), bad);
            }
            else { std::cout << "bad\n"; continue; }
            bool b2 = false;
            out = show(p, pre, b2);
            if (bad && !b2) out += " !std";
            bad = bad || b2;
        }
        else if (sub == "set")
        {
            size_t id = size_t(a[0]);
            if (id >= w->ss.size()) { std::cout << "bad\n"; continue; }
            SetPair& p = *w->ss[id];
            std::string pre;
            if (op == "new") { p.x.reset(new XalanSet<CKey>(g_mm)); p.s.clear(); p.m.clear(); }
            else if (op == "ins")
            {
                p.x->insert(CKey(int(a[1])));
                if (p.m.insert(int(a[1])).second) p.s.push_back(int(a[1]));
            }
            else if (op == "count")
            {
                size_t r = p.x->count(CKey(int(a[1])));
                std::ostringstream o; o << "r=" << r << " "; pre = o.str();
                if (r != p.m.count(int(a[1]))) bad = true;
            }
            else if (op == "erase")
            {
                size_t r = p.x->erase(CKey(int(a[1])));
                size_t sr = p.m.erase(int(a[1]));
                p.s.erase(std::remove(p.s.begin(), p.s.end(), int(a[1])), p.s.end());
                std::ostringstream o; o << "r=" << r << " "; pre = o.str();
                if (r != sr) bad = true;
            }
            else if (op == "clear") { p.x->clear(); p.s.clear(); p.m.clear(); }
            else if (op == "copyctor")
            {
                SetPair& q = *w->ss[size_t(a[1])];
                std::unique_ptr<XalanSet<CKey> > t(new XalanSet<CKey>(*q.x, g_mm));
                p.x.swap(t);
                if (&p != &q) { p.s = q.s; p.m = q.m; }
            }
            else { std::cout << "bad\n"; continue; }
            bool b2 = false;
            out = show(p, pre, b2);
            if (bad && !b2) out += " !std";
            bad = bad || b2;
        }
        else if (sub == "deq")
        {
            size_t id = size_t(a[0]);
            if (id >= w->ds.size()) { std::cout << "bad\n"; continue; }
            DeqPair& p = *w->ds[id];
            if (op == "new")
            {
                X(p.x.reset(new XDeq(g_mm, size_t(a[2]), size_t(a[1]))));
                p.s.assign(size_t(a[2]), 0);
            }
            else if (op == "push") { const VALT val = VALT(int(a[1])); X(p.x->push_back(val)); p.s.push_back(int(a[1])); }
            else if (op == "pop") { X(p.x->pop_back()); p.s.pop_back(); }
            else if (op == "resize") { X(p.x->resize(size_t(a[1]))); p.s.resize(size_t(a[1])); }
            else if (op == "clear") { X(p.x->clear()); p.s.clear(); }
            else if (op == "copy") { DeqPair& q = *w->ds[size_t(a[1])]; X(*p.x = *q.x); if (&p != &q) p.s = q.s; }
            else if (op == "copyctor")
            {
                DeqPair& q = *w->ds[size_t(a[1])];
                X({ std::unique_ptr<XDeq> t(new XDeq(*q.x, g_mm)); p.x.swap(t); });
                if (&p != &q) p.s = q.s;
            }
            else if (op == "swap")
            {
                DeqPair& q = *w->ds[size_t(a[1])];
                if (&p != &q) { X(p.x->swap(*q.x)); p.s.swap(q.s); }
                show(q, bad);   // the other side is part of the observable result of swap
            }
            else { std::cout << "bad\n"; continue; }
            out = show(p, bad);
        }
        else if (sub == "lst")
        {
            std::string pre;
            size_t id = size_t(a[0]);
            if (op == "save" || op == "deref") id = size_t(a[1]);
            if (id >= w->ls.size()) { std::cout << "bad\n"; continue; }
            LstPair& p = *w->ls[id];
            if (op == "new") { X(p.x.reset(new XLst(g_mmList))); p.s.clear(); }
            else if (op == "pushb") { const VALT val = VALT(int(a[1])); X(p.x->push_back(val)); p.s.push_back(int(a[1])); }
            else if (op == "pushf") { const VALT val = VALT(int(a[1])); X(p.x->push_front(val)); p.s.push_front(int(a[1])); }
            else if (op == "popb") { X(p.x->pop_back()); p.s.pop_back(); }
            else if (op == "popf") { X(p.x->pop_front()); p.s.pop_front(); }
            else if (op == "insat")
            {
                const VALT val = VALT(int(a[2]));
                XLst::iterator r = p.x->end();
                X(r = p.x->insert(adv(p.x->begin(), a[1]), val));
                std::list<int>::iterator sr = p.s.insert(adv(p.s.begin(), a[1]), int(a[2]));
                retpre = lstRet(*p.x, r, long(std::distance(p.s.begin(), sr)), bad);
            }
            else if (op == "eraseat") { X(p.x->erase(adv(p.x->begin(), a[1]))); p.s.erase(adv(p.s.begin(), a[1])); }
            else if (op == "save")
            {
                Slot& sl = w->slots[size_t(a[0])];
                sl.x.reset(new XLst::iterator(adv(p.x->begin(), a[2])));
                sl.s = adv(p.s.begin(), a[2]);
                std::ostringstream o; o << "r=" << **sl.x << " "; pre = o.str();
                if (**sl.x != *sl.s) bad = true;
            }
            else if (op == "deref")
            {
                Slot& sl = w->slots[size_t(a[0])];
                std::ostringstream o; o << "r=" << **sl.x << " "; pre = o.str();
                if (**sl.x != *sl.s) bad = true;
            }
            else if (op == "insit")
            {
                Slot& sl = w->slots[size_t(a[1])];
                const VALT val = VALT(int(a[2]));
                XLst::iterator r = p.x->end();
                X(r = p.x->insert(*sl.x, val));
                std::list<int>::iterator sr = p.s.insert(sl.s, int(a[2]));
                retpre = lstRet(*p.x, r, long(std::distance(p.s.begin(), sr)), bad);
            }
            else if (op == "eraseit") { Slot& sl = w->slots[size_t(a[1])]; X(p.x->erase(*sl.x)); p.s.erase(sl.s); sl.x.reset(); }
            else if (op == "splice")
            {
                LstPair& q = *w->ls[size_t(a[2])];
                X(p.x->splice(adv(p.x->begin(), a[1]), *q.x, adv(q.x->begin(), a[3])));
                p.s.splice(adv(p.s.begin(), a[1]), q.s, adv(q.s.begin(), a[3]));
            }
            else if (op == "splicer")
            {
                LstPair& q = *w->ls[size_t(a[2])];
                X(p.x->splice(adv(p.x->begin(), a[1]), *q.x, adv(q.x->begin(), a[3]), adv(q.x->begin(), a[4])));
                p.s.splice(adv(p.s.begin(), a[1]), q.s, adv(q.s.begin(), a[3]), adv(q.s.begin(), a[4]));
            }
            else if (op == "clear") { X(p.x->clear()); p.s.clear(); }
            else if (op == "swap") { LstPair& q = *w->ls[size_t(a[1])]; p.x->swap(*q.x); p.s.swap(q.s); show(q, std::string(), bad); }
            else if (op == "show") {}
            else { std::cout << "bad\n"; continue; }
            bool b2 = false;
            out = retpre + show(p, pre, b2);
            if (bad && !b2) out += " !std";
            bad = bad || b2;
        }
        else if (sub == "oc")
        {
            CachePair& c = *w->oc;
            std::ostringstream o;
            const size_t sl = size_t(a[0]);
            if (op == "new") { w->oc.reset(); w->oc.reset(new CachePair); o << "created=0"; }
            else if (op == "get" && sl < 4)
            {
                CObj* const p = c.x->get();
                c.slot[sl] = p;
                // the property: an object handed out is held by nobody else, and comes back reset
                if (c.held.count(p->id) != 0 || !p->data.empty()) bad = true;
                c.held.insert(p->id);
                o << "r=" << p->id << " n=" << p->data.size() << " created=" << CObj::created;
            }
            else if (op == "put" && sl < 4 && c.slot[sl] != 0)
            {
                c.slot[sl]->data.push_back(int(a[1]));
                o << "r=" << c.slot[sl]->id << " n=" << c.slot[sl]->data.size() << " created=" << CObj::created;
            }
            else if (op == "release" && sl < 4 && c.slot[sl] != 0)
            {
                c.held.erase(c.slot[sl]->id);
                if (!c.x->release(c.slot[sl])) bad = true;
                c.slot[sl] = 0;
                o << "created=" << CObj::created;
            }
            else { std::cout << "bad\n"; continue; }
            if (CObj::alive != CObj::created) bad = true;   // nothing is deleted before the cache is destroyed
            out = o.str();
            if (bad) out += " !std";
            if (bad) poisoned = true;
            std::cout << out << "\n";
            continue;
        }
        else { std::cout << "bad\n"; continue; }
        if (sub != "set")
        {
            // L = number of element objects alive: must be the number of elements held (each cell constructed
            // exactly once before use and destroyed exactly once)
            const long expected = total(*w);
#if defined(C20_ELEM)
            const long liveNow = Elem::live;
            const bool elemBad = liveNow != expected || Elem::bad != 0;
#else
            const long liveNow = expected;
            const bool elemBad = false;
#endif
            std::ostringstream lp;
            lp << " L=" << liveNow;
#if defined(C20_ELEM)
            // what the container itself did to element objects during this request
            lp << " C=" << g_acc[0] << " A=" << g_acc[1] << " D=" << g_acc[2] << " N=" << g_acc[3];
#endif
#if defined(C20_ELEM)
            if (elemBad) lp << " elem(expected=" << expected << ",misuse=" << Elem::bad << ")";
#endif
            const std::string mark = " !std";
            const bool marked = out.size() >= mark.size() && out.compare(out.size() - mark.size(), mark.size(), mark) == 0;
            if (marked) out.insert(out.size() - mark.size(), lp.str()); else out += lp.str();
            if (elemBad && !marked) out += mark;
            if (elemBad) bad = true;
        }
        if (bad) poisoned = true;
        std::cout << out << "\n";
    }
    w.reset();
    leaked += g_mm.live + g_mmList.live;
    std::cout << "live " << leaked << "\n";
    return 0;
}
