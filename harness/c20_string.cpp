// C20 correspondence harness for XalanDOMString (XalanDOM/XalanDOMString.cpp is compiled into
// libxalan-c, so this one links the fresh build of the working tree).  Same protocol as
// c20_containers.cpp: `str <op> <id> <args…>`, reply "<size> <capacity> t=<c_str()[size]> : <chars…>"
// (+ " !std" when the observable state differs from std::u16string given the same operation).
// Built with -DNDEBUG like the library (the inline `invariants()` of the header would otherwise
// abort on the states the known defects produce, instead of letting them be observed).
#include <xalanc/Include/PlatformDefinitions.hpp>
#include <xalanc/XalanDOM/XalanDOMString.hpp>
#include <xalanc/PlatformSupport/XalanBitmap.hpp>
#include <xalanc/PlatformSupport/XalanDOMStringPool.hpp>
#include <xalanc/PlatformSupport/DOMStringHelper.hpp>
#include <xalanc/PlatformSupport/XalanDOMStringCache.hpp>
#include <map>
#include <xalanc/XalanTransformer/XalanTransformer.hpp>
#include <xercesc/util/PlatformUtils.hpp>
#include <xercesc/framework/MemoryManager.hpp>

#include <cstdlib>
#include <cstdint>
#include <iostream>
#include <memory>
#include <sstream>
#include <string>
#include <vector>

using namespace xalanc;

class CountingManager : public xercesc::MemoryManager
{
public:
    long live = 0;
    void* allocate(XMLSize_t n) override { ++live; void* p = std::malloc(n ? n : 1); if (!p) throw std::bad_alloc(); return p; }
    void deallocate(void* p) override { if (p) { --live; std::free(p); } }
    xercesc::MemoryManager* getExceptionMemoryManager() override { return this; }
};

static CountingManager g_mm;

struct StrPair
{
    std::unique_ptr<XalanDOMString> x;
    std::u16string s;
    StrPair() : x(new XalanDOMString(g_mm)) {}
};

static std::string show(StrPair& p, bool& bad)
{
    std::ostringstream o;
    const XalanDOMString& c = *p.x;
    const size_t sz = c.size();
    if (sz > (size_t(1) << 24))
    {
        o << sz << " huge !std";
        bad = true;
        return o.str();
    }
    bool same = sz == p.s.size() && c.length() == sz && c.empty() == p.s.empty();
    const XalanDOMChar* d = c.c_str();
    o << sz << " " << c.capacity() << " t=" << unsigned(d[sz]) << " :";
    if (d[sz] != 0) same = false;
    if (c.capacity() < sz) same = false;
    for (size_t i = 0; i < sz; ++i)
    {
        o << " " << unsigned(d[i]);
        if (same && (d[i] != p.s[i] || (sz != 0 && c[i] != p.s[i]))) same = false;
    }
    // iterators
    if (same)
    {
        size_t i = 0;
        for (XalanDOMString::const_iterator it = c.begin(); it != c.end(); ++it, ++i)
            if (i >= p.s.size() || *it != p.s[i]) { same = false; break; }
        if (i != p.s.size()) same = false;
    }
    if (!same) { o << " !std"; bad = true; }
    return o.str();
}

struct BmpPair
{
    std::unique_ptr<XalanBitmap> x;
    std::vector<bool> s;
    BmpPair() : x(new XalanBitmap(g_mm, 0)) {}
};

static std::string show(BmpPair& p, bool& bad)
{
    std::ostringstream o;
    const XalanBitmap& c = *p.x;
    o << c.getSize() << " :";
    bool same = c.getSize() == p.s.size();
    for (size_t i = 0; i < c.getSize(); ++i)
    {
        const bool b = c.isSet(i);
        o << (b ? " 1" : " 0");
        if (same && b != p.s[i]) same = false;
    }
    if (!same) { o << " !std"; bad = true; }
    return o.str();
}

struct PoolPair
{
    std::unique_ptr<XalanDOMStringPool> x;
    std::map<const XalanDOMString*, size_t> ids;   // pooled object -> order of first appearance since the last clear
    std::vector<std::u16string> s;                  // reference: the distinct non-empty strings, in order
    PoolPair(size_t bc = XalanDOMStringPool::eDefaultBucketCount) :
        x(new XalanDOMStringPool(g_mm, XalanDOMStringPool::eDefaultBlockSize, bc)) {}
};

static std::string show(PoolPair& p, const std::string& pre, bool& bad)
{
    std::ostringstream o;
    o << pre << "size=" << p.x->size() << " :";
    if (p.x->size() != p.s.size()) bad = true;
    XalanDOMStringHashTable::BucketCountsType counts(g_mm);
    p.x->getHashTable().getBucketCounts(counts);
    size_t total = 0;
    for (size_t i = 0; i < counts.size(); ++i)
    {
        total += counts[i];
        if (counts[i] != 0) o << " " << i << "=" << counts[i];
    }
    if (total != p.s.size() || p.x->getHashTable().size() != p.s.size()) bad = true;
    if (bad) o << " !std";
    return o.str();
}

struct CachePair
{
    std::unique_ptr<XalanDOMStringCache> x;
    XalanDOMString* slot[8];
    size_t tag;
    explicit CachePair(size_t maxSize = XalanDOMStringCache::eDefaultMaximumSize) :
        x(new XalanDOMStringCache(g_mm, XalanSize_t(maxSize))), tag(0) { for (int i = 0; i < 8; ++i) slot[i] = 0; }
};

// a returned iterator as an offset from the string's current begin(), by address comparison only
static std::string retOff(const XalanDOMString& x, XalanDOMString::const_iterator it, long stdOff, bool& bad)
{
    const uintptr_t b = reinterpret_cast<uintptr_t>(&*x.begin()) , p = reinterpret_cast<uintptr_t>(&*it);
    const uintptr_t e = b + (x.length() + 1) * sizeof(XalanDOMChar);
    std::ostringstream o;
    if (p < b || p > e || (p - b) % sizeof(XalanDOMChar) != 0) { o << "ret=dangling "; bad = true; }
    else { const long off = long((p - b) / sizeof(XalanDOMChar)); o << "ret=" << off << " "; if (off != stdOff) bad = true; }
    return o.str();
}

static bool units(const std::string& t, std::vector<XalanDOMChar>& out)
{
    out.clear();
    if (t == "-") return true;
    std::istringstream in(t);
    std::string part;
    while (std::getline(in, part, '.'))
    {
        if (part.empty()) return false;
        out.push_back(XalanDOMChar(std::strtoul(part.c_str(), 0, 10)));
    }
    return true;
}

static bool num(const std::string& t, size_t& v)
{
    if (t == "npos") { v = XalanDOMString::npos; return true; }
    if (t.empty()) return false;
    char* e = 0;
    v = std::strtoul(t.c_str(), &e, 10);
    return *e == 0;
}

int main()
{
    xercesc::XMLPlatformUtils::Initialize();
    XalanTransformer::initialize();
    {
        std::vector<StrPair*> ss;
        for (int i = 0; i < 4; ++i) ss.push_back(new StrPair);
        std::vector<BmpPair*> bs;
        for (int i = 0; i < 2; ++i) bs.push_back(new BmpPair);
        std::vector<PoolPair*> ps;
        for (int i = 0; i < 2; ++i) ps.push_back(new PoolPair);
        std::unique_ptr<CachePair> sc(new CachePair);
        bool poisoned = false;
        long leaked = 0;
        std::string line;
        while (std::getline(std::cin, line))
        {
            std::istringstream in(line);
            std::vector<std::string> t;
            std::string w;
            while (in >> w) t.push_back(w);
            if (t.size() == 1 && t[0] == "reset")
            {
                for (auto*& p : ss) { delete p; }
                for (auto*& p : bs) { delete p; }
                for (auto*& p : ps) { delete p; }
                sc.reset();
                leaked += g_mm.live; g_mm.live = 0;
                for (auto*& p : ss) { p = new StrPair; }
                for (auto*& p : bs) { p = new BmpPair; }
                for (auto*& p : ps) { p = new PoolPair; }
                sc.reset(new CachePair);
                poisoned = false;
                std::cout << "ok\n";
                continue;
            }
            if (poisoned) { std::cout << "skip\n"; continue; }
            if (t.size() >= 2 && t[0] == "sc")
            {
                // XalanDOMStringCache: every string is tagged by the buffer capacity its holder reserves, so that the
                // string handed out again by get() can be recognised (release()/reset() erase but keep the buffer)
                CachePair& c = *sc;
                size_t a0 = 0;
                bool cbad = false;
                std::ostringstream o;
                if (t[1] == "new" && t.size() == 3 && num(t[2], a0)) { sc.reset(); sc.reset(new CachePair(a0)); o << "ok"; }
                else if (t[1] == "get" && t.size() == 3 && num(t[2], a0) && a0 < 8)
                {
                    XalanDOMString& str = c.x->get();
                    for (int k = 0; k < 8; ++k) if (c.slot[k] == &str) cbad = true;      // handed out twice
                    if (str.length() != 0) cbad = true;                                 // not reset
                    o << "r=" << str.capacity() << " n=" << str.length();
                    c.slot[a0] = &str;
                    str.reserve(16 + c.tag++);
                    str.append(2, XalanDOMChar(120));
                }
                else if (t[1] == "release" && t.size() == 3 && num(t[2], a0) && a0 < 8 && c.slot[a0] != 0)
                {
                    const bool r = c.x->release(*c.slot[a0]);
                    c.slot[a0] = 0;
                    o << "r=" << (r ? 1 : 0);
                    if (!r) cbad = true;
                }
                else if (t[1] == "reset") { c.x->reset(); for (int k = 0; k < 8; ++k) c.slot[k] = 0; o << "ok"; }
                else if (t[1] == "clear") { c.x->clear(); for (int k = 0; k < 8; ++k) c.slot[k] = 0; o << "ok"; }
                else { std::cout << "bad\n"; continue; }
                if (cbad) { o << " !std"; poisoned = true; }
                std::cout << o.str() << "\n";
                continue;
            }
            if (t.size() >= 4 && t[0] == "cmp")
            {
                // stateless: the comparison family on freshly built strings
                std::vector<XalanDOMChar> u1, u2;
                size_t p1 = 0, c1 = 0, c2 = 0;
                const std::string& cop = t[1];
                const bool sub = cop == "comparesub";
                if (!units(t[2], u1) || !units(sub ? t[5] : t[3], u2)) { std::cout << "bad\n"; continue; }
                if (sub && (t.size() != 7 || !num(t[3], p1) || !num(t[4], c1) || !num(t[6], c2))) { std::cout << "bad\n"; continue; }
                const XalanDOMChar nul0 = 0;
                XalanDOMString a1(g_mm), a2(g_mm);
                if (!u1.empty()) a1.append(&u1[0], u1.size());
                std::vector<XalanDOMChar> z2(u2); z2.push_back(0);          // NUL-terminated buffer
                size_t zl = 0; while (z2[zl] != 0) ++zl;                     // its length as the class sees it
                if (zl != 0) a2.append(&z2[0], zl);
                const std::u16string s1(u1.begin(), u1.end()), s2(z2.begin(), z2.begin() + zl);
                bool cbad = false;
                std::ostringstream o;
                auto sg = [](long v) { return v < 0 ? -1 : v > 0 ? 1 : 0; };
                if (cop == "compare") { const int v = a1.compare(&z2[0]); o << "r=" << sg(v) << " v=" << v; if (sg(v) != sg(s1.compare(s2))) cbad = true; }
                else if (cop == "comparestr") { const int v = a1.compare(a2); o << "r=" << sg(v) << " v=" << v; if (sg(v) != sg(s1.compare(s2))) cbad = true; }
                else if (sub)
                {
                    const int v = c2 == XalanDOMString::npos ? a1.compare(p1, c1, &z2[0]) : a1.compare(p1, c1, &z2[0], c2);
                    const int rv = c2 == XalanDOMString::npos ? s1.compare(p1, c1, s2.c_str()) : s1.compare(p1, c1, s2.c_str(), c2);
                    o << "r=" << sg(v);
                    if (c2 != XalanDOMString::npos) o << " v=" << v;     // with npos only the sign is specified
                    if (sg(v) != sg(rv)) cbad = true;
                }
                else if (cop == "equals")
                {
                    const bool v = XalanDOMString::equals(u1.empty() ? &nul0 : &u1[0], u1.size(), zl == 0 ? &nul0 : &z2[0], zl);
                    o << "r=" << (v ? 1 : 0);
                    if (v != (s1 == s2) || XalanDOMString::equals(a1, a2) != v || (a1 == a2) != v) cbad = true;
                }
                else if (cop == "eqi" || cop == "cmpi")
                {
                    std::u16string k1(s1), k2(s2);
                    for (auto& ch : k1) if (ch >= u'a' && ch <= u'z') ch = char16_t(ch - 32);
                    for (auto& ch : k2) if (ch >= u'a' && ch <= u'z') ch = char16_t(ch - 32);
                    if (cop == "eqi")
                    {
                        const bool v = equalsIgnoreCaseASCII(a1, a2);
                        o << "r=" << (v ? 1 : 0);
                        if (v != (k1 == k2)) cbad = true;
                    }
                    else
                    {
                        const int v = compareIgnoreCaseASCII(a1.c_str(), a1.length(), a2.c_str(), a2.length());
                        o << "r=" << sg(v) << " v=" << v;
                        // documented contract: 0 exactly for strings equal up to ASCII case; shorter strings first
                        if ((v == 0) != (k1 == k2)) cbad = true;
                        if (s1.size() != s2.size() && sg(v) != (s1.size() < s2.size() ? -1 : 1)) cbad = true;
                        if (s1.size() == s2.size() && sg(v) != sg(k1.compare(k2))) cbad = true;
                    }
                }
                else { std::cout << "bad\n"; continue; }
                if (cbad) { o << " !std"; poisoned = true; }
                std::cout << o.str() << "\n";
                continue;
            }
            if (t.size() >= 3 && t[0] == "pool")
            {
                size_t pi = 0, x = 0;
                if (!num(t[2], pi) || pi >= ps.size()) { std::cout << "bad\n"; continue; }
                PoolPair& q = *ps[pi];
                std::vector<XalanDOMChar> u;
                bool pbad = false;
                std::string pre;
                if (t[1] == "new" && t.size() == 4 && num(t[3], x) && x >= 1) { delete ps[pi]; ps[pi] = new PoolPair(x); }
                else if (t[1] == "clear") { q.x->clear(); q.ids.clear(); q.s.clear(); }
                else if ((t[1] == "get" || t[1] == "gets") && t.size() == 4 && units(t[3], u))
                {
                    // keys are length-carrying unit sequences: embedded and leading U+0000 belong to the key
                    const XalanDOMChar nul0 = 0;
                    const XalanDOMString* rp = 0;
                    if (t[1] == "get") rp = &q.x->get(u.empty() ? &nul0 : &u[0], u.size());
                    else
                    {
                        XalanDOMString key(g_mm);
                        if (!u.empty()) key.append(&u[0], u.size());
                        rp = &q.x->get(key);
                    }
                    const XalanDOMString& r = *rp;
                    std::u16string want(u.begin(), u.end());
                    // the property: the returned string has the requested units, and equal requests return the same object
                    if (r.length() != want.size()) pbad = true;
                    for (size_t k = 0; !pbad && k < want.size(); ++k) if (r[k] != want[k]) pbad = true;
                    if (u.empty()) pre = "r=E ";
                    else
                    {
                        size_t refIdx = 0;
                        while (refIdx < q.s.size() && q.s[refIdx] != want) ++refIdx;
                        if (refIdx == q.s.size()) q.s.push_back(want);
                        std::map<const XalanDOMString*, size_t>::iterator f = q.ids.find(&r);
                        size_t id;
                        if (f == q.ids.end()) { id = q.ids.size(); q.ids[&r] = id; } else id = f->second;
                        if (id != refIdx) pbad = true;
                        std::ostringstream o; o << "r=" << id << " "; pre = o.str();
                    }
                }
                else { std::cout << "bad\n"; continue; }
                std::string pout = show(*ps[pi], pre, pbad);
                if (pbad && pout.find("!std") == std::string::npos) pout += " !std";
                if (pbad) poisoned = true;
                std::cout << pout << "\n";
                continue;
            }
            if (t.size() >= 3 && t[0] == "bmp")
            {
                size_t bi = 0, x = 0;
                if (!num(t[2], bi) || bi >= bs.size()) { std::cout << "bad\n"; continue; }
                BmpPair& q = *bs[bi];
                const std::string& bop = t[1];
                if (bop == "new" && t.size() == 4 && num(t[3], x)) { q.x.reset(new XalanBitmap(g_mm, x)); q.s.assign(x, false); }
                else if (bop == "set" && t.size() == 4 && num(t[3], x)) { q.x->set(x); q.s[x] = true; }
                else if (bop == "clear" && t.size() == 4 && num(t[3], x)) { q.x->clear(x); q.s[x] = false; }
                else if (bop == "toggle" && t.size() == 4 && num(t[3], x)) { q.x->toggle(x); q.s[x] = !q.s[x]; }
                else if (bop == "clearall") { q.x->clearAll(); q.s.assign(q.s.size(), false); }
                else { std::cout << "bad\n"; continue; }
                bool bbad = false;
                std::string bout = show(q, bbad);
                if (bbad) poisoned = true;
                std::cout << bout << "\n";
                continue;
            }
            if (t.size() < 3 || t[0] != "str") { std::cout << "bad\n"; continue; }
            const std::string& op = t[1];
            size_t id = 0;
            if (!num(t[2], id) || id >= ss.size()) { std::cout << "bad\n"; continue; }
            StrPair& p = *ss[id];
            std::vector<XalanDOMChar> u;
            size_t a = 0, b = 0, c = 0, d = 0;
            bool ok = true;
            const XalanDOMChar nul = 0;
            bool refbad = false;   // a member that returns *this (or its argument) must return that very object
            std::string retpre;    // a returned iterator, as an offset
#define REF(expr) do { const XalanDOMString& rr_ = (expr); if (&rr_ != p.x.get()) refbad = true; } while (0)
            if (op == "new") { p.x.reset(new XalanDOMString(g_mm)); p.s.clear(); }
            else if (op == "app" && t.size() == 4 && units(t[3], u))
            {
                REF(p.x->append(u.empty() ? &nul : &u[0], u.size()));
                p.s.append(u.begin(), u.end());
            }
            else if (op == "ctor" && t.size() == 4 && units(t[3], u))
            {
                const size_t cnt = u.size();
                u.push_back(0);
                XalanDOMString tmp(&u[0], g_mm, cnt);       // counted constructor
                p.x->swap(tmp);
                p.s.assign(reinterpret_cast<const char16_t*>(&u[0]), cnt);
            }
            else if (op == "appz" && t.size() == 4 && units(t[3], u))
            {
                u.push_back(0);
                p.x->append(&u[0]);
                p.s.append(std::u16string(reinterpret_cast<const char16_t*>(&u[0])));
            }
            else if (op == "assignz" && t.size() == 4 && units(t[3], u))
            {
                u.push_back(0);
                p.x->assign(&u[0]);
                p.s.assign(std::u16string(reinterpret_cast<const char16_t*>(&u[0])));
            }
            else if (op == "insz" && t.size() == 5 && num(t[3], a) && units(t[4], u))
            {
                u.push_back(0);
                p.x->insert(a, &u[0]);
                p.s.insert(a, std::u16string(reinterpret_cast<const char16_t*>(&u[0])));
            }
            else if (op == "assignp" && t.size() == 5 && units(t[3], u) && num(t[4], a) && a <= u.size())
            {
                u.push_back(0);
                p.x->assign(&u[0], a);
                p.s.assign(reinterpret_cast<const char16_t*>(&u[0]), a);
            }
            else if (op == "appstr" && t.size() == 4 && num(t[3], a) && a < ss.size())
            {
                std::u16string src = ss[a]->s;
                p.x->append(*ss[a]->x);
                p.s.append(src);
            }
            else if (op == "appsub" && t.size() == 6 && num(t[3], a) && a < ss.size() && a != id && num(t[4], b) && num(t[5], c))
            {
                p.x->append(*ss[a]->x, b, c);
                p.s.append(ss[a]->s, b, c == XalanDOMString::npos ? std::u16string::npos : c);
            }
            else if (op == "appn" && t.size() == 5 && num(t[3], a) && num(t[4], b)) { REF(p.x->append(a, XalanDOMChar(b))); p.s.append(a, char16_t(b)); }
            else if (op == "push" && t.size() == 4 && num(t[3], a)) { p.x->push_back(XalanDOMChar(a)); p.s.push_back(char16_t(a)); }
            else if (op == "ins" && t.size() == 5 && num(t[3], a) && units(t[4], u))
            {
                REF(p.x->insert(a, u.empty() ? &nul : &u[0], u.size()));
                p.s.insert(p.s.begin() + a, u.begin(), u.end());
            }
            else if (op == "insn" && t.size() == 6 && num(t[3], a) && num(t[4], b) && num(t[5], c)) { REF(p.x->insert(a, b, XalanDOMChar(c))); p.s.insert(a, b, char16_t(c)); }
            else if (op == "erase" && t.size() == 5 && num(t[3], a) && num(t[4], b))
            {
                REF(p.x->erase(a, b));
                p.s.erase(a, b == XalanDOMString::npos ? std::u16string::npos : b);
            }
            else if (op == "eraseat" && t.size() == 4 && num(t[3], a))
            {
                XalanDOMString::iterator r = p.x->erase(p.x->begin() + a);
                std::u16string::iterator sr = p.s.erase(p.s.begin() + a);
                retpre = retOff(*p.x, r, long(sr - p.s.begin()), refbad);
            }
            else if (op == "insat" && t.size() == 5 && num(t[3], a) && num(t[4], b))
            {
                XalanDOMString::iterator r = p.x->insert(p.x->begin() + a, XalanDOMChar(b));
                std::u16string::iterator sr = p.s.insert(p.s.begin() + a, char16_t(b));
                retpre = retOff(*p.x, r, long(sr - p.s.begin()), refbad);
            }
            else if (op == "eraser" && t.size() == 5 && num(t[3], a) && num(t[4], b))
            {
                XalanDOMString::iterator r = p.x->erase(p.x->begin() + a, p.x->begin() + b);
                std::u16string::iterator sr = p.s.erase(p.s.begin() + a, p.s.begin() + b);
                if (p.x->size() < (size_t(1) << 24)) retpre = retOff(*p.x, r, long(sr - p.s.begin()), refbad);
            }
            else if (op == "assignit" && t.size() == 6 && num(t[3], a) && a < ss.size() && a != id && num(t[4], b) && num(t[5], c))
            {
                p.x->assign(ss[a]->x->begin() + b, ss[a]->x->begin() + c);
                p.s.assign(ss[a]->s.begin() + b, ss[a]->s.begin() + c);
            }
            else if (op == "clear") { p.x->clear(); p.s.clear(); }
            else if (op == "resize" && t.size() == 5 && num(t[3], a) && num(t[4], b)) { p.x->resize(a, XalanDOMChar(b)); p.s.resize(a, char16_t(b)); }
            else if (op == "reserve" && t.size() == 4 && num(t[3], a)) { p.x->reserve(a); p.s.reserve(a); }
            else if (op == "assign" && t.size() == 4 && num(t[3], a) && a < ss.size()) { *p.x = *ss[a]->x; if (a != id) p.s = ss[a]->s; }
            else if (op == "assignn" && t.size() == 5 && num(t[3], a) && num(t[4], b)) { REF(p.x->assign(a, XalanDOMChar(b))); p.s.assign(a, char16_t(b)); }
            else if (op == "assignsub" && t.size() == 6 && num(t[3], a) && a < ss.size() && num(t[4], b) && num(t[5], c))
            {
                std::u16string src = ss[a]->s;
                REF(p.x->assign(*ss[a]->x, b, c));
                p.s.assign(src, b, c);
            }
            else if (op == "substr" && t.size() == 6 && num(t[3], a) && a < ss.size() && a != id && num(t[4], b) && num(t[5], c))
            {
                REF(ss[a]->x->substr(*p.x, b, c));
                p.s = ss[a]->s.substr(b, c == XalanDOMString::npos ? std::u16string::npos : c);
            }
            else if (op == "swap" && t.size() == 4 && num(t[3], a) && a < ss.size())
            {
                if (a != id) { p.x->swap(*ss[a]->x); p.s.swap(ss[a]->s); }
            }
            else ok = false;
            (void) d;
            if (!ok) { std::cout << "bad\n"; continue; }
            bool bad = false;
            std::string out = retpre + show(p, bad);
            if (refbad && !bad) { out += " !std"; bad = true; }
            if (bad) poisoned = true;
            std::cout << out << "\n";
        }
        for (auto* p : ss) delete p;
        for (auto* p : bs) delete p;
        for (auto* p : ps) delete p;
        sc.reset();
        leaked += g_mm.live;
        std::cout << "live " << leaked << "\n";
    }
    XalanTransformer::terminate();
    xercesc::XMLPlatformUtils::Terminate();
    return 0;
}
