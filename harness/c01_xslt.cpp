// C01 correspondence harness.  One request per line on stdin, one reply per line on stdout.
//
//   xslt <id> <hex stylesheet xml> <hex document xml> D ... (rest is for the Lean driver)
//       runs the real XalanTransformer (fresh instance per case) in-process on the working-tree
//       library; the result tree is captured as the SAX events the engine sends to a
//       FormatterListener (no serializer involved) and the instruction-start sequence as the
//       TraceListener sees it.
//       reply: ok <S:name A:name=hex ... T:hex C:hex P:target:hex E:name ...> # <trace names>
//              err <rc> <hex of getLastError()>
//              big      (abandoned: more than 20000 instructions started or events delivered)
//   walk <id> <hex stylesheet xml> <hex document xml> W ...   same as xslt (the model side replays the
//       instruction tree on the Walker model; the TraceListener sequence is what is compared)
//   core <id> <hex stylesheet xml> <hex document xml> D ...   same as xslt (the model side runs the Core engine model)
//   pend <id> <hex stylesheet xml> <hex document xml> Q <engine calls>   same as xslt (the model side replays
//       the call sequence on the pending-start-tag model)
//   vars <ops...>   replays a VariablesStack operation log on the real class (see c01.py)
//       reply: one token per op
#include <xalanc/Include/PlatformDefinitions.hpp>
#include <xercesc/util/PlatformUtils.hpp>
#include <xercesc/sax/AttributeList.hpp>
#include <xercesc/sax/EntityResolver.hpp>
#include <xercesc/framework/MemBufInputSource.hpp>
#include <xalanc/XalanTransformer/XalanTransformer.hpp>
#include <xalanc/XSLT/XSLTInputSource.hpp>
#include <xalanc/XSLT/XSLTResultTarget.hpp>
#include <xalanc/XSLT/TraceListener.hpp>
#include <xalanc/XSLT/TracerEvent.hpp>
#include <xalanc/XSLT/ElemTemplateElement.hpp>
#include <xalanc/XSLT/VariablesStack.hpp>
#include <xalanc/XPath/XObjectFactoryDefault.hpp>
#include <xalanc/XPath/XalanQNameByValue.hpp>
#include <xalanc/PlatformSupport/FormatterListener.hpp>
#include <xalanc/XalanDOM/XalanDOMString.hpp>

#include <cstdio>
#include <cstdlib>
#include <iostream>
#include <sstream>
#include <string>
#include <vector>

using namespace xalanc;

static std::string utf8(const XalanDOMChar* s, size_t n)
{
    std::string o;
    for (size_t i = 0; i < n; ++i)
    {
        unsigned c = s[i];
        if (c >= 0xD800 && c < 0xDC00 && i + 1 < n && s[i + 1] >= 0xDC00 && s[i + 1] < 0xE000)
        {
            c = 0x10000 + ((c - 0xD800) << 10) + (s[i + 1] - 0xDC00);
            ++i;
        }
        if (c < 0x80) o += char(c);
        else if (c < 0x800) { o += char(0xC0 | (c >> 6)); o += char(0x80 | (c & 0x3F)); }
        else if (c < 0x10000) { o += char(0xE0 | (c >> 12)); o += char(0x80 | ((c >> 6) & 0x3F)); o += char(0x80 | (c & 0x3F)); }
        else { o += char(0xF0 | (c >> 18)); o += char(0x80 | ((c >> 12) & 0x3F)); o += char(0x80 | ((c >> 6) & 0x3F)); o += char(0x80 | (c & 0x3F)); }
    }
    return o;
}

static size_t xlen(const XalanDOMChar* s) { size_t n = 0; while (s[n]) ++n; return n; }
static std::string utf8(const XalanDOMChar* s) { return utf8(s, xlen(s)); }
static std::string utf8(const XalanDOMString& s) { return utf8(s.c_str(), s.length()); }

static std::string hexs(const std::string& s)
{
    if (s.empty()) return "-";
    static const char* d = "0123456789abcdef";
    std::string o = "x";
    for (unsigned char c : s) { o += d[c >> 4]; o += d[c & 15]; }
    return o;
}

static std::string unhex(const std::string& h)
{
    std::string o;
    for (size_t i = 0; i + 1 < h.size(); i += 2)
        o += char(std::stoi(h.substr(i, 2), nullptr, 16));
    return o;
}

// A generated stylesheet can be combinatorially explosive (nested for-each / apply-templates over
// descendants).  Such a case is abandoned (reply "big") once it has started LIMIT instructions or
// delivered LIMIT events: the callbacks throw, the exception unwinds through the engine, and the
// transformer (one per case) is discarded.
struct TooBig {};
static const size_t LIMIT = 20000;
// set when a callback abandons the case: XalanTransformer::transform() may turn the exception into an error status
// (it has catch-all handlers), so the harness decides by this flag, not by what comes out of transform()
static bool g_tooBig = false;

class RecordingListener : public FormatterListener
{
public:
    std::string out;
    size_t count = 0;
    RecordingListener() : FormatterListener(OUTPUT_METHOD_NONE) {}
    void add(const std::string& t) { if (g_tooBig || ++count > LIMIT) { g_tooBig = true; throw TooBig(); } if (!out.empty()) out += ' '; out += t; }
    virtual void charactersRaw(const XMLCh* const chars, const size_type length) { add("T:" + hexs(utf8(chars, length))); }
    virtual void comment(const XMLCh* const data) { add("C:" + hexs(utf8(data))); }
    virtual void cdata(const XMLCh* const ch, const size_type length) { add("T:" + hexs(utf8(ch, length))); }
    virtual void entityReference(const XMLCh* const name) { add("R:" + utf8(name)); }
    virtual void characters(const XMLCh* const chars, const size_type length) { add("T:" + hexs(utf8(chars, length))); }
    virtual void endDocument() {}
    virtual void endElement(const XMLCh* const name) { add("E:" + utf8(name)); }
    virtual void ignorableWhitespace(const XMLCh* const chars, const size_type length) { add("T:" + hexs(utf8(chars, length))); }
    virtual void processingInstruction(const XMLCh* const target, const XMLCh* const data) { add("P:" + utf8(target) + ":" + hexs(utf8(data))); }
    virtual void resetDocument() {}
    virtual void setDocumentLocator(const Locator* const) {}
    virtual void startDocument() {}
    virtual void startElement(const XMLCh* const name, AttributeListType& attrs)
    {
        add("S:" + utf8(name));
        const XalanSize_t n = attrs.getLength();
        for (XalanSize_t i = 0; i < n; ++i)
            add("A:" + utf8(attrs.getName(i)) + "=" + hexs(utf8(attrs.getValue(i))));
    }
};

class RecordingTrace : public TraceListener
{
public:
    std::string out;
    size_t count = 0;
    virtual void trace(const TracerEvent& ev)
    {
        if (g_tooBig || ++count > LIMIT) { g_tooBig = true; throw TooBig(); }
        if (!out.empty()) out += ' ';
        out += utf8(ev.m_styleNode.getElementName());
    }
    virtual void selected(const SelectionEvent&) {}
    virtual void generated(const GenerateEvent&) {}
};

// imported stylesheet modules are served from memory: file:///c01/i<k>.xsl = the k-th extra module of the request
class MemResolver : public xercesc::EntityResolver
{
public:
    std::vector<std::string> mods;
    virtual xercesc::InputSource* resolveEntity(const XMLCh* const, const XMLCh* const systemId)
    {
        const std::string sid = utf8(reinterpret_cast<const XalanDOMChar*>(systemId));
        for (size_t k = 1; k < mods.size(); ++k)
        {
            const std::string name = "i" + std::to_string(k) + ".xsl";
            if (sid.size() >= name.size() && sid.compare(sid.size() - name.size(), name.size(), name) == 0)
                return new xercesc::MemBufInputSource(reinterpret_cast<const XMLByte*>(mods[k].data()), mods[k].size(), systemId, false);
        }
        return 0;
    }
};

static std::string runXslt(const std::vector<std::string>& w)
{
    if (w.size() < 4) return "err bad-request";
    MemResolver resolver;
    {
        std::stringstream ss(w[2]); std::string item;
        while (std::getline(ss, item, ',')) resolver.mods.push_back(unhex(item));
    }
    if (resolver.mods.empty()) return "err bad-request";
    const std::string xsl = resolver.mods[0];
    const std::string xml = unhex(w[3]);
    XalanTransformer t;
    RecordingTrace tr;
    t.addTraceListener(&tr);
    if (resolver.mods.size() > 1) t.setEntityResolver(&resolver);
    std::istringstream xslS(xsl), xmlS(xml);
    XSLTInputSource xslIn(xslS), xmlIn(xmlS);
    xslIn.setSystemId(XalanDOMString("file:///c01/s.xsl").c_str());
    xmlIn.setSystemId(XalanDOMString("file:///c01/d.xml").c_str());
    RecordingListener fl;
    XSLTResultTarget target(fl);
    int rc = 0;
    g_tooBig = false;
    try
    {
        rc = t.transform(xmlIn, xslIn, target);
    }
    catch (const TooBig&)
    {
        return "big";
    }
    if (g_tooBig)
    {
        g_tooBig = false;
        return "big";
    }
    if (rc != 0)
    {
        const char* e = t.getLastError();
        return "err " + std::to_string(rc) + " " + hexs(e ? e : "");
    }
    return "ok " + fl.out + " # " + tr.out;
}

// ---- VariablesStack op log -------------------------------------------------------------
//   mode <0|1>    (model only: findEntry without / with in-place activation) -> "ok"
//   cm            pushContextMarker            -> "ok"
//   pcm           popContextMarker             -> "ok"
//   ef <e>        pushElementFrame(elem e)     -> "ok"
//   pef           popElementFrame              -> "ok" | "exc"
//   var <n> <v> <e>  pushVariable(name n, number v, elem e) -> "ok" | "exc"
//   params <n>=<v>,...  pushParams             -> "ok"
//   get <n>       getVariable                  -> value | "none"
//   getp <n>      getParamVariable             -> value | "none"
//   idx           -> "<currentStackFrameIndex>/<globalStackFrameIndex or ->"
//   setidx <k>|top  setCurrentStackFrameIndex
//   mark / unmark markGlobalStackFrame / unmarkGlobalStackFrame
static std::string runVars(const std::vector<std::string>& w)
{
    MemoryManager& mm = XalanMemMgrs::getDefaultXercesMemMgr();
    XObjectFactoryDefault factory(mm);
    VariablesStack vs(mm);
    std::vector<XalanQNameByValue*> names;
    for (int i = 0; i < 8; ++i)
    {
        std::string n = "n" + std::to_string(i);
        names.push_back(new XalanQNameByValue(XalanDOMString("", mm), XalanDOMString(n.c_str(), mm), mm));
    }
    // element identities: addresses inside a static buffer, never dereferenced by VariablesStack
    static char elems[64];
    StylesheetExecutionContext* noCtx = 0;  // only used for lazily evaluated ElemVariable entries (never pushed here)
    std::string out;
    size_t i = 1;
    auto nat = [&](const std::string& s) { return size_t(std::strtoul(s.c_str(), 0, 10)); };
    while (i < w.size())
    {
        const std::string& op = w[i];
        std::string r = "ok";
        try
        {
            if (op == "mode") { i += 2; }   // which findEntry the model should use (chosen by the check's probe); nothing to do here
            else if (op == "cm") { vs.pushContextMarker(); i += 1; }
            else if (op == "pcm") { vs.popContextMarker(); i += 1; }
            else if (op == "ef") { vs.pushElementFrame(reinterpret_cast<const ElemTemplateElement*>(&elems[nat(w[i + 1]) % 64])); i += 2; }
            else if (op == "pef") { i += 1; vs.popElementFrame(); }
            else if (op == "var")
            {
                const size_t n = nat(w[i + 1]) % 8; const double v = double(nat(w[i + 2])); const size_t e = nat(w[i + 3]) % 64;
                i += 4;
                vs.pushVariable(*names[n], factory.createNumber(v), reinterpret_cast<const ElemTemplateElement*>(&elems[e]));
            }
            else if (op == "params")
            {
                VariablesStack::ParamsVectorType pv(mm);
                std::string spec = w[i + 1];
                i += 2;
                if (spec != "-")
                {
                    std::stringstream ss(spec); std::string item;
                    while (std::getline(ss, item, ','))
                    {
                        const size_t eq = item.find('=');
                        const size_t n = nat(item.substr(0, eq)) % 8; const double v = double(nat(item.substr(eq + 1)));
                        pv.push_back(VariablesStack::ParamsVectorEntry(names[n], factory.createNumber(v)));
                    }
                }
                vs.pushParams(pv);
            }
            else if (op == "get" || op == "getp")
            {
                const size_t n = nat(w[i + 1]) % 8;
                i += 2;
                bool found = false;
                const XObjectPtr p = op == "get" ? vs.getVariable(*names[n], *noCtx, found) : vs.getParamVariable(*names[n], *noCtx, found);
                if (!found || p.null()) r = "none";
                else r = std::to_string(long(p->num(*reinterpret_cast<XPathExecutionContext*>(noCtx))));
            }
            else if (op == "idx")
            {
                i += 1;
                const unsigned long g = vs.getGlobalStackFrameIndex();
                r = std::to_string(vs.getCurrentStackFrameIndex()) + "/" + (g == ~0u || g == ~0ul ? std::string("-") : std::to_string(g));
            }
            else if (op == "setidx")
            {
                if (w[i + 1] == "top") vs.setCurrentStackFrameIndex(); else vs.setCurrentStackFrameIndex(nat(w[i + 1]));
                i += 2;
            }
            else if (op == "mark") { vs.markGlobalStackFrame(); i += 1; }
            else if (op == "unmark") { vs.unmarkGlobalStackFrame(); i += 1; }
            else { r = "bad"; i += 1; }
        }
        catch (const VariablesStack::InvalidStackContextException&)
        {
            r = "exc";
        }
        if (!out.empty()) out += ' ';
        out += r;
    }
    for (auto* n : names) delete n;
    return out;
}

int main()
{
    xercesc::XMLPlatformUtils::Initialize();
    XalanTransformer::initialize();
    {
        std::string line;
        while (std::getline(std::cin, line))
        {
            std::vector<std::string> w;
            {
                std::istringstream ss(line); std::string t;
                // only the first four words matter for xslt (the rest is the model's form of the same case)
                while (ss >> t) { w.push_back(t); if ((w[0] == "xslt" || w[0] == "walk" || w[0] == "pend" || w[0] == "core") && w.size() >= 4) break; }
            }
            std::string reply;
            if (w.empty()) reply = "bad";
            else if (w[0] == "xslt" || w[0] == "walk" || w[0] == "pend" || w[0] == "core") reply = runXslt(w);
            else if (w[0] == "vars") reply = runVars(w);
            else reply = "bad";
            std::cout << reply << "\n";
            std::cout.flush();
        }
    }
    XalanTransformer::terminate();
    xercesc::XMLPlatformUtils::Terminate();
    return 0;
}
