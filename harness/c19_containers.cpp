// C19 container-level correspondence harness: the real XalanList / XalanVector / XalanAllocationGuard
// templates of the working tree (header-only, compiled here under ASan+UBSan) driven by a counting,
// failing MemoryManager.  Same request lines as lean/Driver/C19.lean; one reply line per request:
//     <ok|oom|ub> reqs=<allocation requests> live=<outstanding blocks> bad=<double/foreign frees> | <contents>

#include <fcntl.h>
#include <sys/wait.h>
#include <unistd.h>

#include <cstdio>
#include <cstdlib>
#include <cstring>
#include <iostream>
#include <map>
#include <sstream>
#include <string>
#include <vector>


#include <algorithm>
#include <cassert>
#include <cstddef>
#include <functional>
#include <iterator>
#include <new>
#include <stdexcept>
#include <utility>
#include <memory>
#include <limits>
#include <cstring>
// harness-only: the templates are compiled with their private/protected members visible, so that the replies can show the
// internal state (free lists, block lists).  All standard headers are included above, before the redefinition.
#define private public
#define protected public
#include <xalanc/Include/PlatformDefinitions.hpp>
#include <xalanc/Include/XalanMemoryManagement.hpp>
#include <xalanc/Include/XalanVector.hpp>
#include <xalanc/Include/XalanList.hpp>
#include <xalanc/Include/XalanDeque.hpp>
#include <xalanc/Include/XalanMap.hpp>
#include <xalanc/Include/XalanMemMgrAutoPtr.hpp>
#include <xalanc/PlatformSupport/ArenaBlockBase.hpp>
#include <xalanc/PlatformSupport/ReusableArenaBlock.hpp>
#include <xalanc/PlatformSupport/ArenaAllocator.hpp>
#include <xalanc/PlatformSupport/ReusableArenaAllocator.hpp>
#include <xalanc/PlatformSupport/XalanArrayAllocator.hpp>
#include <xercesc/framework/MemoryManager.hpp>
#undef protected
#undef private

struct Refused {};

class FaultManager : public xercesc::MemoryManager
{
public:
    long reqs = 0, failAt = 0, bad = 0, nextId = 0;
    std::map<void*, long> live;
    void* allocate(XMLSize_t n) override
    {
        ++reqs;
        if (reqs == failAt) throw Refused();
        void* p = std::malloc(n ? n : 1);
        std::memset(p, 0xA5, n);
        live[p] = ++nextId;
        return p;
    }
    void deallocate(void* p) override
    {
        if (p == 0) return;
        std::map<void*, long>::iterator i = live.find(p);
        if (i == live.end()) { ++bad; return; }
        live.erase(i);
        std::free(p);
    }
    xercesc::MemoryManager* getExceptionMemoryManager() override { return this; }
    long idOf(void* p) { std::map<void*, long>::iterator i = live.find(p); return i == live.end() ? -1 : i->second; }
};

class PlainManager : public xercesc::MemoryManager
{
public:
    void* allocate(XMLSize_t n) override { return std::malloc(n ? n : 1); }
    void deallocate(void* p) override { std::free(p); }
    xercesc::MemoryManager* getExceptionMemoryManager() override { return this; }
};

static PlainManager g_plain;

namespace XALAN_CPP_NAMESPACE
{
// an element whose copy allocates one block from the manager it is constructed with (like XalanDOMString)
struct Boxed
{
    long v; void* blk; xercesc::MemoryManager* mm;
    explicit Boxed(xercesc::MemoryManager& m) : v(0), blk(0), mm(&m) {}     // default construction with a manager: empty, like a string
    Boxed(long x, xercesc::MemoryManager& m) : v(x), blk(m.allocate(8)), mm(&m) {}
    Boxed(const Boxed& o, xercesc::MemoryManager& m) : v(o.v), blk(m.allocate(8)), mm(&m) {}
    ~Boxed() { if (blk) mm->deallocate(blk); }
    Boxed& operator=(const Boxed& o) { v = o.v; return *this; }      // keeps its own block
private:
    Boxed(const Boxed&);
};
XALAN_USES_MEMORY_MANAGER(Boxed)
}

using namespace xalanc;

typedef XalanList<Boxed> BList;
typedef XalanVector<long> LVec;

// exposes the free-list length (read-only walk of m_freeListHeadPtr, bounded)
struct PeekList : public BList
{
    static long freeLen(BList& l, bool stopAtWild)
    {
        PeekList& p = static_cast<PeekList&>(l);
        long n = 0;
        for (Node* f = p.m_freeListHeadPtr; f != 0 && n < 1000; f = f->next)
        {
            if ((size_t)f == (size_t)0xA5A5A5A5A5A5A5A5ULL) break;      // m_freeListHeadPtr itself is the wild value
            ++n;
            if (stopAtWild && (size_t)f->next == (size_t)0xA5A5A5A5A5A5A5A5ULL) break;
        }
        return n;
    }
    static bool headWild(BList& l) { return (size_t)static_cast<PeekList&>(l).m_freeListHeadPtr == (size_t)0xA5A5A5A5A5A5A5A5ULL; }
    static bool hasHead(BList& l) { return static_cast<PeekList&>(l).m_listHead != 0; }
};

typedef ReusableArenaBlock<Boxed, unsigned short> RBlock;
typedef XalanDeque<long> LDeque;
typedef XalanVector<Boxed> BVec;
typedef XalanDeque<Boxed> BDeque;
typedef XalanMap<int, long> IMap;
typedef XalanMap<int, Boxed> BMap;
typedef ReusableArenaAllocator<Boxed> RAlloc;

struct PeekBlock : public RBlock
{
    static Boxed* base(RBlock& b) { return static_cast<PeekBlock&>(b).m_objectBlock; }
    static long count(RBlock& b) { return static_cast<PeekBlock&>(b).m_objectCount; }
    static long first(RBlock& b) { return static_cast<PeekBlock&>(b).m_firstFreeBlock; }
    static long next(RBlock& b) { return static_cast<PeekBlock&>(b).m_nextFreeBlock; }
};

// the created object of the create idioms: XalanConstruct of a type whose constructor allocates one block
struct Thing
{
    void* sub; xercesc::MemoryManager& mm;
    Thing(xercesc::MemoryManager& m) : sub(m.allocate(16)), mm(m) {}
    ~Thing() { mm.deallocate(sub); }
};

static Thing* createThing(xercesc::MemoryManager& m)
{
    Thing* t = 0;
    return XalanConstruct(m, t, m);
}

typedef XalanMemMgrAutoPtr<Thing> ThingPtr;

struct State
{
    ThingPtr ap[2];
    std::vector<Thing*> loose;
    RBlock* arena = 0;
    std::vector<bool> isObj;
    LDeque* deque = 0;
    BVec* bvec = 0;
    LDeque* dql = 0;
    BDeque* dqb = 0;
    IMap* map = 0;
    BMap* bmap = 0;
    RAlloc* ra = 0;
    XALAN_CPP_NAMESPACE::XalanArrayAllocator<long>* aa = 0;
    std::vector<Boxed*> raObjs;          // objects in creation order (0 = destroyed)
    FaultManager* fm = 0;
    BList* list = 0;
    LVec* vec = 0;
    std::vector<void*> created;     // objects made by the create idioms (owned by the "transformer")
    void reset(long failAt)
    {
        // the previous objects are abandoned with their manager (documented recovery model)
        fm = new FaultManager; fm->failAt = failAt;
        list = new BList(*fm);
        vec = new LVec(*fm);
        created.clear();
        arena = 0; isObj.clear();
        deque = 0;
        bvec = new BVec(*fm);
        map = 0; bmap = 0; dql = 0; dqb = 0;
        ra = 0; raObjs.clear(); aa = 0;
        ap[0].release(); ap[1].release(); loose.clear();      // abandoned with their manager
    }
};

static std::string tail(State& s, const std::string& out, const std::string& contents)
{
    std::ostringstream o;
    o << out << " reqs=" << s.fm->reqs << " live=" << s.fm->live.size() << " bad=" << s.fm->bad << " | " << contents;
    return o.str();
}

static std::string showList(State& s)
{
    std::ostringstream o;
    // iterate without begin()/end() when the sentinel does not exist (begin() would allocate)
    if (PeekList::hasHead(*s.list))
        for (BList::iterator i = s.list->begin(); i != s.list->end(); ++i) o << i->v << " ";
    o << "free=" << PeekList::freeLen(*s.list, true) << " head=" << (PeekList::hasHead(*s.list) ? 1 : 0);
    return o.str();
}

static std::string showVec(State& s)
{
    std::ostringstream o;
    o << s.vec->size() << " " << s.vec->capacity() << " :";
    for (size_t i = 0; i < s.vec->size(); ++i) o << " " << (*s.vec)[i];
    return o.str();
}

// XalanArrayAllocator<long>: per list entry "free/size" (m_list order), and which entry m_lastEntryFound names
static std::string showAA(State& s)
{
    std::ostringstream o;
    if (s.aa == 0) return "none";
    long idx = 0, last = -1;
    if (s.aa->m_list.m_listHead != 0)
        for (auto i = s.aa->m_list.begin(); i != s.aa->m_list.end(); ++i, ++idx)
        {
            o << " " << (*i).first << "/" << (*i).second->size();
            if (&*i == s.aa->m_lastEntryFound) last = idx;
        }
    o << " last=" << last;
    return o.str();
}

static std::string showAP(State& s)
{
    std::ostringstream o;
    for (int q = 0; q < 2; ++q)
    {
        o << "p" << q << "=";
        if (s.ap[q].get()) o << s.fm->idOf(s.ap[q].get()); else o << "-";
        o << " ";
    }
    o << "loose=";
    for (size_t q = 0; q < s.loose.size(); ++q) o << s.fm->idOf(s.loose[q]) << ",";
    return o.str();
}

static std::string showRA(State& s)
{
    std::ostringstream o;
    // iterate the block list without begin()/end() side effects: only when the list has a head
    RAlloc::ArenaBlockListType& bl = s.ra->m_blocks;
    if (bl.m_listHead != 0)
        for (RAlloc::ArenaBlockListType::iterator i = bl.begin(); i != bl.end(); ++i)
        {
            o << "[";
            Boxed* base = (*i)->m_objectBlock;
            for (size_t k = 0; k < (*i)->m_blockSize; ++k)
            {
                bool alive = false;
                for (size_t j = 0; j < s.raObjs.size(); ++j) if (s.raObjs[j] == base + k) alive = true;
                if (alive) o << "o" << base[k].v << " "; else o << "- ";
            }
            o << "] ";
        }
    return o.str();
}

static std::string showMap(State& s)
{
    std::ostringstream o;
    size_t bcap = 0;
    for (size_t i = 0; i < s.map->m_buckets.size(); ++i) bcap += s.map->m_buckets[i].capacity();
    size_t nfree = 0;
    if (s.map->m_freeEntries.m_listHead != 0)
        for (IMap::EntryListType::iterator i = s.map->m_freeEntries.begin(); i != s.map->m_freeEntries.end(); ++i) ++nfree;
    o << "size=" << s.map->size() << " buckets=" << s.map->m_buckets.size() << " bcap=" << bcap << " free=" << nfree << " :";
    if (s.map->m_entries.m_listHead != 0)
        for (IMap::EntryListType::iterator i = s.map->m_entries.begin(); i != s.map->m_entries.end(); ++i)
            o << " " << i->value->first << "=" << i->value->second;
    return o.str();
}

static long valOf(long x) { return x; }
static long valOf(const Boxed& b) { return b.v; }

template <class D>
static std::string showDq(D& d)
{
    std::ostringstream o;
    size_t n = 0;
    bool lastNull = !d.m_blockIndex.empty() && d.m_blockIndex.back() == 0;
    if (!lastNull) n = d.size();
    o << "size=" << n << " idx=" << d.m_blockIndex.size() << " free=" << d.m_freeBlockVector.size() << " :";
    for (size_t b = 0; b < d.m_blockIndex.size(); ++b)
    {
        typename D::BlockType* blk = d.m_blockIndex[b];
        if (blk == 0) continue;
        for (size_t i = 0; i < blk->size(); ++i) o << " " << valOf((*blk)[i]);
    }
    return o.str();
}

static void pushDq(LDeque& d, long x) { d.push_back(x); }
static void pushDq(BDeque& d, long x) { Boxed t(x, g_plain); d.push_back(t); }

// one operation; `out` is set to "ub" when the real template was observed (in a child) not to survive it
template <class D>
static bool doDq(D*& d, FaultManager* fm, const std::string& b, long x, std::string& out, std::string& shown)
{
    if (b == "new") { d = new D(*fm, 0, size_t(x)); }
    else if (d == 0) return false;
    else if (b == "push")
    {
        bool pending = fm->failAt > fm->reqs;
        D* dp = d;
        if (pending && !survives([dp, fm, x]() { long b0 = fm->bad; try { pushDq(*dp, x); } catch (const Refused&) {} if (fm->bad != b0) _exit(9); })) out = "ub";
        else pushDq(*d, x);
    }
    else if (b == "pop")
    {
        if (d->m_blockIndex.empty()) out = "ub";                       // pop_back() on an empty deque: caller error
        else
        {
            D* dp = d;
            // an empty block at the end of the index (left by a refused element copy / free-vector growth): does pop_back survive it?
            if ((d->m_blockIndex.back() == 0 || d->m_blockIndex.back()->empty() || fm->failAt > fm->reqs) &&
                !survives([dp, fm]() { long b0 = fm->bad; try { dp->pop_back(); } catch (const Refused&) {} if (fm->bad != b0) _exit(9); })) out = "ub";
            else if (d->m_blockIndex.back() != 0 && d->m_blockIndex.back()->empty()) out = "ub";   // survived by luck (size_t wrap): still undefined
            else d->pop_back();
        }
    }
    else if (b == "clear")
    {
        D* dp = d;
        if (fm->failAt > fm->reqs && !survives([dp, fm]() { long b0 = fm->bad; try { dp->clear(); } catch (const Refused&) {} if (fm->bad != b0) _exit(9); })) out = "ub";
        else d->clear();
    }
    else if (b == "destroy")
    {
        D* dp = d;
        if (!survives([dp, fm]() { long b0 = fm->bad; delete dp; if (fm->bad != b0) _exit(9); })) out = "ub";
        else { delete d; d = 0; shown = "destroyed"; return true; }
    }
    else return false;
    shown = d ? showDq(*d) : std::string("");
    return true;
}

static std::string showBMap(State& s)
{
    std::ostringstream o;
    size_t bcap = 0;
    for (size_t i = 0; i < s.bmap->m_buckets.size(); ++i) bcap += s.bmap->m_buckets[i].capacity();
    size_t nfree = 0;
    if (s.bmap->m_freeEntries.m_listHead != 0)
        for (BMap::EntryListType::iterator i = s.bmap->m_freeEntries.begin(); i != s.bmap->m_freeEntries.end(); ++i) ++nfree;
    o << "size=" << s.bmap->size() << " buckets=" << s.bmap->m_buckets.size() << " bcap=" << bcap << " free=" << nfree << " :";
    if (s.bmap->m_entries.m_listHead != 0)
        for (BMap::EntryListType::iterator i = s.bmap->m_entries.begin(); i != s.bmap->m_entries.end(); ++i)
            o << " " << i->value->first << "=" << i->value->second.v;
    return o.str();
}

static bool doBMap(State& s, const std::string& b, long x, long y)
{
    if (b == "ins") { Boxed t(y, g_plain); s.bmap->insert(int(x), t); }
    else if (b == "erase") s.bmap->erase(int(x));
    else if (b == "clear") s.bmap->clear();
    else return false;
    return true;
}

static bool doMap(State& s, const std::string& b, long x, long y)
{
    if (b == "ins") s.map->insert(int(x), y);
    else if (b == "erase") s.map->erase(int(x));
    else if (b == "clear") s.map->clear();
    else return false;
    return true;
}

static std::string showBVec(State& s)
{
    std::ostringstream o;
    o << s.bvec->size() << " " << s.bvec->capacity() << " :";
    for (size_t i = 0; i < s.bvec->size(); ++i) o << " " << (*s.bvec)[i].v;
    return o.str();
}

// one operation on the vector of allocating elements; returns false for an unknown op
static bool doBv(State& s, const std::string& b, long x, long y)
{
    if (b == "push") { Boxed t(x, g_plain); s.bvec->push_back(t); }
    else if (b == "reserve") s.bvec->reserve(size_t(x));
    else if (b == "pop") s.bvec->pop_back();
    else if (b == "clear") s.bvec->clear();
    else if (b == "resize") { Boxed t(y, g_plain); s.bvec->resize(size_t(x), t); }
    else if (b == "copy") { BVec c(*s.bvec, *s.fm); }
    else return false;
    return true;
}

static bool dequeLastNull(State& s) { return !s.deque->m_blockIndex.empty() && s.deque->m_blockIndex.back() == 0; }

// the index ends in the null placeholder: does the real size() (what push_back/back()/clear() also do) survive it?
static bool dequeNullIsFatal(State& s);

static std::string showDeque(State& s)
{
    std::ostringstream o;
    o << "idx=" << s.deque->m_blockIndex.size() << " free=" << s.deque->m_freeBlockVector.size() << " :";
    for (size_t b = 0; b < s.deque->m_blockIndex.size(); ++b)
    {
        LDeque::BlockType* blk = s.deque->m_blockIndex[b];
        if (blk == 0) continue;
        for (size_t i = 0; i < blk->size(); ++i) o << " " << (*blk)[i];
    }
    return o.str();
}

static std::string showArena(State& s, bool full)
{
    std::ostringstream o;
    if (full) o << "full ";
    for (size_t i = 0; i < s.isObj.size(); ++i)
    {
        if (s.isObj[i]) o << "o" << PeekBlock::base(*s.arena)[i].v << " "; else o << "- ";
    }
    o << "cnt=" << PeekBlock::count(*s.arena) << " pend=" << (PeekBlock::first(*s.arena) != PeekBlock::next(*s.arena) ? 1 : 0)
      << " ff=" << PeekBlock::first(*s.arena);
    return o.str();
}

// true when running `f` in a forked child ends normally
template <class F>
static bool survives(F f)
{
    std::cout.flush();
    pid_t pid = fork();
    if (pid == 0)
    {
        int dn = ::open("/dev/null", 1);
        if (dn >= 0) { dup2(dn, 1); dup2(dn, 2); }
        f();
        _exit(0);
    }
    int st = 0;
    waitpid(pid, &st, 0);
    return WIFEXITED(st) && WEXITSTATUS(st) == 0;
}

#include <fcntl.h>

static bool dequeNullIsFatal(State& s)
{
    LDeque* d = s.deque;
    return !survives([d]() { volatile size_t n = d->size(); (void)n; });
}

int main()
{
    State s;
    s.reset(0);
    bool dead = false;      // after a reply `ub` the objects are not touched again until `new`
    std::string line;
    while (std::getline(std::cin, line))
    {
        std::istringstream in(line);
        std::string a, b;
        in >> a >> b;
        long x = 0; in >> x;
        std::string out = "ok";
        if (a == "cfg") { std::cout << "cfg\n"; continue; }
        if (a == "new") { s.reset(atol(b.c_str())); dead = false; std::cout << "new\n"; continue; }
        if (dead) { std::cout << "dead\n"; continue; }
        try
        {
            if (a == "l")
            {
                if ((b == "pushb" || b == "pushf") && PeekList::headWild(*s.list)) out = "ub";   // would write through the wild pointer
                else if (b == "pushb") { Boxed t(x, g_plain); s.list->push_back(t); }
                else if (b == "pushf") { Boxed t(x, g_plain); s.list->push_front(t); }
                else if (b == "popf" || b == "popb")
                {
                    // erase(end()) on an empty list is outside the contract: report ub without executing
                    bool hadHead = PeekList::hasHead(*s.list);
                    if (!hadHead) { s.list->begin(); }
                    if (s.list->begin() == s.list->end()) out = "ub";
                    else if (b == "popf") s.list->pop_front(); else s.list->pop_back();
                }
                else if (b == "clear") s.list->clear();
                else if (b == "empty") (void)s.list->empty();
                else if (b == "destroy")
                {
                    BList* l = s.list;
                    if (!survives([l]() { l->~BList(); })) out = "ub";
                    else
                    {
                        delete s.list; s.list = 0;
                        std::cout << tail(s, out, "destroyed") << "\n";
                        s.list = new BList(*s.fm);
                        continue;
                    }
                }
                else out = "bad";
                if (out == "ub") dead = true;
                std::cout << tail(s, out, showList(s)) << "\n";
            }
            else if (a == "v")
            {
                if (b == "push") s.vec->push_back(x);
                else if (b == "reserve") s.vec->reserve(size_t(x));
                else if (b == "pop") { if (s.vec->empty()) out = "ub"; else s.vec->pop_back(); }
                else if (b == "clear") s.vec->clear();
                else if (b == "rtc")
                {
                    // XalanTransformer.cpp:607-620
                    s.vec->reserve(s.vec->size() + 1);
                    Thing* t = createThing(*s.fm);
                    s.created.push_back(t);
                    s.vec->push_back(s.fm->idOf(t));
                }
                else if (b == "ctp")
                {
                    Thing* t = createThing(*s.fm);
                    s.created.push_back(t);
                    s.vec->push_back(s.fm->idOf(t));
                }
                else if (b == "destroy")
                {
                    // ~XalanTransformer: destroy what the vector holds, then the vector
                    for (size_t i = 0; i < s.vec->size(); ++i)
                        for (size_t j = 0; j < s.created.size(); ++j)
                            if (s.created[j] && s.fm->idOf(s.created[j]) == (*s.vec)[i])
                            { XalanDestroy(*s.fm, static_cast<Thing*>(s.created[j])); s.created[j] = 0; }
                    delete s.vec; s.vec = 0;
                    std::cout << tail(s, out, "destroyed") << "\n";
                    s.vec = new LVec(*s.fm);
                    s.created.clear();
                    continue;
                }
                else out = "bad";
                if (out == "ub") dead = true;
                std::cout << tail(s, out, showVec(s)) << "\n";
            }
            else if (a == "aa")
            {
                typedef XALAN_CPP_NAMESPACE::XalanArrayAllocator<long> AA;
                if (b == "new") { s.aa = new AA(*s.fm, size_t(x)); }
                else if (s.aa == 0) { std::cout << "bad\n"; continue; }
                else if (b == "alloc") { long* p = s.aa->allocate(size_t(x)); for (long i = 0; i < x; ++i) p[i] = i; }
                else if (b == "reset") s.aa->reset();
                else if (b == "clear") s.aa->clear();
                else if (b == "destroy")
                {
                    delete s.aa; s.aa = 0;
                    std::cout << tail(s, out, "destroyed") << "\n";
                    continue;
                }
                else out = "bad";
                std::cout << tail(s, out, showAA(s)) << "\n";
            }
            else if (a == "ap")
            {
                long y = 0; in >> y;
                size_t i = x == 0 ? 0 : 1, j = y == 0 ? 0 : 1;
                if (b == "make") { Thing* t = createThing(*s.fm); s.ap[i].reset(s.fm, t); }
                else if (b == "move") { s.ap[j] = s.ap[i]; }
                else if (b == "release") { Thing* t = s.ap[i].releasePtr(); if (t) s.loose.insert(s.loose.begin(), t); }
                else if (b == "reset") s.ap[i].reset();
                else if (b == "destroy")
                {
                    s.ap[0].reset(); s.ap[1].reset();
                    for (size_t q = 0; q < s.loose.size(); ++q) XalanDestroy(*s.fm, s.loose[q]);
                    s.loose.clear();
                    std::cout << tail(s, out, "destroyed") << "\n";
                    continue;
                }
                else out = "bad";
                std::string sh = showAP(s);
                std::cout << tail(s, out, sh) << "\n";
            }
            else if (a == "ra")
            {
                if (b == "new") { s.ra = new RAlloc(*s.fm, (unsigned short)x); s.raObjs.clear(); }
                else if (s.ra == 0) { std::cout << "bad\n"; continue; }
                else if (b == "create")
                {
                    Boxed* p = s.ra->allocateBlock();
                    new (p) Boxed(x, *s.fm);                     // may throw: slot stays uncommitted
                    s.ra->commitAllocation(p);
                    s.raObjs.push_back(p);
                }
                else if (b == "destroy")
                {
                    if (x < 0 || size_t(x) >= s.raObjs.size() || s.raObjs[size_t(x)] == 0) out = "ub";
                    else
                    {
                        Boxed* p = s.raObjs[size_t(x)];
                        s.raObjs[size_t(x)] = 0;
                        // the manager refuses a request made here by throwing: destroyObject runs under destructors in the library
                        if (!s.ra->destroyObject(p)) out = "ub";
                    }
                }
                else if (b == "free")
                {
                    RAlloc* r = s.ra; FaultManager* fm = s.fm;
                    if (!survives([r, fm]() { long b0 = fm->bad; delete r; if (fm->bad != b0) _exit(9); })) out = "ub";
                    else
                    {
                        delete s.ra; s.ra = 0; s.raObjs.clear();
                        std::cout << tail(s, out, "destroyed") << "\n";
                        continue;
                    }
                }
                else out = "bad";
                if (out == "ub") dead = true;
                std::cout << tail(s, out, showRA(s)) << "\n";
            }
            else if (a == "m")
            {
                long y = 0; in >> y;
                if (b == "new") { s.map = new IMap(*s.fm, 0.75, size_t(x), 100000); }
                else if (s.map == 0) { std::cout << "bad\n"; continue; }
                else if (b == "find")
                {
                    const IMap& cm = *s.map;
                    IMap::const_iterator i = cm.find(int(x));
                    std::ostringstream o;
                    if (i == cm.end()) o << "none"; else o << "found " << (*i).second;
                    std::cout << tail(s, out, o.str()) << "\n";
                    continue;
                }
                else if (b == "destroy")
                {
                    IMap* m = s.map; FaultManager* fm = s.fm;
                    if (!survives([m, fm]() { long b0 = fm->bad; delete m; if (fm->bad != b0) _exit(9); })) out = "ub";
                    else
                    {
                        delete s.map; s.map = 0;
                        std::cout << tail(s, out, "destroyed") << "\n";
                        continue;
                    }
                }
                else
                {
                    State* sp = &s;
                    bool pending = s.fm->failAt > s.fm->reqs;
                    if (pending && !survives([sp, b, x, y]() { long b0 = sp->fm->bad; try { doMap(*sp, b, x, y); } catch (const Refused&) {} if (sp->fm->bad != b0) _exit(9); }))
                        out = "ub";
                    else
                    {
                        long b0 = s.fm->bad;
                        if (!doMap(s, b, x, y)) out = "bad";
                        else if (s.fm->bad != b0) out = "ub";
                    }
                }
                if (out == "ub") dead = true;
                std::cout << tail(s, out, showMap(s)) << "\n";
            }
            else if (a == "dql" || a == "dqb")
            {
                std::string shown;
                bool ok2;
                try
                {
                    ok2 = a == "dql" ? doDq(s.dql, s.fm, b, x, out, shown) : doDq(s.dqb, s.fm, b, x, out, shown);
                }
                catch (const Refused&)
                {
                    out = "oom"; ok2 = true;
                    shown = a == "dql" ? (s.dql ? showDq(*s.dql) : std::string("")) : (s.dqb ? showDq(*s.dqb) : std::string(""));
                }
                if (!ok2) { std::cout << "bad\n"; continue; }
                if (out == "ub") dead = true;
                std::cout << tail(s, out, shown) << "\n";
            }
            else if (a == "mb")
            {
                long y = 0; in >> y;
                if (b == "new") { s.bmap = new BMap(*s.fm, 0.75, size_t(x), 100000); }
                else if (s.bmap == 0) { std::cout << "bad\n"; continue; }
                else if (b == "find")
                {
                    const BMap& cm = *s.bmap;
                    BMap::const_iterator i = cm.find(int(x));
                    std::ostringstream o;
                    if (i == cm.end()) o << "none"; else o << "found " << (*i).second.v;
                    std::cout << tail(s, out, o.str()) << "\n";
                    continue;
                }
                else if (b == "destroy")
                {
                    BMap* m = s.bmap; FaultManager* fm = s.fm;
                    if (!survives([m, fm]() { long b0 = fm->bad; delete m; if (fm->bad != b0) _exit(9); })) out = "ub";
                    else
                    {
                        delete s.bmap; s.bmap = 0;
                        std::cout << tail(s, out, "destroyed") << "\n";
                        continue;
                    }
                }
                else
                {
                    State* sp = &s;
                    bool pending = s.fm->failAt > s.fm->reqs;
                    if (pending && !survives([sp, b, x, y]() { long b0 = sp->fm->bad; try { doBMap(*sp, b, x, y); } catch (const Refused&) {} if (sp->fm->bad != b0) _exit(9); }))
                        out = "ub";
                    else
                    {
                        long b0 = s.fm->bad;
                        if (!doBMap(s, b, x, y)) out = "bad";
                        else if (s.fm->bad != b0) out = "ub";       // a stale value destroyed again: undefined, observed as a double free
                    }
                }
                if (out == "ub") dead = true;
                std::cout << tail(s, out, showBMap(s)) << "\n";
            }
            else if (a == "bv")
            {
                long y = 0; in >> y;
                if (b == "destroy")
                {
                    BVec* v = s.bvec; FaultManager* fm = s.fm;
                    if (!survives([v, fm]() { long b0 = fm->bad; delete v; if (fm->bad != b0) _exit(9); })) out = "ub";
                    else
                    {
                        delete s.bvec; s.bvec = new BVec(*s.fm);
                        std::cout << tail(s, out, "destroyed") << "\n";
                        continue;
                    }
                }
                else if (b == "pop" && s.bvec->empty()) out = "ub";
                else
                {
                    // while the refusal is still pending the operation may unwind through a temporary's destructor:
                    // run it in a child first, so that a crash / stale free there is a reply and not the end of the harness
                    State* sp = &s;
                    bool pending = s.fm->failAt > s.fm->reqs;
                    if (pending && !survives([sp, b, x, y]() { long b0 = sp->fm->bad; try { doBv(*sp, b, x, y); } catch (const Refused&) {} if (sp->fm->bad != b0) _exit(9); }))
                        out = "ub";
                    else if (!doBv(s, b, x, y)) out = "bad";
                }
                if (out == "ub") dead = true;
                std::cout << tail(s, out, showBVec(s)) << "\n";
            }
            else if (a == "d")
            {
                if (b == "new") { s.deque = new LDeque(*s.fm, 0, size_t(x)); }
                else if (s.deque == 0) { std::cout << "bad\n"; continue; }
                else if (b == "push") { if (dequeLastNull(s)) out = dequeNullIsFatal(s) ? "ub" : "null-survived"; else s.deque->push_back(x); }
                else if (b == "size")
                {
                    if (dequeLastNull(s)) out = dequeNullIsFatal(s) ? "ub" : "null-survived";
                    else { std::ostringstream o; o << "size=" << s.deque->size(); std::cout << tail(s, out, o.str()) << "\n"; continue; }
                }
                else if (b == "destroy")
                {
                    delete s.deque; s.deque = 0;
                    std::cout << tail(s, out, "destroyed") << "\n";
                    continue;
                }
                else out = "bad";
                if (out == "ub") dead = true;
                std::cout << tail(s, out, showDeque(s)) << "\n";
            }
            else if (a == "a")
            {
                bool full = false;
                if (b == "new")
                {
                    s.arena = 0; s.isObj.clear();
                    s.arena = RBlock::create(*s.fm, size_t(x));
                    s.isObj.assign(size_t(x), false);
                }
                else if (s.arena == 0) { std::cout << "bad\n"; continue; }
                else if (b == "create")
                {
                    Boxed* p = s.arena->allocateBlock();
                    if (p == 0) full = true;
                    else
                    {
                        new (p) Boxed(x, *s.fm);                 // may throw: the slot stays uncommitted
                        s.arena->commitAllocation(p);
                        s.isObj[size_t(p - PeekBlock::base(*s.arena))] = true;
                    }
                }
                else if (b == "destroy")
                {
                    if (x < 0 || size_t(x) >= s.isObj.size() || !s.isObj[size_t(x)]) out = "ub";
                    else { s.arena->destroyObject(PeekBlock::base(*s.arena) + x); s.isObj[size_t(x)] = false; }
                }
                else if (b == "free")
                {
                    RBlock* blk = s.arena; FaultManager* fm = s.fm;
                    // a destructor run on a slot that holds no object either crashes or frees a stale pointer: both are `ub`
                    if (!survives([blk, fm]() { long b0 = fm->bad; XalanDestroy(*fm, blk); if (fm->bad != b0) _exit(9); })) out = "ub";
                    else
                    {
                        XalanDestroy(*s.fm, s.arena); s.arena = 0; s.isObj.clear();
                        std::cout << tail(s, out, "destroyed") << "\n";
                        continue;
                    }
                }
                else out = "bad";
                if (out == "ub") dead = true;
                std::cout << tail(s, out, showArena(s, full)) << "\n";
            }
            else std::cout << "bad\n";
        }
        catch (const Refused&)
        {
            std::cout << tail(s, "oom", a == "l" ? showList(s) : a == "a" ? (s.arena ? showArena(s, false) : std::string("none")) : a == "d" ? showDeque(s) : a == "bv" ? showBVec(s) : a == "ra" ? (s.ra ? showRA(s) : std::string("")) : a == "ap" ? showAP(s) : a == "aa" ? showAA(s) : a == "m" ? (s.map ? showMap(s) : std::string("")) : a == "mb" ? (s.bmap ? showBMap(s) : std::string("")) : showVec(s)) << "\n";
        }
    }
    return 0;
}
