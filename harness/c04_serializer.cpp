// C04 correspondence harness: replays SAX event scripts into the real XML serializers of the working
// tree (XalanXMLSerializerFactory products = FormatterToXMLUnicode<...>, and the legacy FormatterToXML),
// captures the bytes delivered to the XalanOutputStream, and parses them back with Xerces (SAX2).
//
// Request (one per line):   doc <U|L> <encoding> <1.0|1.1> <event>...
//                    or:    stream <encoding> <hex run>...          (XalanOutputStream alone: write(run) ..., flush())
//                    or:    docx <U|L> <encoding> <1.0|1.1> decl=<0|1>,sa=<hex>,sys=<hex>,pub=<hex>[,ind=<n>] <event>...
//   events (single words; strings are lower-case hex of UTF-16 code units, "-" = empty):
//     s:<name>[:<attrname>=<attrvalue>]*   startElement
//     e:<name>                             endElement
//     t:<chars>[:<tail>]                   characters(buf, len(chars)); buf = chars ++ tail (NOT NUL-terminated at len)
//     c:<chars>[:<tail>]                   cdata(buf, len(chars))
//     r:<chars>                            charactersRaw
//     m:<data>                             comment
//     p:<target>:<data>                    processingInstruction
// Reply:  ok <hex of output bytes> <sizes of the writeData calls> | <parse>      or     err <kind> <hex of bytes written before the error>
//   <parse> = "wf" followed by canonical events of the Xerces re-parse (s:/e:/t:/m:/p: as above, adjacent
//   text merged), or "notwf <message>" when Xerces rejects the bytes.
#include <xalanc/Include/PlatformDefinitions.hpp>
#include <xercesc/util/PlatformUtils.hpp>
#include <xercesc/sax2/SAX2XMLReader.hpp>
#include <xercesc/sax2/XMLReaderFactory.hpp>
#include <xercesc/sax2/DefaultHandler.hpp>
#include <xercesc/sax2/Attributes.hpp>
#include <xercesc/sax/SAXParseException.hpp>
#include <xercesc/sax/SAXException.hpp>
#include <xercesc/framework/MemBufInputSource.hpp>
#include <xercesc/util/XMLUni.hpp>

#include <xalanc/XalanTransformer/XalanTransformer.hpp>
#include <xalanc/PlatformSupport/XalanOutputStream.hpp>
#include <xalanc/PlatformSupport/XalanOutputStreamPrintWriter.hpp>
#include <xalanc/PlatformSupport/AttributeListImpl.hpp>
#include <xalanc/PlatformSupport/XalanTranscodingServices.hpp>
#include <xalanc/PlatformSupport/XSLException.hpp>
#include <xalanc/XMLSupport/XalanXMLSerializerFactory.hpp>
#include <xalanc/XMLSupport/FormatterToXML.hpp>
#include <xalanc/XalanDOM/XalanDOMString.hpp>

#include <cstdio>
#include <cstdlib>
#include <iostream>
#include <sstream>
#include <string>
#include <vector>

using namespace xalanc;
using namespace xercesc;

typedef std::vector<XalanDOMChar> UStr;

class CaptureStream : public XalanOutputStream
{
public:
    std::string bytes;
    std::string sizes;       // comma separated lengths of the non-empty writeData calls
    CaptureStream(MemoryManager& m) : XalanOutputStream(m) {}
protected:
    void writeData(const char* b, size_type n) override
    {
        bytes.append(b, n);
        if (n != 0) { if (!sizes.empty()) sizes += ","; sizes += std::to_string(n); }
    }
    void doFlush() override {}
};

static int hexv(char c)
{
    if (c >= '0' && c <= '9') return c - '0';
    if (c >= 'a' && c <= 'f') return c - 'a' + 10;
    if (c >= 'A' && c <= 'F') return c - 'A' + 10;
    return -1;
}

static bool unhex(const std::string& s, UStr& out)
{
    out.clear();
    if (s == "-") return true;
    if (s.size() % 4) return false;
    for (size_t i = 0; i < s.size(); i += 4)
    {
        int v = 0;
        for (int k = 0; k < 4; ++k) { int d = hexv(s[i + k]); if (d < 0) return false; v = v * 16 + d; }
        out.push_back(XalanDOMChar(v));
    }
    return true;
}

static std::string hexUnits(const XMLCh* p, size_t n)
{
    if (n == 0) return "-";
    static const char* d = "0123456789abcdef";
    std::string r;
    for (size_t i = 0; i < n; ++i) { unsigned v = p[i]; r += d[(v >> 12) & 15]; r += d[(v >> 8) & 15]; r += d[(v >> 4) & 15]; r += d[v & 15]; }
    return r;
}

static std::string hexUnits(const XMLCh* p) { size_t n = 0; while (p[n]) ++n; return hexUnits(p, n); }

static std::string hexBytes(const std::string& b)
{
    if (b.empty()) return "-";
    static const char* d = "0123456789abcdef";
    std::string r;
    for (unsigned char c : b) { r += d[c >> 4]; r += d[c & 15]; }
    return r;
}

static std::vector<std::string> split(const std::string& s, char sep)
{
    std::vector<std::string> r;
    size_t a = 0;
    for (;;)
    {
        size_t b = s.find(sep, a);
        if (b == std::string::npos) { r.push_back(s.substr(a)); break; }
        r.push_back(s.substr(a, b - a));
        a = b + 1;
    }
    return r;
}

// ---- re-parse with Xerces
class Canon : public DefaultHandler
{
public:
    std::string out;
    UStr text;
    void flushText() { if (!text.empty()) { out += " t:" + hexUnits(&text[0], text.size()); text.clear(); } }
    void startElement(const XMLCh* const, const XMLCh* const, const XMLCh* const qname, const Attributes& a) override
    {
        flushText();
        out += " s:" + hexUnits(qname);
        for (XMLSize_t i = 0; i < a.getLength(); ++i)
            out += ":" + hexUnits(a.getQName(i)) + "=" + hexUnits(a.getValue(i));
    }
    void endElement(const XMLCh* const, const XMLCh* const, const XMLCh* const qname) override
    {
        flushText();
        out += " e:" + hexUnits(qname);
    }
    void characters(const XMLCh* const c, const XMLSize_t n) override { text.insert(text.end(), c, c + n); }
    void ignorableWhitespace(const XMLCh* const c, const XMLSize_t n) override { text.insert(text.end(), c, c + n); }
    void comment(const XMLCh* const c, const XMLSize_t n) override { flushText(); out += " m:" + hexUnits(c, n); }
    void processingInstruction(const XMLCh* const t, const XMLCh* const d) override
    {
        flushText();
        out += " p:" + hexUnits(t) + ":" + hexUnits(d);
    }
    std::string err;
    void fatalError(const SAXParseException& e) override
    {
        if (err.empty())
        {
            char* m = XMLString::transcode(e.getMessage());
            std::ostringstream o;
            o << "line " << e.getLineNumber() << " col " << e.getColumnNumber() << ": " << m;
            err = o.str();
            XMLString::release(&m);
        }
        throw e;
    }
    void error(const SAXParseException& e) override { fatalError(e); }
};

static std::string reparse(const std::string& bytes)
{
    Canon h;
    SAX2XMLReader* p = XMLReaderFactory::createXMLReader();
    p->setFeature(XMLUni::fgSAX2CoreNameSpaces, true);
    p->setFeature(XMLUni::fgSAX2CoreNameSpacePrefixes, true);
    p->setFeature(XMLUni::fgSAX2CoreValidation, false);
    p->setFeature(XMLUni::fgXercesLoadExternalDTD, false);
    p->setContentHandler(&h);
    p->setLexicalHandler(&h);
    p->setErrorHandler(&h);
    std::string res;
    try
    {
        MemBufInputSource src(reinterpret_cast<const XMLByte*>(bytes.data()), bytes.size(), "c04");
        p->parse(src);
        h.flushText();
        res = "wf" + h.out;
    }
    catch (const SAXParseException&)
    {
        res = "notwf " + h.err;
    }
    catch (const XMLException& e)
    {
        char* m = XMLString::transcode(e.getMessage());
        res = std::string("notwf xmlexception ") + m;
        XMLString::release(&m);
    }
    catch (...)
    {
        res = "notwf unknown-exception";
    }
    delete p;
    for (char& c : res) if (c == '\n' || c == '\r') c = ' ';
    return res;
}

static XalanDOMString mk(const char* s, MemoryManager& m)
{
    XalanDOMString r(m);
    for (const char* p = s; *p; ++p) r.push_back(XalanDOMChar(*p));
    return r;
}

static UStr z(const UStr& u) { UStr r(u); r.push_back(0); return r; }

static std::string run(const std::vector<std::string>& w)
{
    MemoryManager& mm = XalanMemMgrs::getDefaultXercesMemMgr();
    if (w.size() < 4) return "bad";
    const std::string kind = w[1], enc = w[2], ver = w[3];
    // docx: w[4] = "decl=0|1,sa=<hex>,sys=<hex>,pub=<hex>" (XML declaration, standalone, doctype-system, doctype-public)
    const bool extended = w[0] == "docx";
    bool xmlDecl = true;
    bool doIndent = false;
    int indentAmount = 0;
    UStr uSa, uSys, uPub;
    if (extended)
    {
        if (w.size() < 5) return "bad";
        std::vector<std::string> kvs = split(w[4], ',');
        for (size_t q = 0; q < kvs.size(); ++q)
        {
            std::vector<std::string> kv = split(kvs[q], '=');
            if (kv.size() != 2) return "bad";
            if (kv[0] == "decl") xmlDecl = kv[1] == "1";
            else if (kv[0] == "sa") { if (!unhex(kv[1], uSa)) return "bad"; }
            else if (kv[0] == "sys") { if (!unhex(kv[1], uSys)) return "bad"; }
            else if (kv[0] == "pub") { if (!unhex(kv[1], uPub)) return "bad"; }
            else if (kv[0] == "ind") { doIndent = true; indentAmount = std::atoi(kv[1].c_str()); }
            else return "bad";
        }
    }
    const size_t firstEvent = extended ? 5 : 4;
    CaptureStream stream(mm);
    XalanOutputStreamPrintWriter writer(stream);
    FormatterListener* fl = 0;
    const XalanDOMString empty(mm);
    const XalanDOMString version = mk(ver.c_str(), mm);
    const XalanDOMString encoding = mk(enc.c_str(), mm);
    XalanDOMString standalone(mm), dtSystem(mm), dtPublic(mm);
    for (size_t q = 0; q < uSa.size(); ++q) standalone.push_back(uSa[q]);
    for (size_t q = 0; q < uSys.size(); ++q) dtSystem.push_back(uSys[q]);
    for (size_t q = 0; q < uPub.size(); ++q) dtPublic.push_back(uPub[q]);
    std::string status = "ok";
    bool legacy = false;
    try
    {
        if (kind == "U")
        {
            fl = XalanXMLSerializerFactory::create(mm, writer, version, doIndent, indentAmount, encoding, empty, dtSystem, dtPublic, xmlDecl, standalone);
        }
        else if (kind == "L")
        {
            legacy = true;
            fl = FormatterToXML::create(mm, writer, version, doIndent, indentAmount, encoding, empty, dtSystem, dtPublic, xmlDecl, standalone);
        }
        else return "bad";
        fl->startDocument();
        for (size_t k = firstEvent; k < w.size(); ++k)
        {
            const std::string& ev = w[k];
            if (ev.size() < 2 || ev[1] != ':') { status = "bad"; break; }
            std::vector<std::string> f = split(ev.substr(2), ':');
            UStr a, b;
            switch (ev[0])
            {
            case 's':
            {
                if (!unhex(f[0], a)) { status = "bad"; break; }
                AttributeListImpl attrs(mm);
                static const XMLCh cdataType[] = { 'C', 'D', 'A', 'T', 'A', 0 };
                for (size_t j = 1; j < f.size(); ++j)
                {
                    std::vector<std::string> nv = split(f[j], '=');
                    UStr n, v;
                    if (nv.size() != 2 || !unhex(nv[0], n) || !unhex(nv[1], v)) { status = "bad"; break; }
                    attrs.addAttribute(&z(n)[0], cdataType, &z(v)[0]);
                }
                fl->startElement(&z(a)[0], attrs);
                break;
            }
            case 'e':
                if (!unhex(f[0], a)) { status = "bad"; break; }
                fl->endElement(&z(a)[0]);
                break;
            case 't': case 'c': case 'r':
            {
                if (!unhex(f[0], a)) { status = "bad"; break; }
                const size_t n = a.size();
                if (f.size() > 1) { if (!unhex(f[1], b)) { status = "bad"; break; } a.insert(a.end(), b.begin(), b.end()); }
                else a.push_back(0);
                // exact-size heap copy so that a read past the supplied buffer is seen by ASan
                XalanDOMChar* buf = new XalanDOMChar[a.size()];
                for (size_t j = 0; j < a.size(); ++j) buf[j] = a[j];
                try
                {
                    if (ev[0] == 't') fl->characters(buf, n);
                    else if (ev[0] == 'c') fl->cdata(buf, n);
                    else fl->charactersRaw(buf, n);
                }
                catch (...) { delete[] buf; throw; }
                delete[] buf;
                break;
            }
            case 'm':
                if (!unhex(f[0], a)) { status = "bad"; break; }
                fl->comment(&z(a)[0]);
                break;
            case 'p':
                if (f.size() != 2 || !unhex(f[0], a) || !unhex(f[1], b)) { status = "bad"; break; }
                fl->processingInstruction(&z(a)[0], &z(b)[0]);
                break;
            default:
                status = "bad";
            }
            if (status != "ok") break;
        }
        if (status == "ok") fl->endDocument();
    }
    catch (const XalanTranscodingServices::UnrepresentableCharacterException&) { status = "err unrep"; }
    catch (const XalanOutputStream::TranscodingException&) { status = "err transcode"; }
    catch (const XalanOutputStream::XalanOutputStreamException&) { status = "err stream"; }
    catch (const XSLException&) { status = "err xsl"; }
    catch (const SAXException& e)
    {
        // classify by message: forbidden XML character / invalid surrogate / invalid scalar
        char* m = XMLString::transcode(e.getMessage());
        std::string s(m ? m : "");
        XMLString::release(&m);
        if (s.find("urrogate") != std::string::npos) status = "err surrogate";
        else if (s.find("not allowed") != std::string::npos || s.find("orbidden") != std::string::npos || s.find("not a legal XML") != std::string::npos) status = "err forbidden";
        else status = "err sax[" + s + "]";
    }
    catch (const XMLException&) { status = "err xmlexception"; }
    catch (...) { status = "err unknown"; }
    if (fl)
    {
        if (legacy) { static_cast<FormatterToXML*>(fl)->~FormatterToXML(); mm.deallocate(fl); }
        else { fl->~FormatterListener(); mm.deallocate(fl); }
    }
    if (status == "bad") return "bad";
    if (status != "ok") return status + " " + hexBytes(stream.bytes);
    return "ok " + hexBytes(stream.bytes) + " " + (stream.sizes.empty() ? std::string("-") : stream.sizes) + " | " + reparse(stream.bytes);
}

// stream <encoding> <hex run>...: the stream layer alone - XalanOutputStream::write(const XalanDOMChar*, n) for every
// run (the runs may cut a surrogate pair anywhere, as FormatterToXML's own buffer does), then flush()
static std::string runStream(const std::vector<std::string>& w)
{
    MemoryManager& mm = XalanMemMgrs::getDefaultXercesMemMgr();
    if (w.size() < 2) return "bad";
    CaptureStream stream(mm);
    std::string status = "ok";
    try
    {
        stream.setOutputEncoding(mk(w[1].c_str(), mm));
        stream.setThrowTranscodeException(true);
        for (size_t k = 2; k < w.size(); ++k)
        {
            UStr a;
            if (!unhex(w[k], a)) return "bad";
            // exact-size heap copy: a read past the run is seen by ASan
            XalanDOMChar* buf = new XalanDOMChar[a.size() + 1];
            for (size_t j = 0; j < a.size(); ++j) buf[j] = a[j];
            try { stream.write(buf, XalanOutputStream::size_type(a.size())); }
            catch (...) { delete[] buf; throw; }
            delete[] buf;
        }
        stream.flush();
    }
    catch (const XalanOutputStream::TranscodingException&) { status = "err transcode"; }
    catch (const XalanOutputStream::XalanOutputStreamException&) { status = "err stream"; }
    catch (const XSLException&) { status = "err xsl"; }
    catch (...) { status = "err unknown"; }
    if (status != "ok") return status + " " + hexBytes(stream.bytes);
    return "ok " + hexBytes(stream.bytes) + " " + (stream.sizes.empty() ? std::string("-") : stream.sizes);
}

int main()
{
    XMLPlatformUtils::Initialize();
    XalanTransformer::initialize();
    {
        std::string line;
        while (std::getline(std::cin, line))
        {
            std::istringstream in(line);
            std::vector<std::string> w;
            std::string t;
            while (in >> t) w.push_back(t);
            if (!w.empty() && w[0] == "stream") { std::cout << runStream(w) << "\n"; continue; }
            if (w.empty() || (w[0] != "doc" && w[0] != "docx")) { std::cout << "bad\n"; continue; }
            std::cout << run(w) << "\n";
        }
        std::cout.flush();
    }
    XalanTransformer::terminate();
    XMLPlatformUtils::Terminate();
    return 0;
}
