// C16 harness: runs generated stylesheets with xsl:sort through the real XalanTransformer (one instance,
// reused for every request so that the execution context's single NodeSorter and its caches are reused).
//
// Request lines (shared with lean/Driver/C16.lean):
//   sort <keys> <n> <vals> <xml-hex> <xsl-hex>
//   sortu <keys> <n> <vals> <matrix> <xml-hex> <xsl-hex>          (same, text values are indices into a string table)
//   coll <case-order 0|1|2> <lang|-> <utf16-hex>...                collation matrix of the strings for ONE xsl:sort's
//                                                                  (lang, case-order), computed with a fresh ICU collator
//                                                                  (not through Xalan's bridge); reply `mat <signs row-major>`
// Reply:
//   res rc=<int> probes=<k:id:count,...|-> out=<result text, '\n' -> "\\n">      (rc 0)
//   err rc=<int> msg=<last error, one line>
// The extension function {urn:verif:c16}probe(k, id, v) returns v unchanged and counts the calls per
// (k, id): it makes the number of key evaluations observable (cache model validation only).
#include <cstdio>
#include <cstring>
#include <iostream>
#include <map>
#include <sstream>
#include <string>
#include <vector>

#include <xercesc/util/PlatformUtils.hpp>

#include <xalanc/Include/PlatformDefinitions.hpp>
#include <xalanc/XalanTransformer/XalanTransformer.hpp>
#include <cstdlib>
#include <unicode/coll.h>
#include <unicode/locid.h>
#include <unicode/uloc.h>
#include <xalanc/XPath/Function.hpp>
#include <xalanc/XPath/XObjectFactory.hpp>
#include <xalanc/XSLT/XSLTInputSource.hpp>
#include <xalanc/XSLT/XSLTResultTarget.hpp>

using namespace xalanc;

static std::map<std::pair<long, std::string>, int> g_probes;

static std::string narrow(const XalanDOMString& s)
{
    std::string r;
    for (XalanDOMString::size_type i = 0; i < s.length(); ++i)
    {
        r.push_back(s[i] < 128 ? char(s[i]) : '?');
    }
    return r;
}

class FunctionProbe : public Function
{
public:
    explicit FunctionProbe(bool count = true) : m_count(count) {}
    bool m_count;
    virtual XObjectPtr
    execute(
            XPathExecutionContext&          executionContext,
            XalanNode*                      context,
            const XObjectArgVectorType&     args,
            const Locator*                  locator) const
    {
        if (args.size() != 3)
        {
            generalError(executionContext, context, locator);
        }
        if (m_count)
        {
            const long k = long(args[0]->num(executionContext));
            const std::string id = narrow(args[1]->str(executionContext));
            ++g_probes[std::make_pair(k, id)];
        }
        return args[2];
    }

    using Function::execute;

    virtual FunctionProbe*
    clone(MemoryManager& theManager) const
    {
        return XalanCopyConstruct(theManager, *this);
    }

protected:
    const XalanDOMString&
    getError(XalanDOMString& theResult) const
    {
        theResult.assign("probe() takes three arguments");
        return theResult;
    }
};

// {urn:verif:c16}boom(x): a key expression that raises a run-time error the moment it is evaluated
class FunctionBoom : public Function
{
public:
    virtual XObjectPtr
    execute(
            XPathExecutionContext&          executionContext,
            XalanNode*                      context,
            const XObjectArgVectorType&     /* args */,
            const Locator*                  locator) const
    {
        generalError(executionContext, context, locator);
        return XObjectPtr();
    }

    using Function::execute;

    virtual FunctionBoom*
    clone(MemoryManager& theManager) const
    {
        return XalanCopyConstruct(theManager, *this);
    }

protected:
    const XalanDOMString&
    getError(XalanDOMString& theResult) const
    {
        theResult.assign("boom() was evaluated");
        return theResult;
    }
};

// {urn:verif:c16}bits(x): the IEEE-754 bit pattern of number(x) as 16 hex digits (exact observation of the value a
// data-type="number" sort key has; number->string printing would lose -0 and round)
class FunctionBits : public Function
{
public:
    virtual XObjectPtr
    execute(
            XPathExecutionContext&          executionContext,
            XalanNode*                      context,
            const XObjectArgVectorType&     args,
            const Locator*                  locator) const
    {
        if (args.size() != 1)
        {
            generalError(executionContext, context, locator);
        }
        const double d = args[0]->num(executionContext);
        unsigned long long u;
        std::memcpy(&u, &d, sizeof u);
        char buf[32];
        std::snprintf(buf, sizeof buf, "%016llx", u);
        return executionContext.getXObjectFactory().createString(XalanDOMString(buf));
    }

    using Function::execute;

    virtual FunctionBits*
    clone(MemoryManager& theManager) const
    {
        return XalanCopyConstruct(theManager, *this);
    }

protected:
    const XalanDOMString&
    getError(XalanDOMString& theResult) const
    {
        theResult.assign("bits() takes one argument");
        return theResult;
    }
};

static bool unhex(const std::string& h, std::string& out)
{
    if (h.size() % 2) return false;
    out.clear();
    for (size_t i = 0; i < h.size(); i += 2)
    {
        unsigned v;
        if (std::sscanf(h.substr(i, 2).c_str(), "%2x", &v) != 1) return false;
        out.push_back(char(v));
    }
    return true;
}

static std::string oneline(const std::string& s)
{
    std::string r;
    for (char c : s)
    {
        if (c == '\n') r += "\\n";
        else if (c == '\r') r += "\\r";
        else r.push_back(c);
    }
    return r;
}

int main()
{
    xercesc::XMLPlatformUtils::Initialize();
    XalanTransformer::initialize();
    {
        XalanTransformer transformer;
        transformer.installExternalFunction(XalanDOMString("urn:verif:c16"), XalanDOMString("probe"), FunctionProbe());
        transformer.installExternalFunction(XalanDOMString("urn:verif:c16"), XalanDOMString("noprobe"), FunctionProbe(false));
        transformer.installExternalFunction(XalanDOMString("urn:verif:c16"), XalanDOMString("boom"), FunctionBoom());
        transformer.installExternalFunction(XalanDOMString("urn:verif:c16"), XalanDOMString("bits"), FunctionBits());
        std::ostringstream warnings;
        transformer.setWarningStream(&warnings);

        std::string line;
        while (std::getline(std::cin, line))
        {
            std::vector<std::string> w;
            {
                std::istringstream is(line);
                std::string t;
                while (is >> t) w.push_back(t);
            }
            if (!w.empty() && w[0] == "coll" && w.size() >= 3)
            {
                std::vector<XalanDOMString> strs;
                bool ok = true;
                for (size_t i = 3; i < w.size() && ok; ++i)
                {
                    XalanDOMString str;
                    if (w[i] != "-")
                    {
                        if (w[i].size() % 4) { ok = false; break; }
                        for (size_t j = 0; j < w[i].size(); j += 4)
                        {
                            unsigned v;
                            if (std::sscanf(w[i].substr(j, 4).c_str(), "%4x", &v) != 1) { ok = false; break; }
                            str.push_back(XalanDOMChar(v));
                        }
                    }
                    strs.push_back(str);
                }
                if (!ok) { std::cout << "bad-request" << std::endl; continue; }
                // The oracle is ICU itself, not Xalan's bridge: a fresh collator for exactly this (lang, case-order),
                // as the XSLT Recommendation describes the attributes of ONE xsl:sort.  lang "-" = the process default
                // (LANG, as ICUBridgeCollationCompareFunctorImpl's constructor takes it).
                if (w[2].size() >= ULOC_FULLNAME_CAPACITY)
                {
                    // ICU is never asked: the bridge's createCollator() refuses such a name and the comparison falls
                    // back to UTF-16 code-unit order (model: collateF / Comparer.codeUnits)
                    std::cout << "mat ";
                    for (size_t i = 0; i < strs.size(); ++i)
                    {
                        for (size_t j = 0; j < strs.size(); ++j)
                        {
                            int r = 0;
                            const XalanDOMString& a = strs[i];
                            const XalanDOMString& b = strs[j];
                            XalanDOMString::size_type k = 0;
                            while (k < a.length() && k < b.length() && a[k] == b[k]) ++k;
                            if (k < a.length() && k < b.length()) r = a[k] < b[k] ? -1 : 1;
                            else r = a.length() < b.length() ? -1 : a.length() > b.length() ? 1 : 0;
                            std::cout << (r < 0 ? '-' : r > 0 ? '+' : '0');
                        }
                    }
                    std::cout << std::endl;
                    continue;
                }
                UErrorCode status = U_ZERO_ERROR;
                const char* const envLang = std::getenv("LANG");
                const icu::Locale loc = w[2] == "-" ? (envLang ? icu::Locale(envLang) : icu::Locale::getDefault())
                                                    : icu::Locale::createFromName(w[2].c_str());
                icu::Collator* const coll = icu::Collator::createInstance(loc, status);
                if (U_FAILURE(status) || coll == 0) { std::cout << "bad-request" << std::endl; continue; }
                coll->setAttribute(UCOL_CASE_FIRST,
                                   w[1] == "1" ? UCOL_UPPER_FIRST : w[1] == "2" ? UCOL_LOWER_FIRST : UCOL_DEFAULT, status);
                std::cout << "mat ";
                for (size_t i = 0; i < strs.size(); ++i)
                {
                    for (size_t j = 0; j < strs.size(); ++j)
                    {
                        const int r = coll->compare(
                            reinterpret_cast<const UChar*>(strs[i].c_str()), int32_t(strs[i].length()),
                            reinterpret_cast<const UChar*>(strs[j].c_str()), int32_t(strs[j].length()));
                        std::cout << (r < 0 ? '-' : r > 0 ? '+' : '0');
                    }
                }
                delete coll;
                std::cout << std::endl;
                continue;
            }
            const size_t base = (!w.empty() && w[0] == "sortu") ? 5 : 4;
            if (w.size() < base + 2 || (w[0] != "sort" && w[0] != "sortu"))
            {
                std::cout << "bad-request" << std::endl;
                continue;
            }
            std::string xml, xsl;
            if (!unhex(w[base], xml) || !unhex(w[base + 1], xsl))
            {
                std::cout << "bad-request" << std::endl;
                continue;
            }
            g_probes.clear();
            std::istringstream xmlStream(xml), xslStream(xsl);
            std::ostringstream out;
            XSLTInputSource in(xmlStream), ss(xslStream);
            XSLTResultTarget target(out);
            const int rc = transformer.transform(in, ss, target);
            if (rc != 0)
            {
                std::cout << "err rc=" << rc << " msg=" << oneline(transformer.getLastError()) << std::endl;
                continue;
            }
            std::cout << "res rc=0 probes=";
            if (g_probes.empty()) std::cout << "-";
            bool first = true;
            for (const auto& p : g_probes)
            {
                if (!first) std::cout << ",";
                first = false;
                std::cout << p.first.first << ":" << p.first.second << ":" << p.second;
            }
            std::cout << " out=" << oneline(out.str()) << std::endl;
        }
    }
    XalanTransformer::terminate();
    xercesc::XMLPlatformUtils::Terminate();
    XalanTransformer::ICUCleanUp();
    return 0;
}
