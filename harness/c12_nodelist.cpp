// C12 correspondence harness: node lists, document order and unions on the real library.
//
// Reads request lines on stdin, one reply line per request on stdout (see lean/Driver/C12.lean for
// the model side of the same protocol).
//
//   session S|W|N            drop all documents and lists; choose the document representation for
//                            the documents that follow: S = XalanSourceTree (XalanSourceTreeParserLiaison),
//                            W = Xerces DOM wrapped by XercesDocumentWrapper with buildWrapper=true (indexed),
//                            N = the same with buildWrapper=false (not indexed: structural isNodeAfter)
//   doc <d> <shape>          build document d from a shape  (grammar: node := ('e'|'E') digit '(' node* ')' | 't' | 'c' | 'p' — 'E' adds an xmlns:p1 declaration;
//                            the document is the sequence of top-level nodes); reply describes what a
//                            structural pre-order walk of the *real* tree sees and how the stored
//                            indexes relate to it
//   xmldoc <d> <hex> [r]     document from XML text (DOCTYPE, entities, CDATA …); identity <d>: every node reached by several
//                            navigation routes is one object; nodesets <d>: whole-document node-sets are sets, in walk order
//   build <d> F|D|B <events> drive FormatterToSourceTree / XalanSourceTreeContentHandler with an event sequence and compare
//                            the stored indexes with the structural walk of the tree built (see doBuild)
//   after <n1> <n2>          XPathExecutionContext::isNodeAfter(n1, n2)        -> 0 | 1
//   afterall <d>             isNodeAfter for all ordered pairs of non-document nodes of d -> bit string
//   new <l>                  MutableNodeRefList::clear
//   add <l> <n>              addNode
//   addo <l> <n>             addNodeInDocOrder
//   addso <l> <src>          addNodesInDocOrder(const MutableNodeRefList&)   (trusts the order flag of src)
//   addsb <l> <src>          addNodesInDocOrder(const NodeRefListBase&)
//   addsx <l> <src>          addNodesInDocOrder(const XalanNodeList&)   (through a XalanNodeList adapter)
//   order <l> u|d|r          setUnknownOrder / setDocumentOrder / setReverseDocumentOrder
//   reverse <l>              reverse
//   (positions are taken modulo the current length, so that a request is valid whatever came before;
//    the ordered-insert family answers "bad nulls" instead of running on a list holding a null entry,
//    which the C++ only guards by assert)
//   setnull <l> <pos>        setNode(pos, 0)
//   clearnulls <l>           clearNulls
//   ins <l> <n> <pos>        insertNode
//   rm <l> <pos>             removeNode(pos)
//   rmn <l> <n>              removeNode(node)
//   swap <l> <l2>            swap
//   copy <l> <src>           operator=(const MutableNodeRefList&)
//   copyb <l> <src>          operator=(const NodeRefListBase&)
//   variant <edge> <docnode> (for the model only; replies ok)
//   axis <n> <axis-name>     XPathEvaluator::selectNodeList(context n, "<axis-name>::node()")
//   axisp <n> <axis-name> <k> … "<axis-name>::node()[k]"
//   xp <n> <expr>            XPathEvaluator::selectNodeList(context n, expr)  (expr has no blanks)
//   xpu <n> <expr> ; ...     same; everything after " ;" is for the model only
// Nodes are written d<doc>.<pre> (pre = position in the structural pre-order walk, 0 = the document node).
// Reply of a list operation:  "<u|d|r> :" followed by the nodes (0 for a null entry).
#include <xalanc/Include/PlatformDefinitions.hpp>

#include <xercesc/util/PlatformUtils.hpp>
#include <xercesc/framework/MemBufInputSource.hpp>
#include <xercesc/parsers/XercesDOMParser.hpp>
#include <xercesc/dom/DOM.hpp>
#include <xercesc/sax/SAXException.hpp>
#include <xercesc/util/XMLException.hpp>

#include <xalanc/XalanDOM/XalanNode.hpp>
#include <xalanc/XalanDOM/XalanDocument.hpp>
#include <xalanc/XalanDOM/XalanNamedNodeMap.hpp>
#include <xalanc/XalanDOM/XalanNodeList.hpp>
#include <xalanc/PlatformSupport/XSLException.hpp>
#include <xalanc/DOMSupport/DOMServices.hpp>
#include <xalanc/DOMSupport/XalanDocumentPrefixResolver.hpp>
#include <xalanc/PlatformSupport/PrefixResolver.hpp>
#include <xalanc/XPath/XObject.hpp>
#include <xalanc/XPath/XObjectFactoryDefault.hpp>
#include <xalanc/XPath/XPathEnvSupportDefault.hpp>
#include <xalanc/XPath/XPathExecutionContextDefault.hpp>
#include <xalanc/XPath/XPathEvaluator.hpp>
#include <xalanc/XPath/MutableNodeRefList.hpp>
#include <xalanc/XPath/NodeRefList.hpp>
#include <xalanc/XalanSourceTree/XalanSourceTreeDOMSupport.hpp>
#include <xalanc/XalanSourceTree/XalanSourceTreeParserLiaison.hpp>
#include <xalanc/XercesParserLiaison/XercesDOMSupport.hpp>
#include <xalanc/XercesParserLiaison/XercesParserLiaison.hpp>
#include <xalanc/XalanTransformer/XalanTransformer.hpp>
#include <xalanc/XalanSourceTree/XalanSourceTreeDocument.hpp>
#include <xalanc/XalanSourceTree/XalanSourceTreeDocumentFragment.hpp>
#include <xalanc/XalanSourceTree/XalanSourceTreeContentHandler.hpp>
#include <xalanc/XalanSourceTree/FormatterToSourceTree.hpp>
#include <xalanc/PlatformSupport/AttributeListImpl.hpp>
#include <xalanc/PlatformSupport/AttributesImpl.hpp>

#include <cstdio>
#include <cstdlib>
#include <iostream>
#include <map>
#include <memory>
#include <sstream>
#include <string>
#include <vector>

using namespace xalanc;
using xercesc::MemBufInputSource;
using xercesc::XercesDOMParser;
using xercesc::XMLPlatformUtils;

// ---------------------------------------------------------------------------------------------
// shape -> XML text
static bool shapeToXml(const std::string& s, size_t& i, std::string& out, int depth)
{
    // sequence of nodes until ')' or end
    bool lastWasText = false;
    while (i < s.size() && s[i] != ')')
    {
        const char c = s[i];
        if (c == 'e' || c == 'E')
        {
            if (i + 2 >= s.size() + 0 || s[i + 1] < '0' || s[i + 1] > '9' || s[i + 2] != '(') return false;
            const int na = s[i + 1] - '0';
            i += 3;
            out += "<e";
            for (int k = 1; k <= na; ++k)
            {
                out += " a";
                out += char('0' + k);
                out += "=\"v\"";
            }
            if (c == 'E') out += " xmlns:p1=\"u\"";      // a namespace declaration: one more attribute node (sorts last)
            out += ">";
            if (!shapeToXml(s, i, out, depth + 1)) return false;
            if (i >= s.size() || s[i] != ')') return false;
            ++i;
            out += "</e>";
            lastWasText = false;
        }
        else if (c == 't')
        {
            if (depth == 0 || lastWasText) return false;   // no text at top level, no adjacent text nodes
            out += "x";
            ++i;
            lastWasText = true;
        }
        else if (c == 'd')
        {
            if (depth == 0) return false;       // a CDATA section: character data, its own DOM node in the Xerces DOM
            out += "<![CDATA[cd]]>";
            ++i;
            lastWasText = false;
        }
        else if (c == 'c')
        {
            out += "<!--c-->";
            ++i;
            lastWasText = false;
        }
        else if (c == 'p')
        {
            out += "<?p d?>";
            ++i;
            lastWasText = false;
        }
        else
        {
            return false;
        }
    }
    return true;
}

// ---------------------------------------------------------------------------------------------
struct DocInfo
{
    XalanDocument*              doc = 0;
    std::vector<XalanNode*>     nodes;      // pre-order walk (document, element, its attributes, its children ...)
    std::vector<int>            parent;     // pre-order number of getParentOfNode, -1 for the document
    std::string                 kinds;      // D e a t c p
    std::unique_ptr<XercesDOMParser> parser;
    std::unique_ptr<XalanSourceTreeDocument>            builtDoc;       // trees built from events (build request)
    std::unique_ptr<XalanSourceTreeDocumentFragment>    builtFragment;
};

struct Session
{
    char                                        rep = 'S';
    std::unique_ptr<XalanSourceTreeDOMSupport>      stDOMSupport;
    std::unique_ptr<XalanSourceTreeParserLiaison>   stLiaison;
    std::unique_ptr<XercesParserLiaison>            xLiaison;
    std::unique_ptr<XercesDOMSupport>               xDOMSupport;
    std::unique_ptr<XPathEnvSupportDefault>         envSupport;
    std::unique_ptr<XObjectFactoryDefault>          xobjectFactory;
    std::unique_ptr<XPathExecutionContextDefault>   context;
    std::unique_ptr<XPathEvaluator>                 evaluator;
    std::map<int, DocInfo>                          docs;
    std::map<const XalanNode*, std::pair<int,int> > ids;
    std::vector<std::unique_ptr<MutableNodeRefList> > lists;

    DOMSupport& domSupport()
    {
        if (rep == 'S') return *stDOMSupport;
        return *xDOMSupport;
    }
};

static std::unique_ptr<Session> g;

static void walk(Session& s, int d, DocInfo& di, XalanNode* n, int parentNo)
{
    const int me = int(di.nodes.size());
    di.nodes.push_back(n);
    di.parent.push_back(parentNo);
    s.ids[n] = std::make_pair(d, me);
    char k = '?';
    switch (n->getNodeType())
    {
    case XalanNode::DOCUMENT_NODE: k = 'D'; break;
    case XalanNode::DOCUMENT_FRAGMENT_NODE: k = 'F'; break;
    case XalanNode::ELEMENT_NODE: k = 'e'; break;
    case XalanNode::ATTRIBUTE_NODE: k = 'a'; break;
    case XalanNode::TEXT_NODE: k = 't'; break;
    case XalanNode::CDATA_SECTION_NODE: k = 'd'; break;
    case XalanNode::ENTITY_REFERENCE_NODE: k = 'r'; break;
    case XalanNode::DOCUMENT_TYPE_NODE: k = 'y'; break;
    case XalanNode::COMMENT_NODE: k = 'c'; break;
    case XalanNode::PROCESSING_INSTRUCTION_NODE: k = 'p'; break;
    default: break;
    }
    di.kinds += k;
    if (k == 'e')
    {
        const XalanNamedNodeMap* const  attrs = n->getAttributes();
        if (attrs != 0)
        {
            const XalanSize_t len = attrs->getLength();
            for (XalanSize_t i = 0; i < len; ++i)
            {
                XalanNode* const a = attrs->item(i);
                const int an = int(di.nodes.size());
                di.nodes.push_back(a);
                di.parent.push_back(me);
                di.kinds += 'a';
                s.ids[a] = std::make_pair(d, an);
            }
        }
    }
    for (XalanNode* c = n->getFirstChild(); c != 0; c = c->getNextSibling())
    {
        walk(s, d, di, c, me);
    }
}

static std::string nodeName(Session& s, const XalanNode* n)
{
    if (n == 0) return "0";
    std::map<const XalanNode*, std::pair<int,int> >::const_iterator i = s.ids.find(n);
    if (i == s.ids.end()) return "?";
    std::ostringstream o;
    o << "d" << i->second.first << "." << i->second.second;
    return o.str();
}

static XalanNode* parseNode(Session& s, const std::string& t)
{
    if (t.size() < 4 || t[0] != 'd') return 0;
    const size_t dot = t.find('.');
    if (dot == std::string::npos) return 0;
    const int d = atoi(t.substr(1, dot - 1).c_str());
    const int p = atoi(t.substr(dot + 1).c_str());
    std::map<int, DocInfo>::iterator i = s.docs.find(d);
    if (i == s.docs.end() || p < 0 || size_t(p) >= i->second.nodes.size()) return 0;
    return i->second.nodes[p];
}

static std::string showList(Session& s, const MutableNodeRefList& l)
{
    std::ostringstream o;
    o << (l.getDocumentOrder() ? "d" : l.getReverseDocumentOrder() ? "r" : "u") << " :";
    const NodeRefListBase::size_type n = l.getLength();
    for (NodeRefListBase::size_type i = 0; i < n; ++i)
    {
        o << " " << nodeName(s, l.item(i));
    }
    return o.str();
}

static bool hasNull(const MutableNodeRefList& l)
{
    for (NodeRefListBase::size_type i = 0; i < l.getLength(); ++i) if (l.item(i) == 0) return true;
    return false;
}

// Prefix resolver for the XPath requests: the document's own declarations plus the EXSLT/Xalan extension namespaces
// (the extension functions are installed globally by XalanTransformer::initialize()).
class HarnessPrefixResolver : public PrefixResolver
{
public:
    HarnessPrefixResolver(const XalanDocument* doc) :
        m_inner(doc), m_set("http://exslt.org/sets"), m_exsl("http://exslt.org/common"), m_xalan("http://xml.apache.org/xalan")
    {
    }
    virtual const XalanDOMString* getNamespaceForPrefix(const XalanDOMString& prefix) const
    {
        if (prefix == XalanDOMString("set")) return &m_set;
        if (prefix == XalanDOMString("exsl")) return &m_exsl;
        if (prefix == XalanDOMString("xalan")) return &m_xalan;
        return m_inner.getNamespaceForPrefix(prefix);
    }
    virtual const XalanDOMString& getURI() const { return m_inner.getURI(); }
private:
    XalanDocumentPrefixResolver m_inner;
    XalanDOMString m_set, m_exsl, m_xalan;
};

// A XalanNodeList view of a node list (for the XalanNodeList overload).
class NodeListAdapter : public XalanNodeList
{
public:
    NodeListAdapter(const NodeRefListBase& l) : m_list(l) {}
    virtual XalanNode* item(XalanSize_t index) const { return m_list.item(index); }
    virtual XalanSize_t getLength() const { return XalanSize_t(m_list.getLength()); }
private:
    const NodeRefListBase& m_list;
};

static void newSession(char rep)
{
    g.reset();          // destroy lists and contexts before the liaisons
    g.reset(new Session);
    Session& s = *g;
    s.rep = rep;
    if (rep == 'S')
    {
        s.stDOMSupport.reset(new XalanSourceTreeDOMSupport);
        s.stLiaison.reset(new XalanSourceTreeParserLiaison(*s.stDOMSupport));
        s.stDOMSupport->setParserLiaison(s.stLiaison.get());
    }
    else
    {
        s.xLiaison.reset(new XercesParserLiaison);
        s.xDOMSupport.reset(new XercesDOMSupport(*s.xLiaison));
    }
    s.envSupport.reset(new XPathEnvSupportDefault);
    s.xobjectFactory.reset(new XObjectFactoryDefault);
    s.context.reset(new XPathExecutionContextDefault(*s.envSupport, s.domSupport(), *s.xobjectFactory));
    s.evaluator.reset(new XPathEvaluator);
    for (int i = 0; i < 8; ++i)
    {
        s.lists.push_back(std::unique_ptr<MutableNodeRefList>(new MutableNodeRefList(XalanMemMgrs::getDefaultXercesMemMgr())));
    }
}

static std::string doDoc(Session& s, int d, const std::string& shape)
{
    std::string xml;
    size_t i = 0;
    if (!shapeToXml(shape, i, xml, 0) || i != shape.size()) return "bad shape";
    if (s.docs.count(d)) return "bad duplicate doc";
    DocInfo& di = s.docs[d];
    std::ostringstream sysid;
    sysid << "mem" << d << ".xml";
    const MemBufInputSource src(reinterpret_cast<const XMLByte*>(xml.data()), xml.size(), sysid.str().c_str());
    if (s.rep == 'S')
    {
        di.doc = s.stLiaison->parseXMLStream(src);
    }
    else
    {
        di.parser.reset(new XercesDOMParser);
        di.parser->setDoNamespaces(true);
        di.parser->parse(src);
        di.doc = s.xLiaison->createDocument(di.parser->getDocument(), false, s.rep == 'W', false);
    }
    if (di.doc == 0) return "bad parse";
    walk(s, d, di, di.doc, -1);
    // relation between stored indexes and the structural walk
    bool anyIndexed = false, allIndexed = true, mono = true, exact = true;
    XalanNode::IndexType prev = 0;
    for (size_t k = 0; k < di.nodes.size(); ++k)
    {
        const XalanNode* const n = di.nodes[k];
        if (n->isIndexed())
        {
            anyIndexed = true;
            const XalanNode::IndexType ix = n->getIndex();
            if (k > 0 && !(ix > prev)) mono = false;
            if (ix != XalanNode::IndexType(k + 1)) exact = false;
            prev = ix;
        }
        else
        {
            allIndexed = false;
        }
    }
    std::ostringstream o;
    o << "doc n=" << di.nodes.size() << " idx=" << (!anyIndexed ? "none" : !allIndexed ? "partial" : exact ? "exact" : mono ? "mono" : "disorder")
      << " kinds=" << di.kinds << " parents=";
    for (size_t k = 1; k < di.parent.size(); ++k)
    {
        if (k > 1) o << ",";
        o << di.parent[k];
    }
    // owner documents as the list code sees them
    bool ownersOk = di.doc->getOwnerDocument() == 0;
    for (size_t k = 1; k < di.nodes.size(); ++k)
    {
        if (di.nodes[k]->getOwnerDocument() != di.doc) ownersOk = false;
        const XalanNode* const p = DOMServices::getParentOfNode(*di.nodes[k]);
        if (p != di.nodes[di.parent[k]]) ownersOk = false;
    }
    o << " owners=" << (ownersOk ? "ok" : "BAD");
    return o.str();
}

// build <d> <mode> <events>: drive one of the two source-tree builders with an event sequence, then compare the stored
// indexes with the structural pre-order walk of the tree that was built, for all pairs of nodes.
//   mode F: FormatterToSourceTree into a document fragment (the way result tree fragments are built)
//        D: FormatterToSourceTree into a document
//        B: XalanSourceTreeContentHandler (parser / XalanDocumentBuilder) into a document
//   events: s<d> startElement with d attributes, x endElement, t characters, c comment, p processingInstruction,
//           d cdata (F/D only), r charactersRaw (F/D only), w ignorableWhitespace
static std::string doBuild(Session& s, int d, char mode, const std::string& ev)
{
    if (s.rep != 'S') return "bad rep";
    if (s.docs.count(d)) return "bad duplicate doc";
    DocInfo& di = s.docs[d];
    MemoryManager& mm = XalanMemMgrs::getDefaultXercesMemMgr();
    di.builtDoc.reset(new XalanSourceTreeDocument(mm));
    XalanNode* root = di.builtDoc.get();
    const XalanDOMString    eName("e"), tText("tx"), cText("cm"), pTarget("pt"), pData("pd"), cdataText("cd"),
                            rawText("rw"), wsText(" "), cdataType("CDATA"), aValue("v");
    int textNo = 0;
    try
    {
        if (mode == 'F' || mode == 'D')
        {
            if (mode == 'F')
            {
                di.builtFragment.reset(new XalanSourceTreeDocumentFragment(mm, *di.builtDoc));
                root = di.builtFragment.get();
            }
            FormatterToSourceTree   f(di.builtDoc.get(), di.builtFragment.get(), mm);
            f.startDocument();
            for (size_t i = 0; i < ev.size(); ++i)
            {
                switch (ev[i])
                {
                case 's':
                {
                    if (i + 1 >= ev.size()) return "bad events";
                    const int na = ev[++i] - '0';
                    AttributeListImpl   attrs(mm);
                    for (int k = 1; k <= na; ++k)
                    {
                        XalanDOMString  an("a");
                        an += XalanDOMChar('0' + k);
                        attrs.addAttribute(an.c_str(), cdataType.c_str(), aValue.c_str());
                    }
                    f.startElement(eName.c_str(), attrs);
                    break;
                }
                case 'x': f.endElement(eName.c_str()); break;
                case 't': { XalanDOMString t(tText); t += XalanDOMChar('0' + (++textNo % 10)); f.characters(t.c_str(), t.length()); break; }
                case 'c': f.comment(cText.c_str()); break;
                case 'p': f.processingInstruction(pTarget.c_str(), pData.c_str()); break;
                case 'd': f.cdata(cdataText.c_str(), cdataText.length()); break;
                case 'r': f.charactersRaw(rawText.c_str(), rawText.length()); break;
                case 'w': f.ignorableWhitespace(wsText.c_str(), wsText.length()); break;
                default: return "bad events";
                }
            }
            f.endDocument();
        }
        else if (mode == 'B')
        {
            XalanSourceTreeContentHandler   h(mm, di.builtDoc.get());
            h.startDocument();
            const XalanDOMString    empty;
            for (size_t i = 0; i < ev.size(); ++i)
            {
                switch (ev[i])
                {
                case 's':
                {
                    if (i + 1 >= ev.size()) return "bad events";
                    const int na = ev[++i] - '0';
                    AttributesImpl  attrs(mm);
                    for (int k = 1; k <= na; ++k)
                    {
                        XalanDOMString  an("a");
                        an += XalanDOMChar('0' + k);
                        attrs.addAttribute(an.c_str(), cdataType.c_str(), aValue.c_str());
                    }
                    h.startElement(empty.c_str(), eName.c_str(), eName.c_str(), attrs);
                    break;
                }
                case 'x': h.endElement(empty.c_str(), eName.c_str(), eName.c_str()); break;
                case 't': { XalanDOMString t(tText); t += XalanDOMChar('0' + (++textNo % 10)); h.characters(t.c_str(), t.length()); break; }
                case 'c': h.comment(cText.c_str(), cText.length()); break;
                case 'p': h.processingInstruction(pTarget.c_str(), pData.c_str()); break;
                case 'w': h.ignorableWhitespace(wsText.c_str(), wsText.length()); break;
                default: return "bad events";
                }
            }
            h.endDocument();
        }
        else
        {
            return "bad mode";
        }
    }
    catch (const XalanDOMException&)
    {
        return "ERR:dom";
    }
    walk(s, d, di, root, -1);
    di.doc = di.builtDoc.get();
    // stored indexes against the structural walk: every pair
    bool allIndexed = true;
    for (size_t k = 0; k < di.nodes.size(); ++k) if (!di.nodes[k]->isIndexed()) allIndexed = false;
    std::ostringstream o;
    o << "built n=" << di.nodes.size() << " kinds=" << di.kinds << " parents=";
    for (size_t k = 1; k < di.parent.size(); ++k) { if (k > 1) o << ","; o << di.parent[k]; }
    if (!allIndexed)
    {
        o << " idx=unindexed";
        return o.str();
    }
    for (size_t a = 0; a < di.nodes.size(); ++a)
        for (size_t b = a + 1; b < di.nodes.size(); ++b)
        {
            const bool ba = s.context->isNodeAfter(*di.nodes[b], *di.nodes[a]);
            const bool ab = s.context->isNodeAfter(*di.nodes[a], *di.nodes[b]);
            if (!ba || ab)
            {
                o << " idx=disorder(" << a << "," << b << ":" << di.nodes[a]->getIndex() << "," << di.nodes[b]->getIndex() << ")";
                return o.str();
            }
        }
    o << " idx=preorder";
    return o.str();
}

static std::string unhex(const std::string& h)
{
    std::string o;
    for (size_t i = 0; i + 1 < h.size(); i += 2) o += char(strtol(h.substr(i, 2).c_str(), 0, 16));
    return o;
}

// xmldoc <d> <hex of the XML text> <flags>: a document given as text (DOCTYPE with internal subset, entity references,
// CDATA sections, ID attributes …) in the session's representation.  flag r: keep EntityReference nodes in the Xerces DOM.
static std::string doXmlDoc(Session& s, int d, const std::string& hex, const std::string& flags)
{
    if (s.docs.count(d)) return "bad duplicate doc";
    const std::string xml = unhex(hex);
    DocInfo& di = s.docs[d];
    std::ostringstream sysid;
    sysid << "memx" << d << ".xml";
    const MemBufInputSource src(reinterpret_cast<const XMLByte*>(xml.data()), xml.size(), sysid.str().c_str());
    if (s.rep == 'S')
    {
        di.doc = s.stLiaison->parseXMLStream(src);
    }
    else
    {
        di.parser.reset(new XercesDOMParser);
        di.parser->setDoNamespaces(true);
        di.parser->setCreateEntityReferenceNodes(flags.find('r') != std::string::npos);
        di.parser->parse(src);
        if (di.parser->getDocument() == 0 || di.parser->getDocument()->getDocumentElement() == 0) return "bad parse";
        di.doc = s.xLiaison->createDocument(di.parser->getDocument(), false, s.rep == 'W', false);
    }
    if (di.doc == 0) return "bad parse";
    walk(s, d, di, di.doc, -1);
    std::ostringstream o;
    o << "xmldoc n=" << di.nodes.size() << " kinds=" << di.kinds;
    return o.str();
}

struct IdentityCheck
{
    Session&        s;
    int             d;
    long            checks;
    std::string     bad;

    int pre(const XalanNode* n) const
    {
        std::map<const XalanNode*, std::pair<int,int> >::const_iterator i = s.ids.find(n);
        return (i == s.ids.end() || i->second.first != d) ? -1 : i->second.second;
    }
    void expect(bool ok, const char* route, size_t at)
    {
        ++checks;
        if (!ok && bad.empty())
        {
            std::ostringstream o;
            o << route << " at " << at;
            bad = o.str();
        }
    }
};

// identity <d>: one XalanNode per node of the document, whichever way it is reached
static std::string doIdentity(Session& s, int d)
{
    std::map<int, DocInfo>::iterator it = s.docs.find(d);
    if (it == s.docs.end()) return "bad doc";
    DocInfo& di = it->second;
    IdentityCheck c = { s, d, 0, std::string() };
    bool docLastChildBad = false;
    const size_t n = di.nodes.size();
    // children of every node, by pre-order number
    std::vector<std::vector<size_t> > kids(n), attrs(n);
    for (size_t k = 1; k < n; ++k)
    {
        if (di.kinds[k] == 'a') attrs[di.parent[k]].push_back(k); else kids[di.parent[k]].push_back(k);
    }
    for (int round = 0; round < 2; ++round)     // everything twice: a node reached again must be the same object
    for (size_t k = 0; k < n; ++k)
    {
        XalanNode* const node = di.nodes[k];
        if (di.kinds[k] == 'a')
        {
            const XalanNode* const owner = DOMServices::getParentOfNode(*node);
            c.expect(owner == di.nodes[di.parent[k]], "getParentOfNode(attribute)", k);
            c.expect(node->getOwnerDocument() == di.doc, "attribute.getOwnerDocument", k);
            continue;
        }
        // forward walk: firstChild / nextSibling
        size_t j = 0;
        for (XalanNode* ch = node->getFirstChild(); ch != 0; ch = ch->getNextSibling(), ++j)
        {
            c.expect(j < kids[k].size() && ch == di.nodes[kids[k][j]], "firstChild/nextSibling", k);
            if (j < kids[k].size())
            {
                c.expect(DOMServices::getParentOfNode(*ch) == node, "getParentOfNode(child)", kids[k][j]);
                c.expect(ch->getParentNode() == node, "child.getParentNode", kids[k][j]);
            }
            if (j > kids[k].size() + 2) break;
        }
        c.expect(j == kids[k].size(), "number of children (forward)", k);
        // backward walk: lastChild / previousSibling.  (The document node's own getLastChild() is reported on its own:
        // docLastChild.)
        j = kids[k].size();
        XalanNode* lastCh = node->getLastChild();
        if (k == 0)
        {
            if (!kids[0].empty() && lastCh != di.nodes[kids[0].back()]) docLastChildBad = true;
            lastCh = kids[0].empty() ? 0 : di.nodes[kids[0].back()];
        }
        for (XalanNode* ch = lastCh; ch != 0; ch = ch->getPreviousSibling())
        {
            if (j == 0) { c.expect(false, "lastChild/previousSibling (too many)", k); break; }
            --j;
            c.expect(ch == di.nodes[kids[k][j]], "lastChild/previousSibling", k);
        }
        c.expect(j == 0, "number of children (backward)", k);
        // attributes: item(i), getNamedItem(name), owner element
        const XalanNamedNodeMap* const map = di.kinds[k] == 'e' ? node->getAttributes() : 0;
        if (map != 0)
        {
            c.expect(map->getLength() == attrs[k].size(), "attributes.getLength", k);
            for (XalanSize_t a = 0; a < map->getLength() && a < attrs[k].size(); ++a)
            {
                XalanNode* const at = map->item(a);
                c.expect(at == di.nodes[attrs[k][a]], "attributes.item", attrs[k][a]);
                if (at != 0)
                {
                    c.expect(map->getNamedItem(at->getNodeName()) == at, "attributes.getNamedItem", attrs[k][a]);
                    c.expect(DOMServices::getParentOfNode(*at) == node, "getParentOfNode(attributes.item)", attrs[k][a]);
                }
            }
        }
        if (k != 0) c.expect(node->getOwnerDocument() == di.doc, "getOwnerDocument", k);
    }
    // the document element, and elements by ID where the document type declares ID attributes
    XalanElement* const de = di.doc->getDocumentElement();
    c.expect(de == 0 || c.pre(de) > 0, "getDocumentElement", 0);
    for (size_t k = 1; k < n; ++k)
    {
        if (di.kinds[k] != 'e') continue;
        const XalanNamedNodeMap* const map = di.nodes[k]->getAttributes();
        const XalanNode* const idAttr = map != 0 ? map->getNamedItem(XalanDOMString("id")) : 0;
        if (idAttr != 0)
        {
            const XalanElement* const e = di.doc->getElementById(idAttr->getNodeValue());
            c.expect(e == 0 || e == di.nodes[k], "getElementById", k);      // 0: not declared as ID
        }
    }
    std::ostringstream o;
    if (c.bad.empty()) o << "identity ok nodes=" << n << " checks=" << c.checks;
    else o << "identity BAD " << c.bad << " (nodes=" << n << " kinds=" << di.kinds << ")";
    if (docLastChildBad) o << " docLastChild=BAD";
    return o.str();
}

// nodesets <d>: node-sets over the whole document hold each node once (by object identity), only nodes the structural
// walk knows, in the order of the walk; E|E has the size of E
static std::string doNodeSets(Session& s, int d)
{
    std::map<int, DocInfo>::iterator it = s.docs.find(d);
    if (it == s.docs.end()) return "bad doc";
    DocInfo& di = it->second;
    static const char* const exprs[] = { "//node()", "/*/node()", "//text()", "//node()|//@*", "//*|//text()|//comment()",
        "//node()/..", "//node()/ancestor-or-self::node()", "//text()/following::node()", "//node()/preceding-sibling::node()",
        "//*/node()[last()]", "/*/node()/following-sibling::node()" };
    const HarnessPrefixResolver resolver(di.doc);
    long total = 0;
    for (size_t e = 0; e < sizeof(exprs) / sizeof(exprs[0]); ++e)
    {
        size_t sizes[2] = { 0, 0 };
        for (int dbl = 0; dbl < 2; ++dbl)
        {
            std::string x = exprs[e];
            if (dbl) x = "(" + x + ")|(" + x + ")";
            NodeRefList result(XalanMemMgrs::getDefaultXercesMemMgr());
            s.evaluator->selectNodeList(result, s.domSupport(), di.doc, XalanDOMString(x.c_str()).c_str(), resolver);
            sizes[dbl] = result.getLength();
            int last = -1;
            for (NodeRefListBase::size_type k = 0; k < result.getLength(); ++k)
            {
                std::map<const XalanNode*, std::pair<int,int> >::const_iterator i = s.ids.find(result.item(k));
                std::ostringstream o;
                if (i == s.ids.end() || i->second.first != d)
                {
                    o << "nodesets BAD " << x << " delivers a node object the structural walk never met (position " << k << " of " << result.getLength() << ")";
                    return o.str();
                }
                if (i->second.second <= last)
                {
                    o << "nodesets BAD " << x << " out of order or duplicate at position " << k << " (" << last << " then " << i->second.second << ")";
                    return o.str();
                }
                last = i->second.second;
            }
            total += result.getLength();
        }
        if (sizes[0] != sizes[1])
        {
            std::ostringstream o;
            o << "nodesets BAD count(" << exprs[e] << ")=" << sizes[0] << " but count(E|E)=" << sizes[1];
            return o.str();
        }
    }
    std::ostringstream o;
    o << "nodesets ok sets=" << 2 * (sizeof(exprs) / sizeof(exprs[0])) << " nodes=" << total;
    return o.str();
}

static std::string handle(const std::string& line)
{
    std::istringstream in(line);
    std::vector<std::string> t;
    std::string w;
    while (in >> w)
    {
        if (w == ";") break;        // the rest is for the model only
        t.push_back(w);
    }
    if (t.empty()) return "bad empty";
    const std::string& op = t[0];
    if (op == "session" && t.size() == 2 && t[1].size() == 1 && std::string("SWN").find(t[1][0]) != std::string::npos)
    {
        newSession(t[1][0]);
        return "ok";
    }
    if (op == "variant" && t.size() == 4) return "ok";     // model-only request
    if (!g) return "bad no-session";
    Session& s = *g;
    if (op == "doc" && t.size() == 3)
    {
        return doDoc(s, atoi(t[1].c_str()), t[2]);
    }
    if (op == "xmldoc" && (t.size() == 3 || t.size() == 4))
    {
        return doXmlDoc(s, atoi(t[1].c_str()), t[2], t.size() == 4 ? t[3] : std::string());
    }
    if (op == "identity" && t.size() == 2) return doIdentity(s, atoi(t[1].c_str()));
    if (op == "nodesets" && t.size() == 2) return doNodeSets(s, atoi(t[1].c_str()));
    if (op == "build" && t.size() == 4 && t[2].size() == 1)
    {
        return doBuild(s, atoi(t[1].c_str()), t[2][0], t[3]);
    }
    if (op == "after" && t.size() == 3)
    {
        XalanNode* const a = parseNode(s, t[1]);
        XalanNode* const b = parseNode(s, t[2]);
        if (a == 0 || b == 0) return "bad node";
        if (a->getNodeType() == XalanNode::DOCUMENT_NODE || b->getNodeType() == XalanNode::DOCUMENT_NODE) return "bad document-node";
        if (s.ids[a].first != s.ids[b].first) return "bad different-documents";
        return s.context->isNodeAfter(*a, *b) ? "1" : "0";
    }
    if (op == "afterall" && t.size() == 2)
    {
        std::map<int, DocInfo>::iterator i = s.docs.find(atoi(t[1].c_str()));
        if (i == s.docs.end()) return "bad doc";
        const std::vector<XalanNode*>& ns = i->second.nodes;
        std::string r;
        for (size_t a = 1; a < ns.size(); ++a)
            for (size_t b = 1; b < ns.size(); ++b)
                r += s.context->isNodeAfter(*ns[a], *ns[b]) ? '1' : '0';
        return r.empty() ? "-" : r;
    }
    if (op == "axis" && t.size() == 3)
    {
        // one location step from the context node with the node test node() and no predicate
        t[0] = "xp";
        t[2] = t[2] + "::node()";
    }
    if (op == "axisp" && t.size() == 4)
    {
        // the same with a positional predicate
        t[0] = "xp";
        t[2] = t[2] + "::node()[" + t[3] + "]";
        t.pop_back();
    }
    if (t[0] == "xp" || t[0] == "xpu")
    {
        if (t.size() != 3) return "bad xp";
        XalanNode* const ctx = parseNode(s, t[1]);
        if (ctx == 0) return "bad node";
        const XalanDOMString expr(t[2].c_str());
        XalanDocument* const doc = ctx->getNodeType() == XalanNode::DOCUMENT_NODE ? static_cast<XalanDocument*>(ctx) : ctx->getOwnerDocument();
        const HarnessPrefixResolver resolver(doc);
        NodeRefList result(XalanMemMgrs::getDefaultXercesMemMgr());
        try
        {
            s.evaluator->selectNodeList(result, s.domSupport(), ctx, expr.c_str(), resolver);
        }
        catch (const XSLException&)
        {
            return "ERR:xpath";
        }
        std::ostringstream o;
        o << "d :";
        for (NodeRefListBase::size_type k = 0; k < result.getLength(); ++k) o << " " << nodeName(s, result.item(k));
        return o.str();
    }
    // list operations
    if (t.size() < 2) return "bad args";
    const int li = atoi(t[1].c_str());
    if (li < 0 || size_t(li) >= s.lists.size()) return "bad list";
    MutableNodeRefList& l = *s.lists[li];
    XPathExecutionContext& ec = *s.context;
    if (op == "new" && t.size() == 2)
    {
        l.clear();
    }
    else if ((op == "add" || op == "addo" || op == "rmn") && t.size() == 3)
    {
        XalanNode* const n = parseNode(s, t[2]);
        if (n == 0) return "bad node";
        if (op == "add") l.addNode(n);
        else if (op == "addo") { if (hasNull(l)) return "bad nulls"; l.addNodeInDocOrder(n, ec); }
        else l.removeNode(n);
    }
    else if ((op == "addso" || op == "addsb" || op == "addsx" || op == "swap" || op == "copy" || op == "copyb") && t.size() == 3)
    {
        const int si = atoi(t[2].c_str());
        if (si < 0 || size_t(si) >= s.lists.size() || si == li) return "bad list";
        MutableNodeRefList& src = *s.lists[si];
        if (op[0] == 'a' && (hasNull(l) || hasNull(src))) return "bad nulls";   // asserted non-null in the C++
        if (op == "addso") l.addNodesInDocOrder(src, ec);
        else if (op == "addsb") l.addNodesInDocOrder(static_cast<const NodeRefListBase&>(src), ec);
        else if (op == "addsx") { const NodeListAdapter a(src); l.addNodesInDocOrder(static_cast<const XalanNodeList&>(a), ec); }
        else if (op == "swap") l.swap(src);
        else if (op == "copy") l = src;
        else l = static_cast<const NodeRefListBase&>(src);
    }
    else if (op == "order" && t.size() == 3)
    {
        if (t[2] == "u") l.setUnknownOrder();
        else if (t[2] == "d") l.setDocumentOrder();
        else if (t[2] == "r") l.setReverseDocumentOrder();
        else return "bad order";
    }
    else if (op == "reverse" && t.size() == 2)
    {
        l.reverse();
    }
    else if (op == "setnull" && t.size() == 3)
    {
        if (l.getLength() == 0) return "bad pos";
        const size_t pos = size_t(atoi(t[2].c_str())) % l.getLength();      // positions are taken modulo the length
        l.setNode(pos, 0);
    }
    else if (op == "clearnulls" && t.size() == 2)
    {
        l.clearNulls();
    }
    else if (op == "ins" && t.size() == 4)
    {
        XalanNode* const n = parseNode(s, t[2]);
        if (n == 0) return "bad node";
        const size_t pos = size_t(atoi(t[3].c_str())) % (l.getLength() + 1);
        l.insertNode(n, pos);
    }
    else if (op == "rm" && t.size() == 3)
    {
        if (l.getLength() == 0) return "bad pos";
        const size_t pos = size_t(atoi(t[2].c_str())) % l.getLength();
        l.removeNode(pos);
    }
    else
    {
        return "bad op";
    }
    return showList(s, l);
}

int main()
{
    XMLPlatformUtils::Initialize();
    XalanTransformer::initialize();
    {
        std::string line;
        while (std::getline(std::cin, line))
        {
            std::string r;
            try
            {
                r = handle(line);
            }
            catch (const XSLException&)
            {
                r = "ERR:xsl";
            }
            catch (const xercesc::XMLException&)
            {
                r = "ERR:xml";
            }
            catch (const xercesc::SAXException&)
            {
                r = "ERR:sax";
            }
            catch (const xercesc::DOMException&)
            {
                r = "ERR:dom";
            }
            std::cout << r << "\n" << std::flush;   // a crash must be attributable to its request
        }
        std::cout.flush();
        g.reset();
    }
    XalanTransformer::terminate();
    XMLPlatformUtils::Terminate();
    return 0;
}
