// C18 correspondence harness: number <-> string conversions of the working tree, in-process.
//
// Built twice by checks/c18.py:
//   c18_number      linked against the freshly built libxalan-c.so (the real library code)
//   c18_number_san  the same, plus the working tree's DOMStringHelper.cpp and DoubleSupport.cpp compiled
//                   into the executable with ASan+UBSan (the executable's definitions pre-empt the
//                   library's), so that a write past `char theBuffer[...]` is reported, not silent.
//
// Requests (doubles = 16 hex digits of the IEEE bit pattern; strings = 4 hex digits per UTF-16 unit, "-" = empty):
//   tostr <bits>    -> ok:<text>      NumberToDOMString(double, XalanDOMString&)
//   tochr <bits>    -> ok:<text>      DOMStringHelper::NumberToCharacters(double, FormatterListener&, &characters)
//   todbl <units>   -> <bits>|nan     DoubleSupport::toDouble(const XalanDOMString&, MemoryManager&)
//   valid <units>   -> 0|1            DoubleSupport::isValid(const XalanDOMString&)
//   round|floor|ceil <bits> -> <bits>|nan
//   xslt <units>    -> ok:<text>      transforms the fixed source document with the stylesheet given as UTF-16 units (ASCII) through
//                                      XalanTransformer, text output rendered on one line; ONE transformation = one execution context /
//                                      object factory, so XNumber/XString objects are recycled between the instructions of the stylesheet
//   xpath <units>   -> ok:<text>      string(<expression>) through XPathEvaluator (glue: XNumber::str, XPath functions)
//   xchain <fn> <units> -> ok:<text>  string(fn(number('<string>'))) through XPathEvaluator, fn in id|round|floor|ceiling
//                                      (XString::num -> toDouble, XPath::functionRound/Floor/Ceiling, XNumber::str)
// A request whose evaluation dies (signal / sanitizer report) is answered  CRASH:<how>  — requests that can
// overrun a buffer (|x| >= 2^128) are evaluated in a forked child so that the stream continues.
#include <xalanc/Include/PlatformDefinitions.hpp>
#include <xercesc/util/PlatformUtils.hpp>
#include <xercesc/framework/MemBufInputSource.hpp>
#include <xercesc/sax/AttributeList.hpp>
#include <xalanc/PlatformSupport/DOMStringHelper.hpp>
#include <xalanc/PlatformSupport/DoubleSupport.hpp>
#include <xalanc/PlatformSupport/FormatterListener.hpp>
#include <xalanc/PlatformSupport/XSLException.hpp>
#include <xalanc/XalanTransformer/XalanTransformer.hpp>
#include <xalanc/XPath/XPathEvaluator.hpp>
#include <xalanc/XPath/XObject.hpp>
#include <xalanc/DOMSupport/XalanDocumentPrefixResolver.hpp>
#include <xalanc/XalanSourceTree/XalanSourceTreeDOMSupport.hpp>
#include <xalanc/XalanSourceTree/XalanSourceTreeInit.hpp>
#include <xalanc/XalanSourceTree/XalanSourceTreeParserLiaison.hpp>

#include <cstdio>
#include <sstream>
#include <cstdlib>
#include <cstring>
#include <iostream>
#include <string>
#include <sys/wait.h>
#include <unistd.h>

using namespace xalanc;

static bool parseBits(const std::string& s, double& d)
{
    if (s.size() != 16) return false;
    unsigned long long b = 0;
    for (char c : s)
    {
        int v = c >= '0' && c <= '9' ? c - '0' : c >= 'a' && c <= 'f' ? c - 'a' + 10 : -1;
        if (v < 0) return false;
        b = b * 16 + v;
    }
    std::memcpy(&d, &b, 8);
    return true;
}

static std::string showBits(double d)
{
    if (d != d) return "nan";
    unsigned long long b;
    std::memcpy(&b, &d, 8);
    char buf[32];
    std::snprintf(buf, sizeof buf, "%016llx", b);
    return buf;
}

static bool parseUnits(const std::string& s, XalanDOMString& out)
{
    out.clear();
    if (s == "-") return true;
    if (s.size() % 4) return false;
    for (size_t i = 0; i < s.size(); i += 4)
    {
        unsigned v = 0;
        for (size_t k = 0; k < 4; ++k)
        {
            char c = s[i + k];
            int h = c >= '0' && c <= '9' ? c - '0' : c >= 'a' && c <= 'f' ? c - 'a' + 10 : -1;
            if (h < 0) return false;
            v = v * 16 + h;
        }
        out.push_back(XalanDOMChar(v));
    }
    return true;
}

static std::string render(const XalanDOMChar* p, size_t n)
{
    std::string r;
    for (size_t i = 0; i < n; ++i)
    {
        unsigned c = p[i];
        if (c >= 33 && c <= 126 && c != 92) r.push_back(char(c));
        else { char b[8]; std::snprintf(b, sizeof b, "\\u%04x", c); r += b; }
    }
    return r;
}

// captures characters() — the target of NumberToCharacters
class Capture : public FormatterListener
{
public:
    std::string text;
    Capture() : FormatterListener(OUTPUT_METHOD_TEXT) {}
    void charactersRaw(const XMLCh* const c, const size_type n) override { text += render(c, n); }
    void comment(const XMLCh* const) override {}
    void cdata(const XMLCh* const, const size_type) override {}
    void entityReference(const XMLCh* const) override {}
    void characters(const XMLCh* const c, const size_type n) override { text += render(c, n); }
    void endDocument() override {}
    void endElement(const XMLCh* const) override {}
    void ignorableWhitespace(const XMLCh* const, const size_type) override {}
    void processingInstruction(const XMLCh* const, const XMLCh* const) override {}
    void resetDocument() override {}
    void setDocumentLocator(const xercesc::Locator* const) override {}
    void startDocument() override {}
    void startElement(const XMLCh* const, xercesc::AttributeList&) override {}
};

struct XPathEnv
{
    XalanSourceTreeInit         init;
    XalanSourceTreeDOMSupport   support;
    XalanSourceTreeParserLiaison liaison;
    XalanDocument*              doc;
    XPathEnv() : support(), liaison(support), doc(0)
    {
        support.setParserLiaison(&liaison);
        static const char xml[] = "<?xml version='1.0'?><r a='1.5'>  -12.25  <e>7</e></r>";
        xercesc::MemBufInputSource in(reinterpret_cast<const XMLByte*>(xml), sizeof(xml) - 1, "c18");
        doc = liaison.parseXMLStream(in);
    }
};

static std::string evalXPath(XPathEnv& env, const XalanDOMString& expr)
{
    try
    {
        XalanDocumentPrefixResolver resolver(env.doc);
        XPathEvaluator ev;
        const XObjectPtr r(ev.evaluate(env.support, env.doc, expr.c_str(), resolver));
        const XalanDOMString& s = r->str();
        return "ok:" + render(s.c_str(), s.length());
    }
    catch (const XSLException&) { return "ERR:xpath"; }
    catch (...) { return "ERR:other"; }
}

static std::string runStylesheet(const std::string& units)
{
    // the stylesheet is ASCII: decode the 4-hex-digit units directly (XalanDOMString::push_back is linear)
    std::string xsl;
    xsl.reserve(units.size() / 4);
    for (size_t i = 0; i + 3 < units.size(); i += 4)
    {
        unsigned v = 0;
        for (size_t k = 0; k < 4; ++k)
        {
            const char c = units[i + k];
            v = v * 16 + unsigned(c >= '0' && c <= '9' ? c - '0' : c >= 'a' && c <= 'f' ? c - 'a' + 10 : 0);
        }
        xsl.push_back(char(v));
    }
    static const char xml[] = "<?xml version='1.0'?><r a='1.5'>  -12.25  <e>7</e><e>8</e><e>9</e></r>";
    std::istringstream xmlIn(xml), xslIn(xsl);
    std::ostringstream out;
    XalanTransformer t;
    const XSLTInputSource src(&xmlIn), st(&xslIn);
    const XSLTResultTarget target(out);
    if (t.transform(src, st, target) != 0) return std::string("ERR:xslt ") + t.getLastError();
    const std::string o = out.str();
    std::string r = "ok:";
    for (size_t i = 0; i < o.size(); ++i)
    {
        unsigned c = static_cast<unsigned char>(o[i]);
        if (c >= 33 && c <= 126 && c != 92) r.push_back(char(c));
        else { char b[8]; std::snprintf(b, sizeof b, "\\u%04x", c); r += b; }
    }
    return r;
}

static std::string answer(const std::string& op, const std::string& arg, XPathEnv* env)
{
    MemoryManager& mm = XalanMemMgrs::getDefaultXercesMemMgr();
    if (op == "tostr" || op == "tochr" || op == "round" || op == "floor" || op == "ceil")
    {
        double d;
        if (!parseBits(arg, d)) return "bad";
        if (op == "tostr")
        {
            XalanDOMString s(mm);
            NumberToDOMString(d, s);
            return "ok:" + render(s.c_str(), s.length());
        }
        if (op == "tochr")
        {
            Capture c;
            DOMStringHelper::NumberToCharacters(d, c, &FormatterListener::characters);
            return "ok:" + c.text;
        }
        if (op == "round") return showBits(DoubleSupport::round(d));
        if (op == "floor") return showBits(DoubleSupport::floor(d));
        return showBits(DoubleSupport::ceiling(d));
    }
    if (op == "xchain")
    {
        size_t sp = arg.find(' ');
        if (sp == std::string::npos || !env) return "bad";
        const std::string fn = arg.substr(0, sp);
        XalanDOMString s(mm), e(mm);
        if (!parseUnits(arg.substr(sp + 1), s)) return "bad";
        const char* pre = fn == "id" ? "string(number('" : fn == "round" ? "string(round(number('" :
                          fn == "floor" ? "string(floor(number('" : fn == "ceiling" ? "string(ceiling(number('" : 0;
        if (!pre) return "bad";
        for (const char* p = pre; *p; ++p) e.push_back(XalanDOMChar(*p));
        e.append(s);
        for (const char* p = (fn == "id" ? "'))" : "')))"); *p; ++p) e.push_back(XalanDOMChar(*p));
        return evalXPath(*env, e);
    }
    if (op == "xslt") return runStylesheet(arg);
    if (op == "todbl" || op == "valid" || op == "xpath")
    {
        XalanDOMString s(mm);
        if (!parseUnits(arg, s)) return "bad";
        if (op == "todbl") return showBits(DoubleSupport::toDouble(s, mm));
        if (op == "valid") return DoubleSupport::isValid(s) ? "1" : "0";
        return env ? evalXPath(*env, s) : "bad";
    }
    return "bad";
}

static bool risky(const std::string& op, const std::string& arg)
{
    if (op != "tostr" && op != "tochr") return false;
    double d;
    if (!parseBits(arg, d)) return false;
    return d == d && (d >= 0x1p128 || d <= -0x1p128);
}

static std::string isolated(const std::string& op, const std::string& arg)
{
    int fd[2];
    if (pipe(fd) != 0) return "CRASH:pipe";
    std::cout.flush();
    pid_t pid = fork();
    if (pid < 0) return "CRASH:fork";
    if (pid == 0)
    {
        close(fd[0]);
        std::string r = answer(op, arg, 0);
        ssize_t w = write(fd[1], r.data(), r.size());
        (void)w;
        _exit(0);
    }
    close(fd[1]);
    std::string r;
    char buf[512];
    ssize_t n;
    while ((n = read(fd[0], buf, sizeof buf)) > 0) r.append(buf, size_t(n));
    close(fd[0]);
    int st = 0;
    waitpid(pid, &st, 0);
    if (WIFSIGNALED(st)) return "CRASH:signal" + std::to_string(WTERMSIG(st));
    if (!WIFEXITED(st) || WEXITSTATUS(st) != 0) return "CRASH:exit" + std::to_string(WEXITSTATUS(st));
    return r;
}

int main()
{
    xercesc::XMLPlatformUtils::Initialize();
    XalanTransformer::initialize();
    {
        XPathEnv env;
        std::string line;
        while (std::getline(std::cin, line))
        {
            size_t sp = line.find(' ');
            std::string op = sp == std::string::npos ? line : line.substr(0, sp);
            std::string arg = sp == std::string::npos ? "" : line.substr(sp + 1);
            while (!arg.empty() && (arg.back() == '\r' || arg.back() == ' ')) arg.pop_back();
            std::string r = risky(op, arg) ? isolated(op, arg) : answer(op, arg, &env);
            std::cout << r << "\n";
        }
        std::cout.flush();
    }
    XalanTransformer::terminate();
    xercesc::XMLPlatformUtils::Terminate();
    return 0;
}
