// C09 correspondence harness: match patterns on the real library.
//
// Request lines (same file is fed to the Lean driver xm_c09, which ignores the fields meant for this side):
//   xdoc …  like doc, but the document is parsed into a Xerces DOM and wrapped (XercesParserLiaison): another tree kind
//   doc <hex-utf8 xml> <flat node table ...>
//       parse the document with the XalanSourceTree parser, number every node in document order
//       (root 0; element, its attributes in map order, its children), reply
//       "doc <n> <tok>..."   tok = r | e:<name>:<parent> | a:<name>:<parent> | t::<parent> | c::<parent> | p:<target>:<parent>
//   pat <hex-utf8 pattern> <structured form ...>
//       compile with XPathProcessorImpl::initMatchPattern (the real pattern compiler) and, as an expression, with
//       initXPath; reply
//       "pat <pattern text> codes=<alt;alt> m=<score per node> s=<0/1 per node>"
//         codes: per union alternative the step op codes R(eFROM_ROOT) @(eMATCH_ATTRIBUTE) A(eMATCH_ANY_ANCESTOR)
//                I(eMATCH_IMMEDIATE_ANCESTOR) P(eMATCH_ANY_ANCESTOR_WITH_PREDICATE) F(eOP_FUNCTION) G(.._WITH_FUNCTION_CALL)
//         codes also carry, after each step, one '+' (eOP_PREDICATE_WITH_POSITION) or '-' (eOP_PREDICATE) per predicate
//         amb: 1 where getMatchScore(N) under a singleton ambient context node list differs from the value under the
//              all-nodes ambient list (must be all 0: the caller's node list is not the step's node list)
//         alts: for alternative 0, 1, …, k (k = number of alternatives, i.e. one past the last) the scores of every node
//               from getMatchScore(node, resolver, ctx, theAlternative), comma separated
//         ns: number of namespace-declaration attributes (xmlns, xmlns:p — not numbered) on which getMatchScore and the
//             defining side disagree (must be 0)
//         m: XPath::getMatchScore(N) for every node N of the current document (0 none,1 nodetest,2 nswild,3 qname,4 other)
//         s: the *defining* side evaluated by the real expression engine: 1 iff some ancestor-or-self A of N has
//            N in XPath::execute(P as expression, context A)
//       or "pat <text> ERR:<what>" when either compilation or evaluation raises.
//   variant <findAttrFix> <attrGuard> <rootGuard>      echoed (selects the model variant on the Lean side)
#include <xercesc/util/PlatformUtils.hpp>
#include <xercesc/framework/MemBufInputSource.hpp>

#include <xalanc/Include/PlatformDefinitions.hpp>
#include <xalanc/XalanDOM/XalanDocument.hpp>
#include <xalanc/XalanDOM/XalanElement.hpp>
#include <xalanc/XalanDOM/XalanAttr.hpp>
#include <xalanc/XalanDOM/XalanNamedNodeMap.hpp>
#include <xalanc/PlatformSupport/DOMStringHelper.hpp>
#include <xalanc/DOMSupport/DOMServices.hpp>
#include <xalanc/XPath/XObjectFactoryDefault.hpp>
#include <xalanc/XPath/XObject.hpp>
#include <xalanc/XPath/NodeRefListBase.hpp>
#include <xalanc/XPath/MutableNodeRefList.hpp>
#include <xalanc/XPath/XPath.hpp>
#include <xalanc/XPath/XPathExpression.hpp>
#include <xalanc/XPath/XPathConstructionContextDefault.hpp>
#include <xalanc/XPath/XPathEnvSupportDefault.hpp>
#include <xalanc/XPath/XPathExecutionContextDefault.hpp>
#include <xalanc/XPath/XPathProcessorImpl.hpp>
#include <xalanc/XPath/XPathFactoryDefault.hpp>
#include <xalanc/XPath/ElementPrefixResolverProxy.hpp>
#include <xalanc/XalanSourceTree/XalanSourceTreeDOMSupport.hpp>
#include <xalanc/XalanSourceTree/XalanSourceTreeParserLiaison.hpp>
#include <xalanc/XalanSourceTree/XalanSourceTreeInit.hpp>
#include <xalanc/XercesParserLiaison/XercesParserLiaison.hpp>
#include <xalanc/XercesParserLiaison/XercesDOMSupport.hpp>
#include <xalanc/DOMSupport/DOMSupport.hpp>
#include <xalanc/XPath/XPathInit.hpp>

#include <iostream>
#include <map>
#include <memory>
#include <sstream>
#include <string>
#include <vector>

using namespace xalanc;

static std::string unhex(const std::string& h)
{
    std::string out;
    if (h == "-") return out;
    for (size_t i = 0; i + 1 < h.size(); i += 2)
        out.push_back(char(std::stoi(h.substr(i, 2), nullptr, 16)));
    return out;
}

static std::string narrow(const XalanDOMString& s)
{
    std::string out;
    for (XalanDOMString::size_type i = 0; i < s.length(); ++i)
        out.push_back(s[i] < 128 ? char(s[i]) : '?');
    return out;
}

struct DocState
{
    XalanSourceTreeDOMSupport                       stDomSupport;
    std::unique_ptr<XalanSourceTreeParserLiaison>   liaison;
    // "xdoc": the same document held as a Xerces DOM behind the XercesDocumentWrapper (another kind of source tree)
    std::unique_ptr<XercesParserLiaison>            xliaison;
    std::unique_ptr<XercesDOMSupport>               xDomSupport;
    DOMSupport*                                     domSupportPtr = nullptr;
    XalanDocument*                                  doc = nullptr;
    std::vector<XalanNode*>                         nodes;
    std::vector<int>                                parent;
    std::map<const XalanNode*, int>                 index;
    // namespace-declaration attributes (not numbered): node -> index of the owner element
    std::vector<std::pair<XalanNode*, int> >        nsdecls;
    std::map<const XalanNode*, int>                 nsIndex;
    std::string                                     xml;

    explicit DocState(bool xerces)
    {
        if (xerces)
        {
            xliaison.reset(new XercesParserLiaison);
            xDomSupport.reset(new XercesDOMSupport(*xliaison));
            domSupportPtr = xDomSupport.get();
        }
        else
        {
            liaison.reset(new XalanSourceTreeParserLiaison(stDomSupport));
            stDomSupport.setParserLiaison(liaison.get());
            domSupportPtr = &stDomSupport;
        }
    }
    XalanDocument* parse(xercesc::MemBufInputSource& src)
    {
        return xliaison ? xliaison->parseXMLStream(src) : liaison->parseXMLStream(src);
    }
};

// expanded name: "local" in no namespace, "{uri}local" otherwise
static std::string expanded(const XalanNode* n)
{
    const XalanDOMString& uri = n->getNamespaceURI();
    if (uri.empty()) return narrow(n->getNodeName());
    return "{" + narrow(uri) + "}" + narrow(DOMServices::getLocalNameOfNode(*n));
}

static void number(DocState& d, XalanNode* n, int par, std::ostringstream& o)
{
    const int me = int(d.nodes.size());
    d.nodes.push_back(n);
    d.parent.push_back(par);
    d.index[n] = me;
    switch (n->getNodeType())
    {
    case XalanNode::DOCUMENT_NODE: o << " r"; break;
    case XalanNode::ELEMENT_NODE: o << " e:" << expanded(n) << ":" << par; break;
    case XalanNode::ATTRIBUTE_NODE: o << " a:" << expanded(n) << ":" << par; break;
    case XalanNode::TEXT_NODE: o << " t::" << par; break;
    case XalanNode::COMMENT_NODE: o << " c::" << par; break;
    case XalanNode::PROCESSING_INSTRUCTION_NODE: o << " p:" << narrow(n->getNodeName()) << ":" << par; break;
    default: o << " ?::" << par; break;
    }
    if (n->getNodeType() == XalanNode::ELEMENT_NODE)
    {
        const XalanNamedNodeMap* at = n->getAttributes();
        if (at)
            for (XalanSize_t j = 0; j < at->getLength(); ++j)
            {
                // namespace declarations (the source tree adds xmlns:xml to the document element) are namespace
                // nodes of the data model, not attributes; patterns cannot match them: not numbered
                if (DOMServices::isNamespaceDeclaration(static_cast<const XalanAttr&>(*at->item(j))))
                {
                    d.nsIndex[at->item(j)] = int(d.nsdecls.size());
                    d.nsdecls.push_back(std::make_pair(at->item(j), me));
                    continue;
                }
                number(d, at->item(j), me, o);
            }
    }
    if (n->getNodeType() != XalanNode::ATTRIBUTE_NODE)
        for (XalanNode* c = n->getFirstChild(); c != 0; c = c->getNextSibling())
            number(d, c, me, o);
}

static char codeChar(int c)
{
    switch (c)
    {
    case XPathExpression::eFROM_ROOT: return 'R';
    case XPathExpression::eMATCH_ATTRIBUTE: return '@';
    case XPathExpression::eMATCH_ANY_ANCESTOR: return 'A';
    case XPathExpression::eMATCH_IMMEDIATE_ANCESTOR: return 'I';
    case XPathExpression::eMATCH_ANY_ANCESTOR_WITH_PREDICATE: return 'P';
    case XPathExpression::eMATCH_ANY_ANCESTOR_WITH_FUNCTION_CALL: return 'G';
    case XPathExpression::eOP_FUNCTION: return 'F';
    default: return '?';
    }
}

static std::string stepCodes(const XPath& xp)
{
    const XPathExpression& e = xp.getExpression();
    std::string out;
    XPathExpression::OpCodeMapPositionType opPos = e.getInitialOpCodePosition() + 2;
    bool first = true;
    while (e.getOpCodeMapValue(opPos) == XPathExpression::eOP_LOCATIONPATHPATTERN)
    {
        const XPathExpression::OpCodeMapPositionType next = e.getNextOpCodePosition(opPos);
        if (!first) out.push_back(';');
        first = false;
        XPathExpression::OpCodeMapPositionType p = opPos + 2;
        while (e.getOpCodeMapValue(p) != XPathExpression::eENDOP)
        {
            const char c = codeChar(e.getOpCodeMapValue(p));
            out.push_back(c);
            const XPathExpression::OpCodeMapPositionType next = e.getNextOpCodePosition(p);
            if (c == 'R' || c == '@' || c == 'A' || c == 'I' || c == 'P')
            {
                // the step's predicates: '+' eOP_PREDICATE_WITH_POSITION, '-' eOP_PREDICATE
                XPathExpression::OpCodeMapPositionType q = p + 3 + e.getOpCodeArgumentLength(p);
                while (q < next)
                {
                    const int op = e.getOpCodeMapValue(q);
                    if (op == XPathExpression::eOP_PREDICATE_WITH_POSITION) out.push_back('+');
                    else if (op == XPathExpression::eOP_PREDICATE) out.push_back('-');
                    else break;
                    q = e.getNextOpCodePosition(q);
                }
            }
            p = next;
        }
        opPos = next;
    }
    return out.empty() ? "-" : out;
}

int main()
{
    xercesc::XMLPlatformUtils::Initialize();
    {
        XPathInit theInit;
        std::unique_ptr<DocState> d;
        std::string line;
        while (std::getline(std::cin, line))
        {
            std::istringstream in(line);
            std::string cmd, hex;
            in >> cmd >> hex;
            if (cmd == "doc" || cmd == "xdoc")
            {
                d.reset(new DocState(cmd == "xdoc"));
                d->xml = unhex(hex);
                try
                {
                    xercesc::MemBufInputSource src((const XMLByte*)d->xml.data(), d->xml.size(), "c09", false);
                    d->doc = d->parse(src);
                    std::ostringstream o;
                    number(*d, d->doc, 0, o);
                    std::cout << "doc " << d->nodes.size() << o.str() << "\n";
                }
                catch (...)
                {
                    d.reset();
                    std::cout << "doc ERR:parse\n";
                }
            }
            else if (cmd == "pat" || cmd == "fpat")
            {
                const std::string text = unhex(hex);
                if (!d) { std::cout << "pat " << text << " ERR:nodoc\n"; continue; }
                std::ostringstream o;
                o << "pat " << text << " ";
                const char* stage = "setup";
                try
                {
                    XPathEnvSupportDefault          env;
                    XObjectFactoryDefault           xof;
                    XPathExecutionContextDefault    ec(env, *d->domSupportPtr, xof);
                    XPathConstructionContextDefault cc;
                    XPathFactoryDefault             xf;
                    XPathProcessorImpl              proc;
                    const ElementPrefixResolverProxy resolver(d->doc->getDocumentElement(), env, *d->domSupportPtr);

                    XPath* const pat = xf.create();
                    XPath* const expr = xf.create();
                    const XalanDOMString s(text.c_str());
                    stage = "pattern";
                    proc.initMatchPattern(*pat, cc, s, resolver);
                    stage = "expr";
                    proc.initXPath(*expr, cc, s, resolver);
                    stage = "eval";

                    const size_t n = d->nodes.size();
                    std::string m(n, '0'), sp(n, '0'), amb(n, '0');
                    {
                        // The caller's context node list must not influence matching (a pattern predicate's
                        // position()/last() refer to the step's own node list): getMatchScore is called with an
                        // ambient list of all nodes of the document, and again with the singleton list of the node.
                        MutableNodeRefList all(*xercesc::XMLPlatformUtils::fgMemoryManager);
                        for (size_t i = 0; i < n; ++i) all.addNode(d->nodes[i]);
                        for (size_t i = 0; i < n; ++i)
                        {
                            {
                                XPathExecutionContext::ContextNodeListPushAndPop push(ec, all);
                                m[i] = char('0' + int(pat->getMatchScore(d->nodes[i], resolver, ec)));
                            }
                            MutableNodeRefList one(*xercesc::XMLPlatformUtils::fgMemoryManager);
                            one.addNode(d->nodes[i]);
                            XPathExecutionContext::ContextNodeListPushAndPop push(ec, one);
                            if (char('0' + int(pat->getMatchScore(d->nodes[i], resolver, ec))) != m[i]) amb[i] = '1';
                        }
                    }
                    std::vector<bool> nsSel(d->nsdecls.size(), false);
                    // the defining side: N in eval(P, A) for an ancestor-or-self A of N
                    for (size_t a = 0; a < n; ++a)
                    {
                        const XObjectPtr r(expr->execute(d->nodes[a], resolver, ec));
                        const NodeRefListBase& nl = r->nodeset();
                        for (NodeRefListBase::size_type k = 0; k < nl.getLength(); ++k)
                        {
                            std::map<const XalanNode*, int>::const_iterator it = d->index.find(nl.item(k));
                            if (it == d->index.end())
                            {
                                // a namespace-declaration attribute in the result: selected from an ancestor-or-self
                                // of its owner element?
                                std::map<const XalanNode*, int>::const_iterator ns = d->nsIndex.find(nl.item(k));
                                if (ns != d->nsIndex.end())
                                {
                                    int x = d->nsdecls[ns->second].second;
                                    for (;;)
                                    {
                                        if (size_t(x) == a) { nsSel[ns->second] = true; break; }
                                        if (x == 0) break;
                                        x = d->parent[x];
                                    }
                                }
                                continue;
                            }
                            // is node a an ancestor-or-self of it->second ?
                            int x = it->second;
                            for (;;)
                            {
                                if (size_t(x) == a) { sp[it->second] = '1'; break; }
                                if (x == 0) break;
                                x = d->parent[x];
                            }
                        }
                    }
                    // the per-alternative entry point: scores of every node for alternative 0..k (k = one past the last)
                    const std::string codes = stepCodes(*pat);
                    size_t nalt = 1;
                    for (size_t k = 0; k < codes.size(); ++k) if (codes[k] == ';') ++nalt;
                    std::string alts;
                    {
                        MutableNodeRefList all(*xercesc::XMLPlatformUtils::fgMemoryManager);
                        for (size_t i = 0; i < n; ++i) all.addNode(d->nodes[i]);
                        XPathExecutionContext::ContextNodeListPushAndPop push(ec, all);
                        for (size_t a = 0; a <= nalt; ++a)
                        {
                            if (a) alts.push_back(',');
                            for (size_t i = 0; i < n; ++i)
                                alts.push_back(char('0' + int(pat->getMatchScore(d->nodes[i], resolver, ec, a))));
                        }
                    }
                    // raw namespace-declaration attributes (what e.g. KeyTable offers to the matcher): how many of them
                    // are matched by the pattern although not selected by the expression, or vice versa
                    size_t nsBad = 0;
                    for (size_t k = 0; k < d->nsdecls.size(); ++k)
                    {
                        const bool matched = pat->getMatchScore(d->nsdecls[k].first, resolver, ec) != XPath::eMatchScoreNone;
                        if (matched != bool(nsSel[k])) ++nsBad;
                    }
                    o << "codes=" << codes << " amb=" << amb << " alts=" << alts << " ns=" << nsBad << " m=" << m << " s=" << sp;
                }
                catch (const XSLException&)
                {
                    o << "ERR:xsl-" << stage;
                }
                catch (const xercesc::XMLException&)
                {
                    o << "ERR:xml-" << stage;
                }
                catch (...)
                {
                    o << "ERR:other-" << stage;
                }
                std::cout << o.str() << "\n";
            }
            else if (cmd == "variant")
            {
                // which proposed repairs the tree contains was determined by the check from probe patterns;
                // the line only tells the Lean driver which variant of the model to run
                std::cout << line << "\n";
            }
            else
            {
                std::cout << "bad\n";
            }
        }
        std::cout.flush();
    }
    xercesc::XMLPlatformUtils::Terminate();
    return 0;
}
