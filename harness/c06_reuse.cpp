// C06 harness: API histories on ONE XalanTransformer (lines not starting with "fresh"), and the same
// transformation on a newly created transformer ("fresh" lines, whose parameters / functions are the ones the
// Lean model says are in force).  One reply line per request line.
//
//   def sheet|src <name> <hex of UTF-8 bytes>   -> ok          (catalog; shared by all transformers)
//   new                                         -> ok [sizes=...]  (destroy the reused transformer, create another)
//   compile <slot> <sheet> ok|bad               -> rc <n>
//   parse <slot> <src> ok|bad                   -> rc <n>
//   setexpr <key> <expr> | setnum <key> <num> | clearparams | install <f> | uninstall <f>   -> ok
//   dsheet <slot> | dsource <slot>              -> rc <n>
//   ginstall <f> | guninstall <f>               -> ok      (process-wide function table)
//   setobj <key> B:true|B:false|S:<text>        -> ok      (XObject parameter from the transformer's factory)
//   setnode <key> <src>                         -> ok      (node-set parameter: document node of a parsed <src>)
//   config <name> <value>                       -> ok      (indent n | enc name|- | escurl 0-2 | omitmeta 0-2 | plistener 0|1 | tlistener 0|1)
//   leakprobe <sheet> <src> <n>                 -> L <live bytes after n/3> <after 2n/3> <after n>   (own transformer, counting MemoryManager)
//   transform <sheetslot> <srcslot> <seed>      -> R rc=<n> out=<hex> err=<hex> [sizes=<name=n,...>]
//   transformsrc <sheet> <src> <seed>           -> R ...
//   fresh c|s <sheet> <src> <P> <F> <C>         -> R ...   (P: k=E:expr;k=O:obj;... or -   F: f;g or -   C: name=value;... or -)
//
// `sizes=` is printed only when /repo carries the guarded hook of proposed/C06-hook.diff
// (marker macro XALAN_C_VERIF_HAS_STACKSIZES).
#include <xalanc/Include/PlatformDefinitions.hpp>

#include <cstdio>
#include <cstdlib>
#include <cstring>
#include <iostream>
#include <map>
#include <sstream>
#include <string>
#include <vector>

#include <xercesc/util/PlatformUtils.hpp>

#include <xalanc/XalanTransformer/XalanTransformer.hpp>
#include <xalanc/XalanTransformer/XalanCompiledStylesheet.hpp>
#include <xalanc/XalanTransformer/XalanParsedSource.hpp>
#include <xalanc/XPath/Function.hpp>
#include <xalanc/XPath/XObjectFactory.hpp>
#include <xalanc/XSLT/ProblemListener.hpp>
#include <xalanc/XSLT/TraceListener.hpp>
#include <xalanc/XMLSupport/FormatterToText.hpp>
#include <xalanc/PlatformSupport/DOMStringPrintWriter.hpp>
#include <xercesc/framework/MemoryManager.hpp>
#include <xalanc/XSLT/XSLTInputSource.hpp>
#include <xalanc/XSLT/XSLTResultTarget.hpp>

#if defined(XALAN_C_VERIF_HAS_STACKSIZES)
#include <xalanc/XSLT/StylesheetExecutionContextDefault.hpp>
#endif

using namespace xalanc;
using xercesc::XMLPlatformUtils;

static std::string unhex(const std::string& h)
{
    std::string r;
    if (h == "-") return r;
    for (size_t i = 0; i + 1 < h.size(); i += 2)
        r.push_back(char(std::strtol(h.substr(i, 2).c_str(), 0, 16)));
    return r;
}

static std::string hex(const std::string& s)
{
    static const char* d = "0123456789abcdef";
    if (s.empty()) return "-";
    std::string r;
    for (unsigned char c : s) { r.push_back(d[c >> 4]); r.push_back(d[c & 15]); }
    return r;
}

static std::map<std::string, std::string> g_sheets, g_srcs;

// An extension function ext:<name>() returning the string "F:<name>"
class FunctionConst : public Function
{
public:
    explicit FunctionConst(const std::string& n) : m_name(n) {}

    virtual XObjectPtr
    execute(XPathExecutionContext& executionContext, XalanNode*, const XObjectArgVectorType&, const Locator*) const
    {
        XalanDOMString s(executionContext.getMemoryManager());
        s.assign(("F:" + m_name).c_str());
        return executionContext.getXObjectFactory().createString(s);
    }
    using Function::execute;

    virtual FunctionConst*
    clone(MemoryManager& theManager) const
    {
        return XalanCopyConstruct(theManager, *this);
    }

protected:
    const XalanDOMString&
    getError(XalanDOMString& theResult) const
    {
        theResult.assign("ext function error");
        return theResult;
    }

private:
    std::string m_name;
};

static int g_dummy1, g_dummy2;

class CountPL : public ProblemListener
{
public:
    long n;
    CountPL() : n(0) {}
    virtual void setPrintWriter(PrintWriter*) {}
    virtual void problem(eSource, eClassification, const XalanDOMString&, const Locator*, const XalanNode*) { ++n; }
    virtual void problem(eSource, eClassification, const XalanDOMString&, const XalanNode*) { ++n; }
    virtual void problem(eSource, eClassification, const XalanNode*, const ElemTemplateElement*, const XalanDOMString&,
                         const XalanDOMChar*, XalanFileLoc, XalanFileLoc) { ++n; }
};

class CountTL : public TraceListener
{
public:
    long n;
    CountTL() : n(0) {}
    virtual void trace(const TracerEvent&) { ++n; }
    virtual void selected(const SelectionEvent&) { ++n; }
    virtual void generated(const GenerateEvent&) { ++n; }
};

// what belongs to one transformer besides the transformer itself
struct Extras
{
    CountPL pl;
    CountTL tl;
    bool plOn, tlOn;
    Extras() : plOn(false), tlOn(false) {}
};

static void applyConfig(XalanTransformer& t, Extras& x, const std::string& name, const std::string& value)
{
    if (name == "indent") t.setIndent(std::atoi(value.c_str()));
    else if (name == "enc") t.setOutputEncoding(XalanDOMString(value == "-" ? "" : value.c_str()));
    else if (name == "escurl") t.setEscapeURLs(XalanTransformer::eEscapeURLs(std::atoi(value.c_str())));
    else if (name == "omitmeta") t.setOmitMETATag(XalanTransformer::eOmitMETATag(std::atoi(value.c_str())));
    else if (name == "plistener")
    {
        x.plOn = value == "1";
        t.setProblemListener(x.plOn ? &x.pl : 0);
    }
    else if (name == "tlistener")
    {
        bool on = value == "1";
        if (on && !x.tlOn) t.addTraceListener(&x.tl);
        if (!on && x.tlOn) t.removeTraceListener(&x.tl);
        x.tlOn = on;
    }
}

static void setObjectParam(XalanTransformer& t, const std::string& k, const std::string& v)
{
    if (v.compare(0, 2, "B:") == 0)
        t.setStylesheetParam(XalanDOMString(k.c_str()), t.getXObjectFactory().createBoolean(v.substr(2) == "true"));
    else if (v.compare(0, 2, "S:") == 0)
        t.setStylesheetParam(XalanDOMString(k.c_str()), t.getXObjectFactory().createString(XalanDOMString(v.substr(2).c_str())));
    else if (v.compare(0, 2, "D:") == 0)
    {
        // node-set parameter: the document node of a source parsed (and owned) by this transformer
        std::istringstream is(g_srcs[v.substr(2)]);
        XSLTInputSource in(&is);
        const XalanParsedSource* ps = 0;
        if (t.parseSource(in, ps) == 0 && ps != 0)
            t.setStylesheetParam(XalanDOMString(k.c_str()), static_cast<XalanNode*>(ps->getDocument()));
    }
    else
        t.setStylesheetParam(k.c_str(), std::atof(v.c_str()));
}

// MemoryManager that counts the bytes currently allocated through it
class CountingMM : public xercesc::MemoryManager
{
public:
    long live;
    CountingMM() : live(0) {}
    virtual void* allocate(XMLSize_t size)
    {
        char* p = static_cast<char*>(std::malloc(size + 16));
        if (p == 0) throw std::bad_alloc();
        *reinterpret_cast<XMLSize_t*>(p) = size;
        live += long(size);
        return p + 16;
    }
    virtual void deallocate(void* q)
    {
        if (q == 0) return;
        char* p = static_cast<char*>(q) - 16;
        live -= long(*reinterpret_cast<XMLSize_t*>(p));
        std::free(p);
    }
    virtual xercesc::MemoryManager* getExceptionMemoryManager() { return this; }
};

struct Reused
{
    XalanTransformer* t;
    std::map<int, const XalanCompiledStylesheet*> sheets;
    std::map<int, const XalanParsedSource*> sources;
    Extras* x;

    Reused() : t(0), x(0) { renew(); }
    ~Reused() { delete t; delete x; }

    void renew()
    {
        delete t;
        delete x;
        x = new Extras;
        sheets.clear();
        sources.clear();
        t = new XalanTransformer;
        t->setWarningStream(0);
    }
};

// constructed on first use (after XMLPlatformUtils::Initialize); never destroyed
static const XalanDOMString& nsURI()
{
    static const XalanDOMString* const p = new XalanDOMString("urn:c06");
    return *p;
}
#define NS nsURI()

static std::string sizes(XalanTransformer& t)
{
    std::ostringstream o;
#if defined(XALAN_C_VERIF_HAS_STACKSIZES)
    std::vector<std::pair<const char*, long> > v;
    t.verifStackSizes(v);
    o << " sizes=";
    for (size_t i = 0; i < v.size(); ++i)
        o << (i ? "," : "") << v[i].first << "=" << v[i].second;
#else
    (void)t;
#endif
    return o.str();
}

static Extras* g_cur = 0;    // listeners of the transformer that is transforming right now

static std::string result(XalanTransformer& t, int rc, const std::string& out)
{
    std::string err = rc != 0 ? std::string(t.getLastError()) : std::string();
    std::ostringstream o;
    o << "R rc=" << rc << " out=" << hex(out) << " err=" << hex(err);
    if (g_cur != 0)
    {
        o << " pl=";
        if (g_cur->plOn) o << g_cur->pl.n; else o << "-";
        o << " tl=";
        if (g_cur->tlOn) o << g_cur->tl.n; else o << "-";
    }
    o << sizes(t);
    return o.str();
}

static int compileInto(XalanTransformer& t, const std::string& sheet, const XalanCompiledStylesheet*& cs)
{
    std::istringstream is(g_sheets[sheet]);
    XSLTInputSource in(&is);
    cs = 0;
    return t.compileStylesheet(in, cs);
}

static int parseInto(XalanTransformer& t, const std::string& src, const XalanParsedSource*& ps)
{
    std::istringstream is(g_srcs[src]);
    XSLTInputSource in(&is);
    ps = 0;
    return t.parseSource(in, ps);
}

static std::string transformSrc(XalanTransformer& t, const std::string& sheet, const std::string& src)
{
    std::istringstream xs(g_srcs[src]), ss(g_sheets[sheet]);
    XSLTInputSource xin(&xs), sin(&ss);
    std::ostringstream out;
    XSLTResultTarget target(out);
    if (g_cur) { g_cur->pl.n = 0; g_cur->tl.n = 0; }
    int rc = t.transform(xin, sin, target);
    return result(t, rc, out.str());
}

static std::string transformCompiled(XalanTransformer& t, const XalanCompiledStylesheet* cs, const XalanParsedSource* ps)
{
    std::ostringstream out;
    XSLTResultTarget target(out);
    if (g_cur) { g_cur->pl.n = 0; g_cur->tl.n = 0; }
    int rc = t.transform(*ps, cs, target);
    return result(t, rc, out.str());
}

// result delivered to a FormatterListener supplied by the caller (the execution context then creates no formatter,
// print writer or output stream of its own)
static std::string transformCompiledFL(XalanTransformer& t, const XalanCompiledStylesheet* cs, const XalanParsedSource* ps)
{
    XalanDOMString buf;
    int rc;
    {
        DOMStringPrintWriter pw(buf);
        FormatterToText fl(pw, false, true);
        XSLTResultTarget target(fl);
        if (g_cur) { g_cur->pl.n = 0; g_cur->tl.n = 0; }
        rc = t.transform(*ps, cs, target);
    }
    CharVectorType v;
    buf.transcode(v);
    return result(t, rc, std::string(v.begin(), v.end()).c_str());
}

static std::vector<std::string> split(const std::string& s, char c)
{
    std::vector<std::string> r;
    if (s == "-" || s.empty()) return r;
    size_t i = 0;
    while (true)
    {
        size_t j = s.find(c, i);
        r.push_back(s.substr(i, j == std::string::npos ? j : j - i));
        if (j == std::string::npos) break;
        i = j + 1;
    }
    return r;
}

int main()
{
    XMLPlatformUtils::Initialize();
    XalanTransformer::initialize();
    {
        Reused R;
        std::string line;
        while (std::getline(std::cin, line))
        {
            std::istringstream ls(line);
            std::vector<std::string> w;
            std::string x;
            while (ls >> x) w.push_back(x);
            std::string reply = "bad-op";
            if (w.empty()) { std::cout << reply << "\n"; continue; }
            const std::string& op = w[0];
            if (op == "def" && w.size() == 4)
            {
                (w[1] == "sheet" ? g_sheets : g_srcs)[w[2]] = unhex(w[3]);
                reply = "ok";
            }
            else if (op == "new" && w.size() == 1)
            {
                R.renew();
                reply = "ok" + sizes(*R.t);      // with the hook: the reference sizes of a new transformer
            }
            else if (op == "compile" && w.size() == 4)
            {
                int slot = std::atoi(w[1].c_str());
                const XalanCompiledStylesheet* cs = 0;
                int rc = compileInto(*R.t, w[2], cs);
                if (rc == 0)
                {
                    // the model re-uses the slot: the previous occupant stays owned by the transformer
                    R.sheets[slot] = cs;
                }
                reply = "rc " + std::to_string(rc);
            }
            else if (op == "parse" && w.size() == 4)
            {
                int slot = std::atoi(w[1].c_str());
                const XalanParsedSource* ps = 0;
                int rc = parseInto(*R.t, w[2], ps);
                if (rc == 0) R.sources[slot] = ps;
                reply = "rc " + std::to_string(rc);
            }
            else if (op == "setexpr" && w.size() == 3)
            {
                R.t->setStylesheetParam(w[1].c_str(), w[2].c_str());
                reply = "ok";
            }
            else if (op == "setnum" && w.size() == 3)
            {
                setObjectParam(*R.t, w[1], w[2]);
                reply = "ok";
            }
            else if (op == "clearparams")
            {
                R.t->clearStylesheetParams();
                reply = "ok";
            }
            else if (op == "install" && w.size() == 3)
            {
                R.t->installExternalFunction(NS, XalanDOMString(w[1].c_str()), FunctionConst(w[1] + ":" + w[2]));
                reply = "ok";
            }
            else if (op == "uninstall" && w.size() == 2)
            {
                R.t->uninstallExternalFunction(NS, XalanDOMString(w[1].c_str()));
                reply = "ok";
            }
            else if (op == "setobj" && w.size() == 3)
            {
                setObjectParam(*R.t, w[1], w[2]);
                reply = "ok";
            }
            else if (op == "setnode" && w.size() == 3)
            {
                setObjectParam(*R.t, w[1], "D:" + w[2]);
                reply = "ok";
            }
            else if (op == "ginstall" && w.size() == 3)
            {
                XalanTransformer::installExternalFunctionGlobal(NS, XalanDOMString(w[1].c_str()), FunctionConst(w[1] + ":" + w[2]));
                reply = "ok";
            }
            else if (op == "guninstall" && w.size() == 2)
            {
                XalanTransformer::uninstallExternalFunctionGlobal(NS, XalanDOMString(w[1].c_str()));
                reply = "ok";
            }
            else if (op == "config" && w.size() == 3)
            {
                applyConfig(*R.t, *R.x, w[1], w[2]);
                reply = "ok";
            }
            else if (op == "leakprobe" && w.size() == 4)
            {
                const int n = std::atoi(w[3].c_str());
                CountingMM mm;
                std::ostringstream o;
                o << "L";
                {
                    XalanTransformer t(mm);
                    t.setWarningStream(0);
                    g_cur = 0;
                    for (int i = 1; i <= n; ++i)
                    {
                        transformSrc(t, w[1], w[2]);
                        if (i == n / 3 || i == 2 * n / 3 || i == n) o << " " << mm.live;
                    }
                }
                o << " end=" << mm.live;
                reply = o.str();
            }
            else if (op == "dsheet" && w.size() == 2)
            {
                int slot = std::atoi(w[1].c_str());
                std::map<int, const XalanCompiledStylesheet*>::iterator i = R.sheets.find(slot);
                int rc;
                if (i == R.sheets.end())
                    rc = R.t->destroyStylesheet(reinterpret_cast<const XalanCompiledStylesheet*>(&g_dummy1));
                else
                {
                    rc = R.t->destroyStylesheet(i->second);
                    R.sheets.erase(i);
                }
                reply = "rc " + std::to_string(rc);
            }
            else if (op == "dsource" && w.size() == 2)
            {
                int slot = std::atoi(w[1].c_str());
                std::map<int, const XalanParsedSource*>::iterator i = R.sources.find(slot);
                int rc;
                if (i == R.sources.end())
                    rc = R.t->destroyParsedSource(reinterpret_cast<const XalanParsedSource*>(&g_dummy2));
                else
                {
                    rc = R.t->destroyParsedSource(i->second);
                    R.sources.erase(i);
                }
                reply = "rc " + std::to_string(rc);
            }
            else if (op == "transform" && w.size() == 4)
            {
                int a = std::atoi(w[1].c_str()), b = std::atoi(w[2].c_str());
                if (R.sheets.count(a) == 0 || R.sources.count(b) == 0)
                    reply = "rc -100";
                else
                {
                    g_cur = R.x;
                    reply = transformCompiled(*R.t, R.sheets[a], R.sources[b]);
                }
            }
            else if (op == "transformfl" && w.size() == 4)
            {
                int a = std::atoi(w[1].c_str()), b = std::atoi(w[2].c_str());
                if (R.sheets.count(a) == 0 || R.sources.count(b) == 0)
                    reply = "rc -100";
                else
                {
                    g_cur = R.x;
                    reply = transformCompiledFL(*R.t, R.sheets[a], R.sources[b]);
                }
            }
            else if (op == "transformsrc" && w.size() == 4)
            {
                g_cur = R.x;
                reply = transformSrc(*R.t, w[1], w[2]);
            }
            else if (op == "fresh" && w.size() == 7)
            {
                Extras x;
                XalanTransformer t;
                t.setWarningStream(0);
                g_cur = &x;
                {
                    std::vector<std::string> cs = split(w[6], ';');
                    for (size_t i = 0; i < cs.size(); ++i)
                    {
                        size_t e = cs[i].find('=');
                        applyConfig(t, x, cs[i].substr(0, e), cs[i].substr(e + 1));
                    }
                }
                std::vector<std::string> ps = split(w[4], ';');
                for (size_t i = 0; i < ps.size(); ++i)
                {
                    size_t e = ps[i].find('=');
                    std::string k = ps[i].substr(0, e), v = ps[i].substr(e + 1);
                    if (v.compare(0, 2, "E:") == 0) t.setStylesheetParam(k.c_str(), v.substr(2).c_str());
                    else if (v.compare(0, 2, "O:") == 0) setObjectParam(t, k, v.substr(2));
                }
                std::vector<std::string> fs = split(w[5], ';');
                for (size_t i = 0; i < fs.size(); ++i)
                {
                    // name:implementation
                    const std::string nm = fs[i].substr(0, fs[i].find(':'));
                    t.installExternalFunction(NS, XalanDOMString(nm.c_str()), FunctionConst(fs[i]));
                }
                if (w[1] == "c" || w[1] == "l")
                {
                    const XalanCompiledStylesheet* cs = 0;
                    const XalanParsedSource* psrc = 0;
                    int rc1 = compileInto(t, w[2], cs);
                    int rc2 = parseInto(t, w[3], psrc);
                    if (rc1 != 0 || rc2 != 0) reply = "R setup-failed " + std::to_string(rc1) + " " + std::to_string(rc2);
                    else reply = w[1] == "l" ? transformCompiledFL(t, cs, psrc) : transformCompiled(t, cs, psrc);
                }
                else
                    reply = transformSrc(t, w[2], w[3]);
            }
            std::cout << reply << "\n";
        }
        std::cout.flush();
    }
    XalanTransformer::terminate();
    XMLPlatformUtils::Terminate();
    return 0;
}
