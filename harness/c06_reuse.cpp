// C06 harness: API histories on ONE XalanTransformer (lines not starting with "fresh"), and the same
// transformation on a newly created transformer ("fresh" lines, whose parameters / functions are the ones the
// Lean model says are in force).  One reply line per request line.
//
//   def sheet|src <name> <hex of UTF-8 bytes>   -> ok          (catalog; shared by all transformers)
//   new                                         -> ok [sizes=...]  (destroy the reused transformer, create another)
//   compile <slot> <sheet> ok|bad               -> rc <n>
//   parse <slot> <src> ok|bad                   -> rc <n>
//   setexpr <key> <expr> | setnum <key> <num> | clearparams | install <f> | uninstall <f>   -> ok
//   dsheet <slot> | dsource <slot>              -> rc <n>
//   transform <sheetslot> <srcslot> <seed>      -> R rc=<n> out=<hex> err=<hex> [sizes=<name=n,...>]
//   transformsrc <sheet> <src> <seed>           -> R ...
//   fresh c|s <sheet> <src> <P> <F>             -> R ...   (P: k=E:expr;k=O:num;... or -   F: f;g or -)
//
// `sizes=` is printed only when /repo carries the guarded hook of proposed/C06-hook.diff
// (marker macro XALAN_C_VERIF_HAS_STACKSIZES).
#include <xalanc/Include/PlatformDefinitions.hpp>

#include <cstdio>
#include <cstdlib>
#include <cstring>
#include <iostream>
#include <map>
#include <sstream>
#include <string>
#include <vector>

#include <xercesc/util/PlatformUtils.hpp>

#include <xalanc/XalanTransformer/XalanTransformer.hpp>
#include <xalanc/XalanTransformer/XalanCompiledStylesheet.hpp>
#include <xalanc/XalanTransformer/XalanParsedSource.hpp>
#include <xalanc/XPath/Function.hpp>
#include <xalanc/XPath/XObjectFactory.hpp>
#include <xalanc/XSLT/XSLTInputSource.hpp>
#include <xalanc/XSLT/XSLTResultTarget.hpp>

#if defined(XALAN_C_VERIF_HAS_STACKSIZES)
#include <xalanc/XSLT/StylesheetExecutionContextDefault.hpp>
#endif

using namespace xalanc;
using xercesc::XMLPlatformUtils;

static std::string unhex(const std::string& h)
{
    std::string r;
    if (h == "-") return r;
    for (size_t i = 0; i + 1 < h.size(); i += 2)
        r.push_back(char(std::strtol(h.substr(i, 2).c_str(), 0, 16)));
    return r;
}

static std::string hex(const std::string& s)
{
    static const char* d = "0123456789abcdef";
    if (s.empty()) return "-";
    std::string r;
    for (unsigned char c : s) { r.push_back(d[c >> 4]); r.push_back(d[c & 15]); }
    return r;
}

// An extension function ext:<name>() returning the string "F:<name>"
class FunctionConst : public Function
{
public:
    explicit FunctionConst(const std::string& n) : m_name(n) {}

    virtual XObjectPtr
    execute(XPathExecutionContext& executionContext, XalanNode*, const XObjectArgVectorType&, const Locator*) const
    {
        XalanDOMString s(executionContext.getMemoryManager());
        s.assign(("F:" + m_name).c_str());
        return executionContext.getXObjectFactory().createString(s);
    }
    using Function::execute;

    virtual FunctionConst*
    clone(MemoryManager& theManager) const
    {
        return XalanCopyConstruct(theManager, *this);
    }

protected:
    const XalanDOMString&
    getError(XalanDOMString& theResult) const
    {
        theResult.assign("ext function error");
        return theResult;
    }

private:
    std::string m_name;
};

static std::map<std::string, std::string> g_sheets, g_srcs;
static int g_dummy1, g_dummy2;

struct Reused
{
    XalanTransformer* t;
    std::map<int, const XalanCompiledStylesheet*> sheets;
    std::map<int, const XalanParsedSource*> sources;

    Reused() : t(0) { renew(); }
    ~Reused() { delete t; }

    void renew()
    {
        delete t;
        sheets.clear();
        sources.clear();
        t = new XalanTransformer;
        t->setWarningStream(0);
    }
};

// constructed on first use (after XMLPlatformUtils::Initialize); never destroyed
static const XalanDOMString& nsURI()
{
    static const XalanDOMString* const p = new XalanDOMString("urn:c06");
    return *p;
}
#define NS nsURI()

static std::string sizes(XalanTransformer& t)
{
    std::ostringstream o;
#if defined(XALAN_C_VERIF_HAS_STACKSIZES)
    std::vector<std::pair<const char*, long> > v;
    t.verifStackSizes(v);
    o << " sizes=";
    for (size_t i = 0; i < v.size(); ++i)
        o << (i ? "," : "") << v[i].first << "=" << v[i].second;
#else
    (void)t;
#endif
    return o.str();
}

static std::string result(XalanTransformer& t, int rc, const std::string& out)
{
    std::string err = rc != 0 ? std::string(t.getLastError()) : std::string();
    std::ostringstream o;
    o << "R rc=" << rc << " out=" << hex(out) << " err=" << hex(err) << sizes(t);
    return o.str();
}

static int compileInto(XalanTransformer& t, const std::string& sheet, const XalanCompiledStylesheet*& cs)
{
    std::istringstream is(g_sheets[sheet]);
    XSLTInputSource in(&is);
    cs = 0;
    return t.compileStylesheet(in, cs);
}

static int parseInto(XalanTransformer& t, const std::string& src, const XalanParsedSource*& ps)
{
    std::istringstream is(g_srcs[src]);
    XSLTInputSource in(&is);
    ps = 0;
    return t.parseSource(in, ps);
}

static std::string transformSrc(XalanTransformer& t, const std::string& sheet, const std::string& src)
{
    std::istringstream xs(g_srcs[src]), ss(g_sheets[sheet]);
    XSLTInputSource xin(&xs), sin(&ss);
    std::ostringstream out;
    XSLTResultTarget target(out);
    int rc = t.transform(xin, sin, target);
    return result(t, rc, out.str());
}

static std::string transformCompiled(XalanTransformer& t, const XalanCompiledStylesheet* cs, const XalanParsedSource* ps)
{
    std::ostringstream out;
    XSLTResultTarget target(out);
    int rc = t.transform(*ps, cs, target);
    return result(t, rc, out.str());
}

static std::vector<std::string> split(const std::string& s, char c)
{
    std::vector<std::string> r;
    if (s == "-" || s.empty()) return r;
    size_t i = 0;
    while (true)
    {
        size_t j = s.find(c, i);
        r.push_back(s.substr(i, j == std::string::npos ? j : j - i));
        if (j == std::string::npos) break;
        i = j + 1;
    }
    return r;
}

int main()
{
    XMLPlatformUtils::Initialize();
    XalanTransformer::initialize();
    {
        Reused R;
        std::string line;
        while (std::getline(std::cin, line))
        {
            std::istringstream ls(line);
            std::vector<std::string> w;
            std::string x;
            while (ls >> x) w.push_back(x);
            std::string reply = "bad-op";
            if (w.empty()) { std::cout << reply << "\n"; continue; }
            const std::string& op = w[0];
            if (op == "def" && w.size() == 4)
            {
                (w[1] == "sheet" ? g_sheets : g_srcs)[w[2]] = unhex(w[3]);
                reply = "ok";
            }
            else if (op == "new" && w.size() == 1)
            {
                R.renew();
                reply = "ok" + sizes(*R.t);      // with the hook: the reference sizes of a new transformer
            }
            else if (op == "compile" && w.size() == 4)
            {
                int slot = std::atoi(w[1].c_str());
                const XalanCompiledStylesheet* cs = 0;
                int rc = compileInto(*R.t, w[2], cs);
                if (rc == 0)
                {
                    // the model re-uses the slot: the previous occupant stays owned by the transformer
                    R.sheets[slot] = cs;
                }
                reply = "rc " + std::to_string(rc);
            }
            else if (op == "parse" && w.size() == 4)
            {
                int slot = std::atoi(w[1].c_str());
                const XalanParsedSource* ps = 0;
                int rc = parseInto(*R.t, w[2], ps);
                if (rc == 0) R.sources[slot] = ps;
                reply = "rc " + std::to_string(rc);
            }
            else if (op == "setexpr" && w.size() == 3)
            {
                R.t->setStylesheetParam(w[1].c_str(), w[2].c_str());
                reply = "ok";
            }
            else if (op == "setnum" && w.size() == 3)
            {
                R.t->setStylesheetParam(w[1].c_str(), std::atof(w[2].c_str()));
                reply = "ok";
            }
            else if (op == "clearparams")
            {
                R.t->clearStylesheetParams();
                reply = "ok";
            }
            else if (op == "install" && w.size() == 2)
            {
                R.t->installExternalFunction(NS, XalanDOMString(w[1].c_str()), FunctionConst(w[1]));
                reply = "ok";
            }
            else if (op == "uninstall" && w.size() == 2)
            {
                R.t->uninstallExternalFunction(NS, XalanDOMString(w[1].c_str()));
                reply = "ok";
            }
            else if (op == "dsheet" && w.size() == 2)
            {
                int slot = std::atoi(w[1].c_str());
                std::map<int, const XalanCompiledStylesheet*>::iterator i = R.sheets.find(slot);
                int rc;
                if (i == R.sheets.end())
                    rc = R.t->destroyStylesheet(reinterpret_cast<const XalanCompiledStylesheet*>(&g_dummy1));
                else
                {
                    rc = R.t->destroyStylesheet(i->second);
                    R.sheets.erase(i);
                }
                reply = "rc " + std::to_string(rc);
            }
            else if (op == "dsource" && w.size() == 2)
            {
                int slot = std::atoi(w[1].c_str());
                std::map<int, const XalanParsedSource*>::iterator i = R.sources.find(slot);
                int rc;
                if (i == R.sources.end())
                    rc = R.t->destroyParsedSource(reinterpret_cast<const XalanParsedSource*>(&g_dummy2));
                else
                {
                    rc = R.t->destroyParsedSource(i->second);
                    R.sources.erase(i);
                }
                reply = "rc " + std::to_string(rc);
            }
            else if (op == "transform" && w.size() == 4)
            {
                int a = std::atoi(w[1].c_str()), b = std::atoi(w[2].c_str());
                if (R.sheets.count(a) == 0 || R.sources.count(b) == 0)
                    reply = "rc -100";
                else
                    reply = transformCompiled(*R.t, R.sheets[a], R.sources[b]);
            }
            else if (op == "transformsrc" && w.size() == 4)
            {
                reply = transformSrc(*R.t, w[1], w[2]);
            }
            else if (op == "fresh" && w.size() == 6)
            {
                XalanTransformer t;
                t.setWarningStream(0);
                std::vector<std::string> ps = split(w[4], ';');
                for (size_t i = 0; i < ps.size(); ++i)
                {
                    size_t e = ps[i].find('=');
                    std::string k = ps[i].substr(0, e), v = ps[i].substr(e + 1);
                    if (v.compare(0, 2, "E:") == 0) t.setStylesheetParam(k.c_str(), v.substr(2).c_str());
                    else if (v.compare(0, 2, "O:") == 0) t.setStylesheetParam(k.c_str(), std::atof(v.substr(2).c_str()));
                }
                std::vector<std::string> fs = split(w[5], ';');
                for (size_t i = 0; i < fs.size(); ++i)
                    t.installExternalFunction(NS, XalanDOMString(fs[i].c_str()), FunctionConst(fs[i]));
                if (w[1] == "c")
                {
                    const XalanCompiledStylesheet* cs = 0;
                    const XalanParsedSource* psrc = 0;
                    int rc1 = compileInto(t, w[2], cs);
                    int rc2 = parseInto(t, w[3], psrc);
                    if (rc1 != 0 || rc2 != 0) reply = "R setup-failed " + std::to_string(rc1) + " " + std::to_string(rc2);
                    else reply = transformCompiled(t, cs, psrc);
                }
                else
                    reply = transformSrc(t, w[2], w[3]);
            }
            std::cout << reply << "\n";
        }
        std::cout.flush();
    }
    XalanTransformer::terminate();
    XMLPlatformUtils::Terminate();
    return 0;
}
