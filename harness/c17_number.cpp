// C17 harness: runs xsl:number through the real library, in-process.
//
// Requests (one per line; hex = lower-case hex of UTF-8 bytes, "-" = empty):
//   xml <hex>          parse the source document (kept until the next `xml`)      -> ok | err <hex msg>
//   xsl <hex>          compile the stylesheet and transform the current source     -> out <hex result> | err <hex msg>
//   alpha <n>          ElemNumber::int2alphaCount(n, Z A..Y, 26)  (direct call)    -> str <hex utf-16 units, 4 digits each | ->
//   roman <n>          ElemNumber::toRoman(n, true)               (direct call)    -> str <…>
// A crash of the process is a result: the check restarts the harness after the crashing request.
#include <xalanc/Include/PlatformDefinitions.hpp>

#include <cstdio>
#include <cstdlib>
#include <iostream>
#include <sstream>
#include <string>

#include <xercesc/util/PlatformUtils.hpp>

#include <xalanc/XalanTransformer/XalanTransformer.hpp>
#include <xalanc/XSLT/ElemNumber.hpp>
#include <xalanc/XalanDOM/XalanDOMString.hpp>

using namespace xalanc;

static std::string unhex(const std::string& h)
{
    std::string r;
    if (h == "-") return r;
    auto v = [](char c) { return c <= '9' ? c - '0' : (c | 32) - 'a' + 10; };
    for (size_t i = 0; i + 1 < h.size(); i += 2) r.push_back(char(v(h[i]) * 16 + v(h[i + 1])));
    return r;
}

static std::string hex(const std::string& s)
{
    if (s.empty()) return "-";
    static const char* d = "0123456789abcdef";
    std::string r;
    for (unsigned char c : s) { r.push_back(d[c >> 4]); r.push_back(d[c & 15]); }
    return r;
}

static std::string hexUnits(const XalanDOMString& s)
{
    if (s.empty()) return "-";
    char b[8];
    std::string r;
    for (XalanDOMString::size_type i = 0; i < s.length(); ++i) { std::snprintf(b, sizeof b, "%04x", unsigned(s[i])); r += b; }
    return r;
}

// the formatting primitives are protected static members
struct Expose : public ElemNumber
{
    using ElemNumber::int2alphaCount;
    using ElemNumber::toRoman;
};

int main()
{
    xercesc::XMLPlatformUtils::Initialize();
    XalanTransformer::initialize();
    {
        XalanTransformer t;
        const XalanParsedSource* src = 0;
        static const XalanDOMChar table[] = { 'Z','A','B','C','D','E','F','G','H','I','J','K','L','M','N','O','P','Q','R','S','T','U','V','W','X','Y', 0 };
        std::string line;
        while (std::getline(std::cin, line))
        {
            const size_t sp = line.find(' ');
            const std::string op = line.substr(0, sp);
            const std::string arg = sp == std::string::npos ? "" : line.substr(sp + 1);
            if (op == "xml")
            {
                if (src) { t.destroyParsedSource(src); src = 0; }
                std::istringstream in(unhex(arg));
                XSLTInputSource is(&in);
                if (t.parseSource(is, src) != 0) { src = 0; std::cout << "err " << hex(t.getLastError()) << "\n"; }
                else std::cout << "ok\n";
            }
            else if (op == "xsl")
            {
                if (!src) { std::cout << "err " << hex("no source") << "\n"; std::cout.flush(); continue; }
                std::istringstream in(unhex(arg));
                XSLTInputSource is(&in);
                const XalanCompiledStylesheet* cs = 0;
                if (t.compileStylesheet(is, cs) != 0) { std::cout << "err " << hex(std::string("compile: ") + t.getLastError()) << "\n"; }
                else
                {
                    std::ostringstream out;
                    XSLTResultTarget rt(out);
                    const int rc = t.transform(*src, cs, rt);
                    if (rc != 0) std::cout << "err " << hex(t.getLastError()) << "\n";
                    else std::cout << "out " << hex(out.str()) << "\n";
                    t.destroyStylesheet(cs);
                }
            }
            else if (op == "alpha")
            {
                XalanDOMString r(XalanMemMgrs::getDefaultXercesMemMgr());
                Expose::int2alphaCount(std::strtoull(arg.c_str(), 0, 10), table, 26, r);
                std::cout << "str " << hexUnits(r) << "\n";
            }
            else if (op == "roman")
            {
                XalanDOMString r(XalanMemMgrs::getDefaultXercesMemMgr());
                Expose::toRoman(std::strtoull(arg.c_str(), 0, 10), true, r);
                std::cout << "str " << hexUnits(r) << "\n";
            }
            else std::cout << "bad\n";
            std::cout.flush();
        }
        if (src) t.destroyParsedSource(src);
    }
    XalanTransformer::terminate();
    xercesc::XMLPlatformUtils::Terminate();
    return 0;
}
