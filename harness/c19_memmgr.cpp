// C19 real-API fault enumeration.
//
// A counting / failing MemoryManager is passed to XalanTransformer (the public API of the freshly built
// working tree).  One *scenario* = (stylesheet, source document, api mode).  A scenario runs in phases
//      ctor -> compile -> parse -> transform -> destroy -> (fresh transformer on the same manager)
// ("direct" api mode: ctor -> transform(xml stream, xsl stream) -> destroy -> fresh).
//
//   c19_memmgr count  <xsl> <xml> <api>                       allocation counts per phase, balance, output hash
//   c19_memmgr sweep  <xsl> <xml> <api> <phase> <from> <to> <jobs> <exc>
//                                                             every k in [from,to]: child process in which the
//                                                             k-th allocation of <phase> throws (once)
//   c19_memmgr one    <xsl> <xml> <api> <phase> <k> <exc> <tracefile>   one k, also dump the event trace
//   c19_memmgr seq    <exc> <tracefile|-> (<xsl> <xml> <api> <phase> <k>)+   several scenarios on ONE manager;
//                                                             k=0: no injected failure
//
// Reply lines (one per k) are `key=value` fields; the specification predicate of C19 is evaluated by
// checks/c19.py on those fields and (for traces) by the Lean ledger (`xm_c19`).
#include <xalanc/Include/PlatformDefinitions.hpp>
#include <xercesc/util/PlatformUtils.hpp>
#include <xercesc/util/OutOfMemoryException.hpp>
#include <xercesc/util/XMLException.hpp>
#include <xercesc/sax/SAXException.hpp>
#include <xalanc/XalanTransformer/XalanTransformer.hpp>
#include <xalanc/XalanTransformer/XalanCompiledStylesheet.hpp>
#include <xalanc/XalanTransformer/XalanParsedSource.hpp>
#include <xalanc/XSLT/XSLTInputSource.hpp>
#include <xalanc/XSLT/XSLTResultTarget.hpp>
#include <xalanc/PlatformSupport/XalanStdOutputStream.hpp>
#include <xalanc/PlatformSupport/XalanOutputStreamPrintWriter.hpp>
#include <xalanc/PlatformSupport/XSLException.hpp>
#include <xalanc/Include/XalanMemoryManagement.hpp>
#include <xalanc/XercesParserLiaison/XercesParserLiaison.hpp>
#include <xalanc/XercesParserLiaison/XercesDocumentWrapper.hpp>
#include <xalanc/XercesParserLiaison/XercesDOMSupport.hpp>
#include <xercesc/framework/MemBufInputSource.hpp>
#include <xalanc/PlatformSupport/XalanDOMStringCache.hpp>
#include <xalanc/XalanTransformer/XalanDocumentBuilder.hpp>
#include <xercesc/sax2/SAX2XMLReader.hpp>
#include <xalanc/XPath/XPathEvaluator.hpp>
#include <xalanc/XPath/XObject.hpp>
#include <xalanc/XPath/NodeRefList.hpp>
#include <xalanc/XalanSourceTree/XalanSourceTreeDOMSupport.hpp>
#include <xalanc/XalanSourceTree/XalanSourceTreeParserLiaison.hpp>
#include <xalanc/XalanDOM/XalanDocument.hpp>
#include <xalanc/XalanDOM/XalanElement.hpp>
#include <xercesc/sax2/XMLReaderFactory.hpp>

#include <cxxabi.h>
#include <dlfcn.h>
#include <execinfo.h>
#include <signal.h>
#include <sys/wait.h>
#include <unistd.h>

#include <climits>
#include <fcntl.h>
#include <cstdio>
#include <cstdlib>
#include <cstring>
#include <exception>
#include <fstream>
#include <iostream>
#include <new>
#include <sstream>
#include <string>
#include <unordered_map>
#include <map>
#include <vector>

using namespace xalanc;

enum Phase { P_NONE = 0, P_CTOR, P_COMPILE, P_PARSE, P_TRANSFORM, P_DESTROY, P_FRESH, P_NPHASE };
static const char* const phaseNames[] = {"none", "ctor", "compile", "parse", "transform", "destroy", "fresh"};

static int phaseOf(const std::string& s)
{
    for (int i = 0; i < P_NPHASE; ++i) if (s == phaseNames[i]) return i;
    return -1;
}

static int g_out = 1;          // fd the child reports to

static void emit(const std::string& s)
{
    size_t off = 0;
    while (off < s.size())
    {
        ssize_t n = ::write(g_out, s.data() + off, s.size() - off);
        if (n <= 0) break;
        off += size_t(n);
    }
}

// ---- symbolised stack (nearest exported symbol, demangled, parameter lists stripped) -------------------
static std::string frameNameUncached(void* addr);
static std::string frameName(void* addr)
{
    // one entry per return address: the counting runs symbolise a stack for every request of a scenario
    static std::unordered_map<void*, std::string>* cache = new std::unordered_map<void*, std::string>;
    std::unordered_map<void*, std::string>::iterator i = cache->find(addr);
    if (i != cache->end()) return i->second;
    return (*cache)[addr] = frameNameUncached(addr);
}

static std::string frameNameUncached(void* addr)
{
    Dl_info info;
    if (!dladdr(addr, &info) || info.dli_sname == 0) return "?";
    int st = 0;
    char* d = abi::__cxa_demangle(info.dli_sname, 0, 0, &st);
    std::string s = (st == 0 && d) ? d : info.dli_sname;
    std::free(d);
    // strip parameter list: cut at the first '(' at template depth 0
    int depth = 0;
    for (size_t i = 0; i < s.size(); ++i)
    {
        if (s[i] == '<') ++depth;
        else if (s[i] == '>') --depth;
        else if (s[i] == '(' && depth == 0) { s.erase(i); break; }
    }
    // collapse template argument lists to "<>" (keeps keys short and free of the frame separator)
    {
        std::string t; int d = 0;
        for (size_t i = 0; i < s.size(); ++i)
        {
            if (s[i] == '<') { if (d == 0) t += "<>"; ++d; }
            else if (s[i] == '>') { if (d > 0) --d; }
            else if (d == 0) t += s[i];
        }
        s = t;
    }
    for (size_t i = 0; i < s.size(); ++i) if (s[i] == ' ') s[i] = '_';
    const std::string ns = "xalanc_1_12::";
    for (size_t p; (p = s.find(ns)) != std::string::npos;) s.erase(p, ns.size());
    const std::string ns2 = "xercesc_3_2::";
    for (size_t p; (p = s.find(ns2)) != std::string::npos;) s.erase(p, ns2.size());
    return s;
}

static std::string stackString(int skip, int maxFrames)
{
    void* buf[64];
    int n = backtrace(buf, 64);
    std::string r;
    int shown = 0;
    for (int i = skip; i < n && shown < maxFrames; ++i)
    {
        std::string f = frameName(buf[i]);
        if (f == "?" ) continue;
        if (!r.empty()) r += "|";
        r += f;
        ++shown;
        if (f == "main") break;
    }
    return r.empty() ? "?" : r;
}

// ---- the manager --------------------------------------------------------------------------------------
class FaultManager : public XalanMemoryManager
{
public:
    enum { EXC_OOM = 0, EXC_BADALLOC = 1 };

    long        allocs[P_NPHASE];     // successful + refused requests per phase
    int         phase;
    int         failPhase;
    long        failAt;               // 1-based index inside failPhase; 0 = never
    bool        fired;
    int         excKind;
    long        foreign, dbl, nullFrees;
    long        nextId;
    bool        tracing;
    std::vector<long>   trace;        // +id alloc, -id free, 0 foreign/double free, LONG_MIN refused
    std::unordered_map<void*, long>  live;    // pointer -> id
    std::unordered_map<void*, long>  freed;   // quarantined (never reused): pointer -> id
    std::unordered_map<void*, size_t> sizes;  // size of every block ever handed out (quarantined blocks are poisoned)
    bool        discarded = false;            // the application has discarded this manager: the library must not touch it again
    long        afterDiscard = 0;             // allocate/deallocate calls after discard()
    std::string failSite;
    bool        reallyFree = std::getenv("C19_REALLY_FREE") != 0;
    bool        recordArena = false;                 // count run: which arena allocators created blocks
    std::map<std::string, long>  arenaAllocs;        // allocator type -> allocation requests made under allocateBlock()
    bool        recordSites = std::getenv("C19_LEAKSITES") != 0;    // diagnosis: call stack of every request, by id
    std::map<long, std::string>  sites;

    FaultManager() : phase(P_NONE), failPhase(P_NONE), failAt(0), fired(false), excKind(EXC_OOM),
                     foreign(0), dbl(0), nullFrees(0), nextId(0), tracing(false)
    {
        std::memset(allocs, 0, sizeof allocs);
    }

    void arm(int ph, long k, int exc) { failPhase = ph; failAt = k; fired = false; excKind = exc; }

    // the application gives the manager up after a failure: everything still outstanding is gone with it (poisoned, as a real
    // arena manager would have unmapped it); any later call into this manager is a violation
    void discard()
    {
        discarded = true;
        for (std::unordered_map<void*, long>::const_iterator i = live.begin(); i != live.end(); ++i)
            std::memset(i->first, 0xDD, sizes[i->first]);
    }

    virtual void* allocate(size_type size)
    {
        if (discarded) ++afterDiscard;
        ++allocs[phase];
        if (!fired && failAt != 0 && phase == failPhase && allocs[phase] == failAt)
        {
            fired = true;
            failSite = stackString(2, 40);
            emit("failsite=" + failSite + "\n");
            if (tracing) trace.push_back(LONG_MIN);
            if (excKind == EXC_BADALLOC) throw std::bad_alloc();
            throw xercesc::OutOfMemoryException();
        }
        if (recordArena)
        {
            const std::string st = stackString(2, 10);
            if (st.find("allocateBlock") != std::string::npos)
            {
                // innermost frame of a concrete allocator class (XStringAllocator::createString, XalanElemTextAllocator::create, ...)
                std::string name = "?";
                size_t pos = 0;
                while (pos < st.size())
                {
                    size_t bar = st.find('|', pos);
                    std::string fr = st.substr(pos, bar == std::string::npos ? std::string::npos : bar - pos);
                    size_t a = fr.find("Allocator::");
                    if (a != std::string::npos && fr.find("ArenaAllocator<>") == std::string::npos) { name = fr.substr(0, a + 9); break; }
                    if (bar == std::string::npos) break;
                    pos = bar + 1;
                }
                ++arenaAllocs[name];
            }
        }
        void* p = std::malloc(size ? size : 1);
        if (p == 0) { emit("fatal=real-oom\n"); _exit(3); }
        std::memset(p, 0xA5, size);
        long id = ++nextId;
        freed.erase(p);             // only possible in really-free mode (address reuse)
        live[p] = id;
        sizes[p] = size;
        if (recordSites) sites[id] = stackString(2, 12);
        if (tracing) trace.push_back(id);
        return p;
    }

    virtual void deallocate(void* p)
    {
        if (p == 0) { ++nullFrees; return; }
        if (discarded) { ++afterDiscard; return; }
        std::unordered_map<void*, long>::iterator it = live.find(p);
        if (it == live.end())
        {
            if (freed.find(p) != freed.end()) ++dbl; else ++foreign;
            if (tracing) trace.push_back(0);
            return;
        }
        if (tracing) trace.push_back(-it->second);
        freed[p] = it->second;      // quarantine: the address is never handed out again in this process
        live.erase(it);
        if (!reallyFree) std::memset(p, 0xDD, sizes[p]);   // poisoned: a read through a stale pointer sees garbage, not the old object
        if (reallyFree) std::free(p);   // sanitizer runs (C19_REALLY_FREE=1): let ASan see use-after-free
    }

    virtual MemoryManager* getExceptionMemoryManager() { return this; }
};

// ---- scenario -----------------------------------------------------------------------------------------
struct Scenario
{
    std::string xsl, xml;   // texts
    bool        direct;
    bool        builder = false;            // api "builder" / "crossb": the source is a XalanDocumentBuilder fed by a SAX2 reader
    bool        xdom = false;               // api "xdom": parseSource(..., useXercesDOM = true)
    bool        cross = false;              // api "cross": transformer A (manager g_other) compiles and parses, transformer B (the
                                            //   armed manager) transforms A's parsed source with A's compiled stylesheet
    bool        writer = false;             // api "writer": ONE application-owned XalanStdOutputStream + XalanOutputStreamPrintWriter
    std::vector<std::string> more;          //   receives the results of xsl, more[0], more[1], ... (different xsl:output encodings)
};

static std::string slurp(const char* path);

// never refuses, not counted: for the harness's own argument objects
class PlainManager : public XalanMemoryManager
{
public:
    virtual void* allocate(size_type size) { return std::malloc(size ? size : 1); }
    virtual void deallocate(void* p) { std::free(p); }
    virtual MemoryManager* getExceptionMemoryManager() { return this; }
};
static PlainManager g_plain;

// <base>.xsl, api: "writer" additionally loads <base>.2.xsl, <base>.3.xsl, ... while they exist
static void setApi(Scenario& sc, const char* xslPath, const std::string& api)
{
    sc.direct = api == "direct" || api == "writer";
    sc.xdom = api == "xdom";
    sc.cross = api == "cross" || api == "crossb";
    sc.builder = api == "builder" || api == "crossb";
    sc.writer = api == "writer";
    if (sc.writer)
    {
        std::string base(xslPath);
        if (base.size() > 4) base.erase(base.size() - 4);
        for (int i = 2; i < 20; ++i)
        {
            std::ostringstream nm; nm << base << "." << i << ".xsl";
            std::ifstream f(nm.str().c_str());
            if (!f) break;
            sc.more.push_back(slurp(nm.str().c_str()));
        }
    }
}

static std::string slurp(const char* path)
{
    std::ifstream f(path, std::ios::binary);
    if (!f) { std::fprintf(stderr, "cannot read %s\n", path); std::exit(2); }
    std::ostringstream o;
    o << f.rdbuf();
    return o.str();
}

static unsigned long hashOf(const std::string& s)
{
    unsigned long h = 1469598103934665603UL;
    for (size_t i = 0; i < s.size(); ++i) { h ^= (unsigned char)s[i]; h *= 1099511628211UL; }
    return h;
}

struct Result
{
    std::string what[P_NPHASE];   // per phase: ok | status | oom | badalloc | xsl | sax | xml | std | other | skipped
    std::string output;
};

template <class F>
static std::string guarded(F f)
{
    try
    {
        int rc = f();
        return rc == 0 ? "ok" : "status";
    }
    catch (const xercesc::OutOfMemoryException&) { return "oom"; }
    catch (const std::bad_alloc&) { return "badalloc"; }
    catch (const XSLException&) { return "xslexc"; }
    catch (const xercesc::SAXException&) { return "saxexc"; }
    catch (const xercesc::XMLException&) { return "xmlexc"; }
    catch (const std::exception&) { return "stdexc"; }
    catch (...) { return "otherexc"; }
}

static void stage(const char* s) { emit(std::string("stage=") + s + "\n"); }

// Runs the phases of one scenario on `fm`.  After a phase that did not end "ok" the remaining working
// phases are skipped and the transformer is destroyed (what a caller does after a failure).
class FaultManager;
static FaultManager* g_other = 0;      // second manager of the "cross" api (never refuses); its ledger is part of every summary

static void runScenario(FaultManager& fm, const Scenario& sc, Result& r, std::ostream* warn)
{
    // cross: the objects are made by transformer A under manager g_other and used by transformer B under `fm`
    XalanTransformer* ta = 0;
    void* memA = 0;
    for (int i = 0; i < P_NPHASE; ++i) r.what[i] = "skipped";
    XalanTransformer* t = 0;
    const XalanCompiledStylesheet* css = 0;
    const XalanParsedSource* src = 0;
    std::ostringstream out;
    bool good = true;

    fm.phase = P_CTOR; stage("ctor");
    void* mem = std::malloc(sizeof(XalanTransformer));
    // the application's own output objects (api "writer"), created from the same manager and reused for every result
    XalanStdOutputStream* os = 0;
    XalanOutputStreamPrintWriter* pw = 0;
    if (sc.writer)
    {
        std::string how = guarded([&]() { os = ::new XalanStdOutputStream(out, fm); pw = ::new XalanOutputStreamPrintWriter(*os); return 0; });
        if (how != "ok") { r.what[P_CTOR] = how; ::delete pw; ::delete os; std::free(mem); fm.phase = P_NONE; return; }
    }
    r.what[P_CTOR] = guarded([&]() { t = ::new (mem) XalanTransformer(fm); return 0; });
    if (r.what[P_CTOR] != "ok") { good = false; t = 0; std::free(mem); }
    if (t) t->setWarningStream(warn);
    if (good && sc.cross)
    {
        memA = std::malloc(sizeof(XalanTransformer));
        std::string how = guarded([&]() { ta = ::new (memA) XalanTransformer(*g_other); return 0; });
        if (how != "ok") { good = false; ta = 0; std::free(memA); r.what[P_CTOR] = how; }
        if (ta) ta->setWarningStream(warn);
    }
    XalanTransformer* const maker = sc.cross ? ta : t;                 // who compiles and parses
    MemoryManager& makerMgr = sc.cross ? static_cast<MemoryManager&>(*g_other) : static_cast<MemoryManager&>(fm);

    if (good && !sc.direct)
    {
        fm.phase = P_COMPILE; stage("compile");
        r.what[P_COMPILE] = guarded([&]() {
            std::istringstream in(sc.xsl);
            XSLTInputSource is(&in, makerMgr);
            return maker->compileStylesheet(is, css); });
        good = r.what[P_COMPILE] == "ok";
    }
    if (good && !sc.direct)
    {
        fm.phase = P_PARSE; stage("parse");
        r.what[P_PARSE] = guarded([&]() {
            if (sc.builder)
            {
                XalanDocumentBuilder* const b = maker->createDocumentBuilder();
                if (b == 0) return -1;
                src = b;                 // owned by `maker` from here on
                xercesc::SAX2XMLReader* const reader = xercesc::XMLReaderFactory::createXMLReader(&makerMgr);
                struct Del { xercesc::SAX2XMLReader* p; ~Del() { delete p; } } del = { reader };
                reader->setContentHandler(b->getContentHandler());
                reader->setDTDHandler(b->getDTDHandler());
                reader->setLexicalHandler(b->getLexicalHandler());
                xercesc::MemBufInputSource mis(reinterpret_cast<const XMLByte*>(sc.xml.data()), sc.xml.size(), "mem", false, &makerMgr);
                reader->parse(mis);
                return 0;
            }
            std::istringstream in(sc.xml);
            XSLTInputSource is(&in, makerMgr);
            return maker->parseSource(is, src, sc.xdom); });
        good = r.what[P_PARSE] == "ok";
    }
    if (good)
    {
        fm.phase = P_TRANSFORM; stage("transform");
        if (sc.writer)
        {
            // every result goes to the same writer; a failed result does not stop the application from producing the next one
            std::string first = "ok";
            for (size_t n = 0; n <= sc.more.size(); ++n)
            {
                const std::string& xsl = n == 0 ? sc.xsl : sc.more[n - 1];
                std::string how = guarded([&]() {
                    std::istringstream inx(sc.xml), ins(xsl);
                    XSLTInputSource isx(&inx, fm), iss(&ins, fm);
                    XSLTResultTarget rt(pw, fm);
                    return t->transform(isx, iss, rt); });
                if (how != "ok" && first == "ok") first = how;
            }
            r.what[P_TRANSFORM] = first;
        }
        else if (sc.direct)
            r.what[P_TRANSFORM] = guarded([&]() {
                std::istringstream inx(sc.xml), ins(sc.xsl);
                XSLTInputSource isx(&inx, fm), iss(&ins, fm);
                XSLTResultTarget rt(&out, fm);
                return t->transform(isx, iss, rt); });
        else
            r.what[P_TRANSFORM] = guarded([&]() {
                XSLTResultTarget rt(&out, fm);
                return t->transform(*src, css, rt); });
        good = r.what[P_TRANSFORM] == "ok";
    }
    fm.phase = P_DESTROY; stage("destroy");
    if (t)
    {
        r.what[P_DESTROY] = guarded([&]() {
            t->~XalanTransformer();
            return 0; });
        std::free(mem);
    }
    if (ta)
    {
        std::string how = guarded([&]() { ta->~XalanTransformer(); return 0; });
        std::free(memA);
        if (how != "ok" && r.what[P_DESTROY] == "ok") r.what[P_DESTROY] = how;
    }
    if (sc.writer)
    {
        std::string how = guarded([&]() { ::delete pw; pw = 0; ::delete os; os = 0; return 0; });
        if (how != "ok" && r.what[P_DESTROY] == "ok") r.what[P_DESTROY] = how;
    }
    fm.phase = P_NONE;
    r.output = out.str();
}

static std::string summary(const FaultManager& fm, const Result& r)
{
    std::ostringstream o;
    for (int p = P_CTOR; p <= P_DESTROY; ++p) o << " " << phaseNames[p] << "=" << r.what[p];
    size_t live = fm.live.size(); long foreign = fm.foreign, dbl = fm.dbl;
    if (g_other != 0 && g_other != &fm) { live += g_other->live.size(); foreign += g_other->foreign; dbl += g_other->dbl; }
    o << " live=" << live << " foreign=" << foreign << " double=" << dbl << " nullfree=" << fm.nullFrees;
    return o.str();
}

static void dumpTrace(const FaultManager& fm, const char* path)
{
    if (path == 0 || std::strcmp(path, "-") == 0) return;
    std::ofstream f(path);
    f << "ledger\n";
    for (size_t i = 0; i < fm.trace.size(); ++i)
    {
        long e = fm.trace[i];
        if (e == LONG_MIN) f << "refuse\n";
        else if (e > 0) f << "alloc " << e << "\n";
        else if (e < 0) f << "free " << -e << "\n";
        else f << "free 0\n";
    }
    f << "end\n";
}

static void onTerminate()
{
    emit("terminate=" + stackString(1, 14) + "\n");
    signal(SIGABRT, SIG_DFL);
    abort();
}

static void onSignal(int sig)
{
    char b[64];
    int n = std::snprintf(b, sizeof b, "signal=%d\n", sig);
    ssize_t w = ::write(g_out, b, size_t(n)); (void)w;
    emit("sigstack=" + stackString(2, 12) + "\n");
    signal(sig, SIG_DFL);
    raise(sig);
}

static Result g_base;      // the clean in-process run of the scenario (what a working transformer does)

// body of one child: scenario with the k-th allocation of `ph` refused, then a fresh transformer on the same manager
static int childBody(const Scenario& sc, int ph, long k, int exc, unsigned long expectHash, const char* traceFile)
{
    std::set_terminate(onTerminate);
    signal(SIGSEGV, onSignal); signal(SIGBUS, onSignal); signal(SIGFPE, onSignal); signal(SIGILL, onSignal);
    alarm(60);
    std::ostringstream warn;
    FaultManager* fm = new FaultManager;
    g_other = sc.cross ? new FaultManager : 0;
    fm->tracing = traceFile != 0;
    fm->arm(ph, k, exc);
    Result r;
    runScenario(*fm, sc, r, &warn);
    std::ostringstream o;
    o << "fired=" << (fm->fired ? 1 : 0) << summary(*fm, r) << " outhash=" << hashOf(r.output) << "\n";
    emit(o.str());
    // a new transformer works afterwards (same manager: "every sequence of scenarios on one manager")
    stage("fresh");
    long liveBefore = long(fm->live.size());
    fm->failAt = 0;
    Result r2;
    runScenario(*fm, sc, r2, &warn);
    bool freshOk = hashOf(r2.output) == expectHash;
    for (int p = P_CTOR; p <= P_DESTROY; ++p) if (r2.what[p] != g_base.what[p]) freshOk = false;
    std::ostringstream o2;
    o2 << "fresh=" << (freshOk ? "ok" : "bad") << " freshleak=" << (long(fm->live.size()) - liveBefore)
       << " foreign2=" << fm->foreign << " double2=" << fm->dbl << "\n";
    emit(o2.str());
    if (traceFile) dumpTrace(*fm, traceFile);
    stage("done");
    return 0;
}

struct Running { pid_t pid; int fd; long k; };

static std::string drain(int fd)
{
    std::string s;
    char buf[4096];
    for (;;)
    {
        ssize_t n = ::read(fd, buf, sizeof buf);
        if (n <= 0) break;
        s.append(buf, size_t(n));
    }
    return s;
}

static void report(long k, const char* phase, const std::string& raw, int status)
{
    // flatten the child's lines into one reply line
    std::string flat, stages;
    std::istringstream in(raw);
    std::string line;
    while (std::getline(in, line))
    {
        if (line.compare(0, 6, "stage=") == 0) { if (!stages.empty()) stages += ","; stages += line.substr(6); }
        else { flat += " "; flat += line; }
    }
    std::ostringstream o;
    o << "k=" << k << " phase=" << phase << " end=";
    if (WIFEXITED(status)) o << "exit" << WEXITSTATUS(status);
    else if (WIFSIGNALED(status)) o << "sig" << WTERMSIG(status);
    else o << "unknown";
    o << " stages=" << stages << flat << "\n";
    std::cout << o.str();
}

static void report(long k, const char* phase, const std::string& raw, int status);
static std::string drain(int fd);

// Read-only access to the private lists of XalanDOMStringCache and to the block list of its string allocator (explicit
// instantiation may name private members; no header is changed and the layout is the library's own).
template<class Tag, typename Tag::type M>
struct Rob { friend typename Tag::type robGet(Tag) { return M; } };
typedef ReusableArenaAllocator<XalanDOMString>                              StrArenaType;
typedef ArenaAllocator<XalanDOMString, ReusableArenaBlock<XalanDOMString> > StrArenaBaseType;
struct TagAvail  { typedef XalanDOMStringCache::StringListType XalanDOMStringCache::*type;       friend type robGet(TagAvail); };
struct TagBusy   { typedef XalanDOMStringCache::StringListType XalanDOMStringCache::*type;       friend type robGet(TagBusy); };
struct TagAlloc  { typedef XalanDOMStringReusableAllocator XalanDOMStringCache::*type;           friend type robGet(TagAlloc); };
struct TagArena  { typedef StrArenaType XalanDOMStringReusableAllocator::*type;                   friend type robGet(TagArena); };
struct TagBlocks { typedef StrArenaBaseType::ArenaBlockListType StrArenaBaseType::*type;          friend type robGet(TagBlocks); };
template struct Rob<TagAvail, &XalanDOMStringCache::m_availableList>;
template struct Rob<TagBusy, &XalanDOMStringCache::m_busyList>;
template struct Rob<TagAlloc, &XalanDOMStringCache::m_allocator>;
template struct Rob<TagArena, &XalanDOMStringReusableAllocator::m_allocator>;
template struct Rob<TagBlocks, &StrArenaBaseType::m_blocks>;

static std::string cacheState(XalanDOMStringCache& c, const FaultManager& fm, const char* word)
{
    StrArenaBaseType& arena = c.*robGet(TagAlloc()).*robGet(TagArena());
    StrArenaBaseType::ArenaBlockListType& blocks = arena.*robGet(TagBlocks());
    size_t alive = 0;
    for (StrArenaBaseType::ArenaBlockListType::iterator i = blocks.begin(); i != blocks.end(); ++i)
        alive += (*i)->getCountAllocated();
    std::ostringstream o;
    o << "sc " << word << " avail=" << (c.*robGet(TagAvail())).size() << " busy=" << (c.*robGet(TagBusy())).size()
      << " alive=" << alive << " bad=" << (fm.dbl + fm.foreign) << "\n";
    return o.str();
}

// c19_memmgr cache <max> <op>...     op: g | r<handle> | R | C
// One real XalanDOMStringCache (bound <max>) driven through a history; every string handed out is filled (it owns a buffer),
// so a string destroyed twice is a buffer released twice.  After every call: sizes of the two lists, strings alive in the
// allocator, bad frees so far; at the end the cache is destroyed.
static int cacheCommand(int argc, char** argv)
{
    int fds[2];
    if (pipe(fds) != 0) return 2;
    std::cout.flush();
    pid_t pid = fork();
    if (pid == 0)
    {
        ::close(fds[0]);
        g_out = fds[1];
        int devnull = ::open("/dev/null", 1);
        if (devnull >= 0) { dup2(devnull, 2); dup2(devnull, 1); }
        std::set_terminate(onTerminate);
        signal(SIGSEGV, onSignal); signal(SIGBUS, onSignal);
        alarm(60);
        FaultManager* fm = new FaultManager;
        fm->phase = P_TRANSFORM;
        {
            void* mem = std::malloc(sizeof(XalanDOMStringCache));
            XalanDOMStringCache* c = ::new (mem) XalanDOMStringCache(*fm, XalanSize_t(atol(argv[2])));
            std::vector<XalanDOMString*> handles;
            emit(cacheState(*c, *fm, "new"));
            for (int a = 3; a < argc; ++a)
            {
                const char* op = argv[a];
                std::string word = "ok";
                if (op[0] == 'g')
                {
                    XalanDOMString& s = c->get();
                    s.assign("0123456789012345678901234567890123456789");
                    handles.push_back(&s);
                }
                else if (op[0] == 'r')
                {
                    size_t h = size_t(atol(op + 1));
                    word = (h < handles.size() && c->release(*handles[h])) ? "true" : "false";
                }
                else if (op[0] == 'R') c->reset();
                else if (op[0] == 'C') c->clear();
                emit(cacheState(*c, *fm, word.c_str()));
            }
            c->~XalanDOMStringCache();
        }
        std::ostringstream o;
        o << "destroyed live=" << fm->live.size() << " bad=" << (fm->dbl + fm->foreign) << "\n";
        emit(o.str());
        stage("done");
        _exit(0);
    }
    ::close(fds[1]);
    std::string raw = drain(fds[0]);
    int status = 0;
    waitpid(pid, &status, 0);
    // one line per call, as the child wrote them; a child that died is reported as such
    std::cout << raw;
    if (!(WIFEXITED(status) && WEXITSTATUS(status) == 0))
        std::cout << "died " << (WIFSIGNALED(status) ? WTERMSIG(status) : -WEXITSTATUS(status)) << "\n";
    std::cout.flush();
    return 0;
}

// c19_memmgr init <xsl> <xml> <from> <to> <jobs> <expected-outhash>
// Global initialisation under a refusing manager (XalanTransformer::initialize(mgr): XSLTInit + its guards, "two-phase global
// initialisation with rollback"): for every k the k-th request of initialize() is refused in a fresh process; the application then
// retries initialize() (nothing refused), runs the scenario with an ordinary transformer, and terminates.  k = 0: nothing refused.
// Must run BEFORE any global initialisation of this process.
static int initCommand(int argc, char** argv)
{
    Scenario sc; sc.xsl = slurp(argv[2]); sc.xml = slurp(argv[3]); sc.direct = false;
    long from = atol(argv[4]), to = atol(argv[5]); int jobs = atoi(argv[6]);
    unsigned long expect = strtoul(argv[7], 0, 10);
    // retry:   refuse request k of initialize(); initialize() again with the SAME manager; transform; terminate
    // discard: refuse request k of initialize(); the application DISCARDS that manager (outstanding blocks poisoned, any later call
    //          into it counted); initialize() with a FRESH manager; transform; terminate
    // term:    initialize(); transform; terminate() with ITS request k refused
    const std::string mode = argc >= 9 ? argv[8] : "retry";
    std::vector<std::pair<pid_t, std::pair<int, long> > > running;
    long next = from;
    while (next <= to || !running.empty())
    {
        while (next <= to && int(running.size()) < jobs)
        {
            int fds[2];
            if (pipe(fds) != 0) return 2;
            std::cout.flush();
            pid_t pid = fork();
            if (pid == 0)
            {
                ::close(fds[0]);
                g_out = fds[1];
                int devnull = ::open("/dev/null", 1);
                if (devnull >= 0) { dup2(devnull, 1); dup2(devnull, 2); }
                std::set_terminate(onTerminate);
                signal(SIGSEGV, onSignal); signal(SIGBUS, onSignal); signal(SIGFPE, onSignal);
                alarm(60);
                xercesc::XMLPlatformUtils::Initialize();
                FaultManager* fm = new FaultManager;
                fm->phase = P_CTOR;
                if (mode != "term") fm->arm(P_CTOR, next, FaultManager::EXC_OOM);
                stage("init");
                std::string first = guarded([&]() { XalanTransformer::initialize(*fm); return 0; });
                std::string second = "-";
                FaultManager* cur = fm;             // the manager the library is initialised with
                size_t left = 0;
                if (first != "ok" && mode == "discard")
                {
                    stage("discard");
                    left = fm->live.size();
                    fm->discard();
                    cur = new FaultManager;
                    cur->phase = P_CTOR;
                    stage("retry");
                    second = guarded([&]() { XalanTransformer::initialize(*cur); return 0; });
                }
                else if (first != "ok")
                {
                    stage("retry");
                    fm->failAt = 0;
                    second = guarded([&]() { XalanTransformer::initialize(*fm); return 0; });
                }
                const long nInit = fm->allocs[P_CTOR];
                std::string work = "skipped", term = "-"; unsigned long h = 0; long nTerm = 0;
                if (first == "ok" || second == "ok")
                {
                    stage("use");
                    std::ostringstream warn;
                    FaultManager* m2 = new FaultManager;
                    Result r;
                    runScenario(*m2, sc, r, &warn);
                    work = r.what[P_TRANSFORM]; h = hashOf(r.output);
                    stage("terminate");
                    cur->phase = P_DESTROY;
                    if (mode == "term") cur->arm(P_DESTROY, next, FaultManager::EXC_OOM);
                    term = guarded([&]() { XalanTransformer::terminate(); return 0; });
                    nTerm = cur->allocs[P_DESTROY];
                }
                std::ostringstream o;
                o << "init1=" << first << " init2=" << second << " n_init=" << nInit << " work=" << work
                  << " same=" << (h == expect ? 1 : 0) << " term=" << term << " n_term=" << nTerm << " fired=" << (cur->fired || fm->fired ? 1 : 0)
                  << " live=" << cur->live.size() << " foreign=" << (cur->foreign + (cur != fm ? fm->foreign : 0))
                  << " double=" << (cur->dbl + (cur != fm ? fm->dbl : 0)) << " left=" << left << " afterdiscard=" << fm->afterDiscard << "\n";
                emit(o.str());
                if (fm->recordSites)
                    for (std::unordered_map<void*, long>::const_iterator li = fm->live.begin(); li != fm->live.end(); ++li)
                        emit("leaksite=" + fm->sites[li->second] + "\n");
                stage("done");
                _exit(0);
            }
            ::close(fds[1]);
            running.push_back(std::make_pair(pid, std::make_pair(fds[0], next)));
            ++next;
        }
        int status = 0;
        pid_t done = waitpid(-1, &status, 0);
        if (done < 0) break;
        for (size_t i = 0; i < running.size(); ++i)
            if (running[i].first == done)
            {
                std::string raw = drain(running[i].second.first);
                ::close(running[i].second.first);
                report(running[i].second.second, "init", raw, status);
                running.erase(running.begin() + long(i));
                break;
            }
    }
    std::cout.flush();
    return 0;
}

int main(int argc, char** argv)
{
    if (argc < 2) { std::fprintf(stderr, "usage\n"); return 2; }
    std::string cmd = argv[1];
    if (cmd == "init" && argc >= 8) return initCommand(argc, argv);
    xercesc::XMLPlatformUtils::Initialize();
    XalanTransformer::initialize();
    int rc = 0;
    if (cmd == "count" && argc >= 5)
    {
        // the counting run (no refusal at all) runs in a child as well: a crash of the unrefused scenario is an outcome to report
        std::cout.flush();
        pid_t cpid = fork();
        if (cpid != 0)
        {
            int st = 0;
            waitpid(cpid, &st, 0);
            if (!(WIFEXITED(st) && WEXITSTATUS(st) == 0))
            {
                std::cout << "counts-died end=";
                if (WIFSIGNALED(st)) std::cout << "sig" << WTERMSIG(st); else std::cout << "exit" << WEXITSTATUS(st);
                std::cout << "\n";
            }
            std::cout.flush();
            return 0;
        }
        Scenario sc; sc.xsl = slurp(argv[2]); sc.xml = slurp(argv[3]); setApi(sc, argv[2], argv[4]);
        const char* traceFile = argc >= 6 ? argv[5] : 0;
        std::ostringstream warn;
        // run twice: the first run warms process-wide caches so that counts are those every child sees
        for (int round = 0; round < 2; ++round)
        {
            FaultManager fm;
            FaultManager other;
            g_other = sc.cross ? &other : 0;
            fm.tracing = traceFile != 0 && round == 1;
            fm.recordArena = round == 1;
            Result r;
            int save = g_out; g_out = 2;
            int devnull = ::open("/dev/null", 1); if (devnull >= 0) g_out = devnull;
            runScenario(fm, sc, r, &warn);
            if (devnull >= 0) ::close(devnull);
            g_out = save;
            if (round == 1)
            {
                std::cout << "counts";
                for (int p = P_CTOR; p <= P_DESTROY; ++p) std::cout << " n_" << phaseNames[p] << "=" << fm.allocs[p];
                std::cout << summary(fm, r) << " outhash=" << hashOf(r.output) << " outlen=" << r.output.size();
                // the compiled stylesheet alone: compile, destroyStylesheet, nothing may stay behind (ownership lists of
                // StylesheetConstructionContextDefault), then the transformer
                {
                    FaultManager fm2;
                    void* mem2 = std::malloc(sizeof(XalanTransformer));
                    XalanTransformer* t2 = ::new (mem2) XalanTransformer(fm2);
                    t2->setWarningStream(&warn);
                    const long live0 = long(fm2.live.size());
                    const XalanCompiledStylesheet* css2 = 0;
                    std::string how = guarded([&]() { std::istringstream in(sc.xsl); XSLTInputSource is(&in, fm2); return t2->compileStylesheet(is, css2); });
                    if (css2 != 0) t2->destroyStylesheet(css2);
                    std::cout << " cssonly=" << how << " cssleak=" << (long(fm2.live.size()) - live0);
                    t2->~XalanTransformer(); std::free(mem2);
                    std::cout << " cssfinal=" << fm2.live.size() << " cssbad=" << (fm2.foreign + fm2.dbl);
                }
                std::cout << " arena=";
                for (std::map<std::string, long>::const_iterator i = fm.arenaAllocs.begin(); i != fm.arenaAllocs.end(); ++i)
                    std::cout << (i == fm.arenaAllocs.begin() ? "" : ",") << i->first << ":" << i->second;
                if (fm.arenaAllocs.empty()) std::cout << "-";
                std::cout << "\n";
                if (traceFile) dumpTrace(fm, traceFile);
            }
        }
        std::cout.flush();
        _exit(0);
    }
    else if ((cmd == "sweep" && argc >= 10) || (cmd == "one" && argc >= 9))
    {
        Scenario sc; sc.xsl = slurp(argv[2]); sc.xml = slurp(argv[3]); setApi(sc, argv[2], argv[4]);
        int ph = phaseOf(argv[5]);
        if (ph <= 0) { std::fprintf(stderr, "bad phase\n"); return 2; }
        long from, to; int jobs; int exc; const char* traceFile = 0;
        long stride = 1;            // sweep ... [stride]: indices from, from+stride, ... (a sample of a large phase)
        if (cmd == "sweep") { from = atol(argv[6]); to = atol(argv[7]); jobs = atoi(argv[8]); exc = std::string(argv[9]) == "badalloc";
                              if (argc >= 11 && atol(argv[10]) > 1) stride = atol(argv[10]); }
        else { from = to = atol(argv[6]); jobs = 1; exc = std::string(argv[7]) == "badalloc"; traceFile = argv[8]; }
        // expected output: a clean in-process run (also warms caches exactly as `count` does)
        unsigned long expect = 0;
        {
            std::ostringstream warn;
            int devnull = ::open("/dev/null", 1); int save = g_out; if (devnull >= 0) g_out = devnull;
            for (int round = 0; round < 2; ++round)
            {
                FaultManager fm; Result r;
                FaultManager other;
                g_other = sc.cross ? &other : 0;
                runScenario(fm, sc, r, &warn);
                g_other = 0;
                expect = hashOf(r.output);
                g_base = r;
            }
            if (devnull >= 0) ::close(devnull);
            g_out = save;
        }
        std::vector<Running> running;
        long next = from;
        std::cout.flush();
        while (next <= to || !running.empty())
        {
            while (next <= to && int(running.size()) < jobs)
            {
                int fds[2];
                if (pipe(fds) != 0) { perror("pipe"); return 2; }
                std::cout.flush();
                pid_t pid = fork();
                if (pid < 0) { perror("fork"); return 2; }
                if (pid == 0)
                {
                    ::close(fds[0]);
                    for (size_t i = 0; i < running.size(); ++i) ::close(running[i].fd);
                    g_out = fds[1];
                    int devnull = ::open("/dev/null", 1);
                    if (devnull >= 0) { dup2(devnull, 1); if (std::getenv("C19_STDERR_TO_PIPE")) dup2(fds[1], 2); else dup2(devnull, 2); }
                    int c = childBody(sc, ph, next, exc, expect, traceFile);
                    _exit(c);
                }
                ::close(fds[1]);
                Running ru; ru.pid = pid; ru.fd = fds[0]; ru.k = next;
                running.push_back(ru);
                next += stride;
            }
            int status = 0;
            pid_t done = waitpid(-1, &status, 0);
            if (done < 0) break;
            for (size_t i = 0; i < running.size(); ++i)
            {
                if (running[i].pid == done)
                {
                    std::string raw = drain(running[i].fd);
                    ::close(running[i].fd);
                    report(running[i].k, argv[5], raw, status);
                    running.erase(running.begin() + long(i));
                    break;
                }
            }
        }
    }
    else if (cmd == "seq" && argc >= 9 && (argc - 4) % 5 == 0)
    {
        // several scenarios on ONE manager, in-process children are not used: run in one forked child so a
        // termination is observed
        int exc = std::string(argv[2]) == "badalloc";
        const char* traceFile = argv[3];
        int fds[2];
        if (pipe(fds) != 0) return 2;
        std::cout.flush();
        pid_t pid = fork();
        if (pid == 0)
        {
            ::close(fds[0]);
            g_out = fds[1];
            int devnull = ::open("/dev/null", 1);
            if (devnull >= 0) { dup2(devnull, 2); dup2(devnull, 1); }
            std::set_terminate(onTerminate);
            signal(SIGSEGV, onSignal); signal(SIGBUS, onSignal);
            alarm(120);
            FaultManager* fm = new FaultManager;
            fm->tracing = std::strcmp(traceFile, "-") != 0;
            g_other = new FaultManager;         // manager MA of the "cross" steps of this history
            std::ostringstream warn;
            for (int a = 4; a + 4 < argc; a += 5)
            {
                Scenario sc; sc.xsl = slurp(argv[a]); sc.xml = slurp(argv[a + 1]); setApi(sc, argv[a], argv[a + 2]);
                int ph = phaseOf(argv[a + 3]); long k = atol(argv[a + 4]);
                fm->arm(k ? ph : P_NONE, k, exc);
                std::memset(fm->allocs, 0, sizeof fm->allocs);
                Result r;
                runScenario(*fm, sc, r, &warn);
                std::ostringstream o;
                o << "step fired=" << (fm->fired ? 1 : 0) << summary(*fm, r) << " outhash=" << hashOf(r.output) << " ;\n";
                emit(o.str());
            }
            dumpTrace(*fm, traceFile);
            stage("done");
            _exit(0);
        }
        ::close(fds[1]);
        std::string raw = drain(fds[0]);
        int status = 0;
        waitpid(pid, &status, 0);
        report(0, "seq", raw, status);
    }
    else if (cmd == "xpe" && argc >= 4)
    {
        // c19_memmgr xpe <xml> <k> <expr>...
        // The document is parsed under manager M1 (XalanSourceTreeParserLiaison); an XPathEvaluator made under manager M2
        // evaluates the expressions on it (XObjects, node lists and strings of M2 over nodes of M1); request #k of M2 is
        // refused once (k = 0: nothing refused).  The evaluator goes first, then the liaison.  Each manager has its own
        // ledger: a block released to the other manager is a foreign release there and a leak here.
        const std::string xml = slurp(argv[2]);
        const long k = atol(argv[3]);
        int fds[2];
        if (pipe(fds) != 0) return 2;
        std::cout.flush();
        pid_t pid = fork();
        if (pid == 0)
        {
            ::close(fds[0]);
            g_out = fds[1];
            int devnull = ::open("/dev/null", 1);
            if (devnull >= 0) { dup2(devnull, 2); dup2(devnull, 1); }
            std::set_terminate(onTerminate);
            signal(SIGSEGV, onSignal); signal(SIGBUS, onSignal);
            alarm(60);
            FaultManager* m1 = new FaultManager;
            FaultManager* m2 = new FaultManager;
            m1->phase = P_PARSE; m2->phase = P_TRANSFORM;
            m2->arm(k ? P_TRANSFORM : P_NONE, k, FaultManager::EXC_OOM);
            std::string result, how;
            {
                XalanSourceTreeDOMSupport       dom;
                XalanSourceTreeParserLiaison    liaison(dom, *m1);
                dom.setParserLiaison(&liaison);
                xercesc::MemBufInputSource is(reinterpret_cast<const XMLByte*>(xml.data()), xml.size(), "mem");
                XalanDocument* const doc = liaison.parseXMLStream(is);
                how = guarded([&]()
                {
                    XPathEvaluator ev(*m2);
                    for (int a = 4; a < argc; ++a)
                    {
                        const XalanDOMString expr(argv[a], *m2);
                        bool isNodeSet = false;
                        {
                            const XObjectPtr r(ev.evaluate(dom, doc, expr.c_str(), doc->getDocumentElement()));
                            isNodeSet = r->getType() == XObject::eTypeNodeSet;
                            XalanDOMString s(*m2);
                            r->str(s);
                            CharVectorType v(*m2);
                            s.transcode(v);
                            result.append(v.begin(), v.end()); result += '|';
                        }
                        if (!isNodeSet) continue;
                        NodeRefList nl(*m2);
                        ev.selectNodeList(nl, dom, doc, expr.c_str(), doc->getDocumentElement());
                        std::ostringstream n; n << nl.getLength() << ';';
                        result += n.str();
                    }
                    return 0;
                });
            }
            std::ostringstream o;
            o << "xpe=" << how << " fired=" << (m2->fired ? 1 : 0) << " n=" << m2->allocs[P_TRANSFORM] << " outhash=" << hashOf(result)
              << " live1=" << m1->live.size() << " foreign1=" << m1->foreign << " double1=" << m1->dbl
              << " live2=" << m2->live.size() << " foreign2=" << m2->foreign << " double2=" << m2->dbl << "\n";
            emit(o.str());
            stage("done");
            _exit(0);
        }
        ::close(fds[1]);
        std::string raw = drain(fds[0]);
        int status = 0;
        waitpid(pid, &status, 0);
        report(k, "xpe", raw, status);
    }
    else if (cmd == "cache" && argc >= 3)
    {
        return cacheCommand(argc, argv);
    }
    else if (cmd == "liaison" && argc >= 4)
    {
        // c19_memmgr liaison <xml> <xalandoc|xercesdoc|reset> [ndocs]
        // XercesParserLiaison used directly under one manager: parse n documents (the liaison owns the Xerces DOM documents it
        // parses), hand the first one back through destroyDocument(), then destroy the liaison.  Reported: blocks outstanding
        // after the liaison is gone, and how many blocks destroyDocument() itself released (a document it owns must go with it).
        const std::string xml = slurp(argv[2]);
        const std::string variant = argv[3];
        const int ndocs = argc >= 5 ? atoi(argv[4]) : 1;
        int fds[2];
        if (pipe(fds) != 0) return 2;
        std::cout.flush();
        pid_t pid = fork();
        if (pid == 0)
        {
            ::close(fds[0]);
            g_out = fds[1];
            int devnull = ::open("/dev/null", 1);
            if (devnull >= 0) { dup2(devnull, 2); dup2(devnull, 1); }
            std::set_terminate(onTerminate);
            signal(SIGSEGV, onSignal); signal(SIGBUS, onSignal);
            alarm(60);
            FaultManager* fm = new FaultManager;
            fm->phase = P_PARSE;
            size_t before = 0, after = 0, withOne = 0;
            std::string how = guarded([&]()
            {
                XercesParserLiaison liaison(*fm);
                std::vector<XalanDocument*> docs;
                for (int i = 0; i < ndocs; ++i)
                {
                    xercesc::MemBufInputSource is(reinterpret_cast<const XMLByte*>(xml.data()), xml.size(), "mem");
                    if (i == 0) withOne = fm->live.size();
                    docs.push_back(liaison.parseXMLStream(is));
                    if (i == 0) withOne = fm->live.size() - withOne;       // blocks one parsed document accounts for
                }
                before = fm->live.size();
                if (variant == "xalandoc") liaison.destroyDocument(docs[0]);
                else if (variant == "xercesdoc")
                    liaison.destroyDocument(const_cast<xercesc::DOMDocument*>(liaison.mapDocumentToWrapper(docs[0])->getXercesDocument()));
                after = fm->live.size();
                return 0;
            });
            std::ostringstream o;
            o << "liaison=" << how << " docblocks=" << withOne << " released=" << (before - after) << " live=" << fm->live.size()
              << " foreign=" << fm->foreign << " double=" << fm->dbl << "\n";
            emit(o.str());
            stage("done");
            _exit(0);
        }
        ::close(fds[1]);
        std::string raw = drain(fds[0]);
        int status = 0;
        waitpid(pid, &status, 0);
        report(0, "liaison", raw, status);
    }
    else if (cmd == "enc" && argc >= 4)
    {
        // c19_memmgr enc <failAt> <enc>...: one application-owned XalanStdOutputStream, setOutputEncoding() for each <enc> with the
        // failAt-th request of the whole history refused; per call: outcome, whether the stream holds a transcoder, bad frees so far.
        // Runs in a child: a double destroy may crash.
        std::cout.flush();
        pid_t cpid = fork();
        if (cpid == 0)
        {
            FaultManager* fm = new FaultManager;
            std::ostringstream sink;
            XalanStdOutputStream* os = ::new XalanStdOutputStream(sink, *fm);
            long base = 0;
            for (int p = 0; p < P_NPHASE; ++p) base += fm->allocs[p];
            fm->phase = P_TRANSFORM;
            fm->arm(P_TRANSFORM, atol(argv[2]), FaultManager::EXC_OOM);
            for (int a = 3; a < argc; ++a)
            {
                std::string how = guarded([&]() { const XalanDOMString name(argv[a], g_plain); os->setOutputEncoding(name); return 0; });
                std::cout << "enc " << argv[a] << " " << (how == "ok" ? "ok" : how == "oom" ? "oom" : "exc")
                          << " slot=" << (os->getTranscoder() != 0 ? 1 : 0) << " bad=" << (fm->foreign + fm->dbl) << "\n";
                std::cout.flush();
            }
            fm->failAt = 0;
            ::delete os;
            std::cout << "destroyed live=" << fm->live.size() << " bad=" << (fm->foreign + fm->dbl) << "\n";
            std::cout.flush();
            _exit(0);
        }
        int st = 0;
        waitpid(cpid, &st, 0);
        if (!(WIFEXITED(st) && WEXITSTATUS(st) == 0)) std::cout << "died\n";
    }
    else
    {
        std::fprintf(stderr, "bad command line\n");
        rc = 2;
    }
    std::cout.flush();
    // no XalanTransformer::terminate(): children were forked from this state; process exit reclaims
    return rc;
}
