// C02 correspondence harness: compiles and evaluates XPath expression strings with the real
// XPathProcessorImpl / XPath::execute of /repo's working tree (in-process), one request per line.
//
//   doc <hexxml> <flat-tree>        parse the document (the flat tree is for the Lean side only)   -> ok <n>
//   var <name> b <0|1>              bind $name to a boolean                                         -> ok
//   var <name> n <16 hex digits>    bind $name to a number (IEEE bits)                              -> ok
//   var <name> s <hex>              bind $name to a string                                          -> ok
//   var <name> x <hexexpr>          bind $name to the value of an expression (context: root)        -> ok | err
//   compile <hexexpr>               op map through the public accessors                              -> ok <ints> | err
//   eval <ctx id> <hexexpr>         type + value                                                     -> B 0|1 | N <bits> | S <hex> | NS <ids> | err
//   cmp <op> <v1> <v2>              XObject::equals/notEquals/lessThan/... on the bound objects
//                                   (v1 == v2 gives the *same* object)                              -> B 0|1 | err
// Strings cross the pipe as 4 hex digits per UTF-16 unit ("-" = empty).  Node ids = position in
// document order: document 0, then element, its attributes, its children (pre-order).
#include <xalanc/Include/PlatformDefinitions.hpp>
#include <xercesc/util/PlatformUtils.hpp>
#include <xercesc/framework/MemBufInputSource.hpp>
#include <xalanc/XalanTransformer/XalanTransformer.hpp>
#include <xalanc/PlatformSupport/XSLException.hpp>
#include <xalanc/DOMSupport/DOMServices.hpp>
#include <xalanc/XalanDOM/XalanDocument.hpp>
#include <xalanc/XalanDOM/XalanElement.hpp>
#include <xalanc/XalanDOM/XalanNamedNodeMap.hpp>
#include <xalanc/XPath/XObject.hpp>
#include <xalanc/XPath/XObjectFactoryDefault.hpp>
#include <xalanc/XPath/XPath.hpp>
#include <xalanc/XPath/XPathConstructionContextDefault.hpp>
#include <xalanc/XPath/XPathEnvSupportDefault.hpp>
#include <xalanc/XPath/XPathExecutionContextDefault.hpp>
#include <xalanc/XPath/XPathInit.hpp>
#include <xalanc/XPath/XPathProcessorImpl.hpp>
#include <xalanc/XPath/XPathFactoryDefault.hpp>
#include <xalanc/XPath/ElementPrefixResolverProxy.hpp>
#include <xalanc/XPath/NodeRefListBase.hpp>
#include <xalanc/XalanSourceTree/XalanSourceTreeDOMSupport.hpp>
#include <xalanc/XalanSourceTree/XalanSourceTreeParserLiaison.hpp>

#include <cstdio>
#include <cstring>
#include <cstdint>
#include <iostream>
#include <map>
#include <sstream>
#include <string>
#include <vector>
#include <algorithm>

using namespace xalanc;

static int hexv(char c) { return c >= '0' && c <= '9' ? c - '0' : c >= 'a' && c <= 'f' ? c - 'a' + 10 : c >= 'A' && c <= 'F' ? c - 'A' + 10 : -1; }

static bool unhex(const std::string& h, XalanDOMString& out)
{
    out.clear();
    if (h == "-") return true;
    if (h.size() % 4) return false;
    for (size_t i = 0; i < h.size(); i += 4)
    {
        int v = 0;
        for (int k = 0; k < 4; ++k) { int d = hexv(h[i + k]); if (d < 0) return false; v = v * 16 + d; }
        out.append(1, XalanDOMChar(v));
    }
    return true;
}

static std::string tohex(const XalanDOMString& s)
{
    if (s.empty()) return "-";
    static const char* d = "0123456789abcdef";
    std::string r;
    for (XalanDOMString::size_type i = 0; i < s.length(); ++i)
    {
        unsigned v = s[i];
        r += d[(v >> 12) & 15]; r += d[(v >> 8) & 15]; r += d[(v >> 4) & 15]; r += d[v & 15];
    }
    return r;
}

static std::string bits(double x)
{
    uint64_t u; std::memcpy(&u, &x, 8);
    if (x != x) u = 0x7ff8000000000000ULL;   // one canonical NaN
    char b[17]; std::snprintf(b, sizeof b, "%016llx", (unsigned long long)u);
    return b;
}

class VarContext : public XPathExecutionContextDefault
{
public:
    VarContext(XPathEnvSupport& e, DOMSupport& d, XObjectFactory& f) : XPathExecutionContextDefault(e, d, f) {}
    std::map<std::string, XObjectPtr> vars;
    virtual const XObjectPtr getVariable(const XalanQName& name, const Locator* locator = 0)
    {
        std::string k;
        const XalanDOMString& l = name.getLocalPart();
        for (XalanDOMString::size_type i = 0; i < l.length(); ++i) k += char(l[i]);
        std::map<std::string, XObjectPtr>::iterator it = vars.find(k);
        if (it != vars.end()) return it->second;
        return XPathExecutionContextDefault::getVariable(name, locator);
    }
};

struct Session
{
    XalanSourceTreeDOMSupport       dom;
    XalanSourceTreeParserLiaison    liaison;
    XPathEnvSupportDefault          env;
    XObjectFactoryDefault           xof;
    VarContext                      ctx;
    XPathConstructionContextDefault cctx;
    XPathFactoryDefault             xpf;
    XPathProcessorImpl              proc;
    XalanDocument*                  doc;
    std::vector<XalanNode*>         nodes;
    std::map<const XalanNode*, int> ids;
    std::string                     xmlbuf;

    Session() : dom(), liaison(dom), env(), xof(), ctx(env, dom, xof), doc(0) { dom.setParserLiaison(&liaison); }

    void number(XalanNode* n)
    {
        ids[n] = int(nodes.size());
        nodes.push_back(n);
        if (n->getNodeType() == XalanNode::ELEMENT_NODE)
        {
            const XalanNamedNodeMap* a = n->getAttributes();
            if (a)
                for (XalanSize_t i = 0; i < a->getLength(); ++i)
                {
                    XalanNode* at = a->item(i);
                    const XalanDOMString& nm = at->getNodeName();
                    // namespace declarations are not attribute nodes of the XPath data model
                    if (startsWith(nm, DOMServices::s_XMLNamespaceWithSeparator) || equals(nm, DOMServices::s_XMLNamespace)) continue;
                    ids[at] = int(nodes.size());
                    nodes.push_back(at);
                }
        }
        for (XalanNode* c = n->getFirstChild(); c; c = c->getNextSibling()) number(c);
    }

    bool parse(const XalanDOMString& xml)
    {
        xmlbuf.clear();
        for (XalanDOMString::size_type i = 0; i < xml.length(); ++i) xmlbuf += char(xml[i]);
        xercesc::MemBufInputSource in((const XMLByte*)xmlbuf.data(), xmlbuf.size(), "c02", false);
        doc = liaison.parseXMLStream(in);
        nodes.clear(); ids.clear();
        if (!doc) return false;
        number(doc);
        return true;
    }

    XPath* compile(const XalanDOMString& e)
    {
        XPath* xp = xpf.create();
        ElementPrefixResolverProxy res(doc ? doc->getDocumentElement() : 0, env, dom);
        proc.initXPath(*xp, cctx, e, res);
        return xp;
    }

    XObjectPtr eval(XalanNode* c, const XalanDOMString& e)
    {
        XPath* xp = compile(e);
        ElementPrefixResolverProxy res(doc ? doc->getDocumentElement() : 0, env, dom);
        return xp->execute(c, res, ctx);
    }

    std::string show(const XObjectPtr& o)
    {
        std::ostringstream out;
        switch (o->getType())
        {
        case XObject::eTypeBoolean: out << "B " << (o->boolean(ctx) ? 1 : 0); break;
        case XObject::eTypeNumber: out << "N " << bits(o->num(ctx)); break;
        case XObject::eTypeString: out << "S " << tohex(o->str(ctx)); break;
        case XObject::eTypeNodeSet:
            {
                const NodeRefListBase& l = o->nodeset();
                std::vector<int> v;
                for (NodeRefListBase::size_type i = 0; i < l.getLength(); ++i)
                {
                    std::map<const XalanNode*, int>::iterator it = ids.find(l.item(i));
                    v.push_back(it == ids.end() ? -1 : it->second);
                }
                // document order *and* duplicate-free: strictly increasing ids
                bool sorted = std::adjacent_find(v.begin(), v.end(), [](int a, int b) { return a >= b; }) == v.end();
                out << "NS";
                for (size_t i = 0; i < v.size(); ++i) out << " " << v[i];
                if (!sorted) out << " !order";
            }
            break;
        default: out << "T" << int(o->getType()); break;
        }
        return out.str();
    }
};

int main()
{
    xercesc::XMLPlatformUtils::Initialize();
    XalanTransformer::initialize();
    {
        Session* s = new Session;
        std::string line;
        while (std::getline(std::cin, line))
        {
            std::istringstream in(line);
            std::string cmd;
            in >> cmd;
            std::string reply;
            try
            {
                if (cmd == "doc")
                {
                    std::string h; in >> h;
                    XalanDOMString xml;
                    delete s; s = new Session;
                    if (!unhex(h, xml) || !s->parse(xml)) reply = "err";
                    else { std::ostringstream o; o << "ok " << s->nodes.size(); reply = o.str(); }
                }
                else if (cmd == "var")
                {
                    std::string name, kind, val; in >> name >> kind >> val;
                    if (kind == "b") { s->ctx.vars[name] = s->xof.createBoolean(val == "1"); reply = "ok"; }
                    else if (kind == "n")
                    {
                        uint64_t u = std::strtoull(val.c_str(), 0, 16); double d; std::memcpy(&d, &u, 8);
                        s->ctx.vars[name] = s->xof.createNumber(d); reply = "ok";
                    }
                    else if (kind == "s")
                    {
                        XalanDOMString v; if (!unhex(val, v)) reply = "bad";
                        else { s->ctx.vars[name] = s->xof.createString(v); reply = "ok"; }
                    }
                    else if (kind == "x")
                    {
                        XalanDOMString e; if (!unhex(val, e)) reply = "bad";
                        else
                        {
                            XObjectPtr o = s->eval(s->doc, e);
                            s->ctx.vars[name] = o;
                            reply = "ok";
                            if (o->getType() == XObject::eTypeNodeSet)
                            {
                                const NodeRefListBase& l = o->nodeset();
                                reply += " NS";
                                for (NodeRefListBase::size_type i = 0; i < l.getLength(); ++i)
                                {
                                    XalanDOMString sv;
                                    DOMServices::getNodeData(*l.item(i), s->ctx, sv);
                                    reply += " " + tohex(sv);
                                }
                            }
                            else reply += " " + s->show(o);
                        }
                    }
                    else reply = "bad";
                }
                else if (cmd == "compile")
                {
                    std::string h; in >> h;
                    XalanDOMString e; if (!unhex(h, e)) reply = "bad";
                    else
                    {
                        XPath* xp = s->compile(e);
                        const XPathExpression& ex = xp->getExpression();
                        std::ostringstream o; o << "ok";
                        for (XPathExpression::OpCodeMapSizeType i = 0; i < ex.opCodeMapSize(); ++i) o << " " << ex.getOpCodeMapValue(i);
                        reply = o.str();
                    }
                }
                else if (cmd == "eval")
                {
                    int id; std::string h; in >> id >> h;
                    XalanDOMString e;
                    if (!unhex(h, e) || id < 0 || size_t(id) >= s->nodes.size()) reply = "bad";
                    else reply = s->show(s->eval(s->nodes[size_t(id)], e));
                }
                else if (cmd == "cmp")
                {
                    std::string op, a, b; in >> op >> a >> b;
                    if (!s->ctx.vars.count(a) || !s->ctx.vars.count(b)) reply = "bad";
                    else
                    {
                        const XObject& l = *s->ctx.vars[a];
                        const XObject& r = *s->ctx.vars[b];
                        bool v;
                        if (op == "eq") v = l.equals(r, s->ctx);
                        else if (op == "ne") v = l.notEquals(r, s->ctx);
                        else if (op == "lt") v = l.lessThan(r, s->ctx);
                        else if (op == "le") v = l.lessThanOrEquals(r, s->ctx);
                        else if (op == "gt") v = l.greaterThan(r, s->ctx);
                        else if (op == "ge") v = l.greaterThanOrEquals(r, s->ctx);
                        else { reply = "bad"; v = false; }
                        if (reply.empty()) reply = v ? "B 1" : "B 0";
                    }
                }
                else reply = "bad";
            }
            catch (const XSLException&) { reply = "err"; }
            catch (const xercesc::XMLException&) { reply = "err"; }
            catch (...) { reply = "err"; }
            std::cout << reply << "\n";
        }
        delete s;
    }
    XalanTransformer::terminate();
    xercesc::XMLPlatformUtils::Terminate();
    return 0;
}
