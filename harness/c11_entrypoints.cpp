// C11 harness: evaluates one compiled XPath through the six public XPath::execute overloads
// (XObjectPtr, bool, double, XalanDOMString, FormatterListener, MutableNodeRefList) on the same
// execution context and prints every result in a canonical form, together with the standard
// conversions (XObject::boolean()/num()/str()) of the generic result.
//
// stdin, one request per line (request strings are lower-case hex of their UTF-8 bytes, "-" = empty;
// strings in replies are hex of their UTF-16 code units, 4 digits each, "-" = empty):
//   doc <hex xml>                               parse a source document (XalanSourceTree); replies `doc <n nodes>`
//   nodes                                       replies one line `node <id> <hex name> <hex local-name> <hex string-value> <bits toDouble(string-value)>` per node, then `end`
//   var <name> b <0|1> | n <text> | s <hex> | ns <hex xpath>     bind $name
//   eval <hex ctx-list xpath> <k> <hex buf> <hex expr>
//        context node list = value of the first expression at the root, context node = its k-th member (0-based)
// reply to eval (single line, space separated):
//   eval … [order]  optional 6th field 0..5: order in which boolean()/num()/str()/str(events) are asked of the generic result
//   strip <0|1>  whitespace-only text nodes are stripped (as under xsl:strip-space elements="*"); applies to later evals and `nodes`
//   Every eval runs with the execution context's current node set to a node other than the context node (current() must
//   still mean the context node through every overload).
//   var <name> r <hex>  binds a result tree fragment (one text node).  Extension functions c11:echo/str/num/bool/first
//   live in namespace urn:c11-ext (declare a prefix for it on the document element).
//   ONE execution context and ONE object factory per document session; nothing is reset between evals.
//   op=<top op code> G=<generic> GB=<b> GN=<bits> GS=<hex> GC=<hex>:<event lengths> B=<..> N=<..> S=<..> C=<hex>:<event lengths> CR=<same via charactersRaw> L=<viaObj>:<ids>
//   generic: b:<0|1> | n:<bits>:<hex NumberToDOMString> | s:<hex>:<bits toDouble> | l:<ids>:<hex string(first)>:<bits> | u | E
//   any field is `E` when that call raised an XSLException.
#include <xalanc/Include/PlatformDefinitions.hpp>

#include <cstdio>
#include <cstring>
#include <iostream>
#include <map>
#include <string>
#include <vector>

#include <xercesc/util/PlatformUtils.hpp>
#include <xercesc/framework/MemBufInputSource.hpp>
#include <xercesc/sax/SAXException.hpp>

#include <xalanc/PlatformSupport/XSLException.hpp>
#include <xalanc/PlatformSupport/DOMStringHelper.hpp>
#include <xalanc/PlatformSupport/DoubleSupport.hpp>
#include <xalanc/PlatformSupport/FormatterListener.hpp>
#include <xalanc/DOMSupport/XalanDocumentPrefixResolver.hpp>
#include <xalanc/DOMSupport/DOMServices.hpp>
#include <xalanc/XPath/XObject.hpp>
#include <xalanc/XPath/Function.hpp>
#include <xalanc/XSLT/XResultTreeFrag.hpp>
#include <xalanc/XalanTransformer/XalanTransformer.hpp>
#include <xalanc/XalanDOM/XalanText.hpp>
#include <xalanc/XPath/XObjectFactoryDefault.hpp>
#include <xalanc/XPath/XPath.hpp>
#include <xalanc/XPath/XPathEvaluator.hpp>
#include <xalanc/XPath/XPathEnvSupportDefault.hpp>
#include <xalanc/XPath/XPathExecutionContextDefault.hpp>
#include <xalanc/XPath/XPathConstructionContextDefault.hpp>
#include <xalanc/XPath/XPathProcessorImpl.hpp>
#include <xalanc/XPath/MutableNodeRefList.hpp>
#include <xalanc/XalanSourceTree/XalanSourceTreeDOMSupport.hpp>
#include <xalanc/XalanSourceTree/XalanSourceTreeInit.hpp>
#include <xalanc/XalanSourceTree/XalanSourceTreeParserLiaison.hpp>

using namespace xalanc;
using xercesc::XMLPlatformUtils;
using xercesc::MemBufInputSource;

static std::string unhex(const std::string& h)
{
    std::string r;
    if (h == "-") return r;
    for (size_t i = 0; i + 1 < h.size(); i += 2)
        r.push_back(char(std::stoi(h.substr(i, 2), 0, 16)));
    return r;
}

static std::string hexOfUtf16(const XalanDOMChar* p, size_t n)
{
    // output strings: 4 hex digits per UTF-16 code unit (Appendix A of DESIGN.md)
    if (n == 0) return "-";
    static const char* d = "0123456789abcdef";
    std::string r;
    for (size_t i = 0; i < n; ++i)
    {
        unsigned c = p[i];
        r.push_back(d[(c >> 12) & 15]); r.push_back(d[(c >> 8) & 15]); r.push_back(d[(c >> 4) & 15]); r.push_back(d[c & 15]);
    }
    return r;
}

static std::string utf8Of(const XalanDOMString& s)
{
    std::string u;
    for (XalanDOMString::size_type i = 0; i < s.length(); ++i)
    {
        unsigned long c = s[i];
        if (c < 0x80) u.push_back(char(c));
        else if (c < 0x800) { u.push_back(char(0xC0 | (c >> 6))); u.push_back(char(0x80 | (c & 0x3F))); }
        else { u.push_back(char(0xE0 | (c >> 12))); u.push_back(char(0x80 | ((c >> 6) & 0x3F))); u.push_back(char(0x80 | (c & 0x3F))); }
    }
    return u;
}

static std::string hexOf(const XalanDOMString& s) { return hexOfUtf16(s.c_str(), s.length()); }

static XalanDOMString domOfUtf8(const std::string& u)
{
    XalanDOMString r;
    size_t i = 0;
    while (i < u.size())
    {
        unsigned long c = (unsigned char)u[i];
        int extra = c < 0x80 ? 0 : c < 0xE0 ? 1 : c < 0xF0 ? 2 : 3;
        if (extra == 1) c &= 0x1F; else if (extra == 2) c &= 0x0F; else if (extra == 3) c &= 0x07;
        for (int k = 1; k <= extra && i + k < u.size(); ++k) c = (c << 6) | ((unsigned char)u[i + k] & 0x3F);
        i += extra + 1;
        if (c >= 0x10000) { c -= 0x10000; r.push_back(XalanDOMChar(0xD800 + (c >> 10))); r.push_back(XalanDOMChar(0xDC00 + (c & 0x3FF))); }
        else r.push_back(XalanDOMChar(c));
    }
    return r;
}

static std::string bits(double d)
{
    unsigned long long u;
    std::memcpy(&u, &d, 8);
    char b[32];
    std::snprintf(b, sizeof b, "%016llx", u);
    return b;
}

// collects character events (text and the length of every event)
class Collector : public FormatterListener
{
public:
    Collector() : FormatterListener(OUTPUT_METHOD_NONE), m_events(0) {}
    XalanDOMString          m_text;
    unsigned                m_events;
    std::vector<unsigned>   m_lens;
    void add(const XMLCh* const chars, const size_type length) { m_text.append(chars, length); ++m_events; m_lens.push_back(unsigned(length)); }
    std::string lens() const
    {
        std::string r;
        for (size_t i = 0; i < m_lens.size(); ++i) { if (i) r += "."; r += std::to_string(m_lens[i]); }
        return r.empty() ? "-" : r;
    }
    virtual void setDocumentLocator(const Locator* const) {}
    virtual void startDocument() {}
    virtual void endDocument() {}
    virtual void startElement(const XMLCh* const, AttributeListType&) {}
    virtual void endElement(const XMLCh* const) {}
    virtual void characters(const XMLCh* const chars, const size_type length) { add(chars, length); }
    virtual void charactersRaw(const XMLCh* const chars, const size_type length) { add(chars, length); }
    virtual void entityReference(const XMLCh* const) {}
    virtual void ignorableWhitespace(const XMLCh* const, const size_type) {}
    virtual void processingInstruction(const XMLCh* const, const XMLCh* const) {}
    virtual void resetDocument() {}
    virtual void comment(const XMLCh* const) {}
    virtual void cdata(const XMLCh* const, const size_type) {}
};

// extension functions c11:echo(x) (returns its argument object), c11:str(x), c11:num(x), c11:bool(x), c11:first(ns)
class ExtFn : public Function
{
public:
    explicit ExtFn(char kind) : m_kind(kind) {}
    virtual XObjectPtr execute(XPathExecutionContext& ec, XalanNode* context, const XObjectArgVectorType& args, const Locator* locator) const
    {
        if (args.size() != 1) generalError(ec, context, locator);
        switch (m_kind)
        {
        case 'e': return args[0];
        case 's': return ec.getXObjectFactory().createString(args[0]->str(ec));
        case 'n': return ec.getXObjectFactory().createNumber(args[0]->num(ec));
        case 'b': return ec.getXObjectFactory().createBoolean(args[0]->boolean(ec));
        default:
            {
                XPathExecutionContext::BorrowReturnMutableNodeRefList l(ec);
                const NodeRefListBase& a = args[0]->nodeset();
                if (a.getLength() > 0) l->addNode(a.item(0));
                l->setDocumentOrder();
                return ec.getXObjectFactory().createNodeSet(l);
            }
        }
    }
    using Function::execute;
    virtual ExtFn* clone(MemoryManager& theManager) const { return XalanCopyConstruct(theManager, *this); }
protected:
    const XalanDOMString& getError(XalanDOMString& theResult) const { theResult.assign("c11 extension functions take one argument"); return theResult; }
private:
    char m_kind;
};

struct Binding { char kind; bool b; double n; XalanDOMString s; std::vector<XalanNode*> ns; XObjectPtr held; XResultTreeFrag* rtf; Binding() : kind(0), b(false), n(0), rtf(0) {} };

class Ctx : public XPathExecutionContextDefault
{
public:
    Ctx(XPathEnvSupport& e, DOMSupport& d, XObjectFactory& f) : XPathExecutionContextDefault(e, d, f), m_factory(f) {}
    std::map<std::string, Binding> m_vars;
    XObjectFactory& m_factory;
    // `strip 1`: behave like a stylesheet with <xsl:strip-space elements="*"/>: whitespace-only text nodes are not there
    void setStrip(bool on) { m_hasPreserveOrStripConditions = on; }
    virtual bool shouldStripSourceNode(const XalanText& node)
    {
        return m_hasPreserveOrStripConditions && node.isWhitespace();
    }
    virtual const XObjectPtr getVariable(const XalanQName& name, const Locator* locator = 0)
    {
        std::string key = utf8Of(name.getLocalPart());
        std::map<std::string, Binding>::iterator it = m_vars.find(key);
        if (it == m_vars.end())
            return XPathExecutionContextDefault::getVariable(name, locator);
        Binding& v = it->second;
        switch (v.kind)
        {
        case 'b': return m_factory.createBoolean(v.b);
        case 'n': return m_factory.createNumber(v.n);
        case 's': return m_factory.createString(v.s);
        case 'r': return XObjectPtr(v.rtf);
        default:
            {
                BorrowReturnMutableNodeRefList l(*this);
                for (size_t i = 0; i < v.ns.size(); ++i) l->addNode(v.ns[i]);
                l->setDocumentOrder();
                return m_factory.createNodeSet(l);
            }
        }
    }
};

struct World
{
    XalanSourceTreeDOMSupport       dom;
    XalanSourceTreeParserLiaison    liaison;
    XPathEnvSupportDefault          env;
    XObjectFactoryDefault           factory;
    XObjectFactoryDefault           rtfStrings;     // owns the strings result-tree-fragment variables are built over
    XPathConstructionContextDefault cctx;
    Ctx                             ec;
    XalanDocument*                  doc;
    std::vector<XalanNode*>         all;
    std::map<const XalanNode*, size_t> index;
    std::string                     xml;
    World() : dom(), liaison(dom), env(), factory(), rtfStrings(), cctx(), ec(env, dom, factory), doc(0) { dom.setParserLiaison(&liaison); }
};

static std::string idsOf(World& w, const NodeRefListBase& l)
{
    std::string r;
    for (NodeRefListBase::size_type i = 0; i < l.getLength(); ++i)
    {
        std::map<const XalanNode*, size_t>::iterator it = w.index.find(l.item(i));
        if (i) r += ".";
        r += it == w.index.end() ? std::string("x") : std::to_string(it->second);
    }
    return r.empty() ? "-" : r;
}

static void compile(World& w, XPath& xp, const XalanDOMString& expr, const PrefixResolver& res)
{
    XPathProcessorImpl proc;
    proc.initXPath(xp, w.cctx, expr, res);
}

static bool nodesetOf(World& w, const std::string& exprUtf8, std::vector<XalanNode*>& out)
{
    XalanDocumentPrefixResolver res(w.doc);
    XPath xp(XalanMemMgrs::getDefaultXercesMemMgr());
    compile(w, xp, domOfUtf8(exprUtf8), res);
    const XObjectPtr r(xp.execute(w.doc, res, w.ec));
    if (r.null() || r->getType() != XObject::eTypeNodeSet) return false;
    const NodeRefListBase& l = r->nodeset();
    for (NodeRefListBase::size_type i = 0; i < l.getLength(); ++i) out.push_back(l.item(i));
    return true;
}

static std::string showGeneric(World& w, const XObjectPtr& g)
{
    if (g.null()) return "null";
    switch (g->getType())
    {
    case XObject::eTypeBoolean: return std::string("b:") + (g->boolean(w.ec) ? "1" : "0");
    case XObject::eTypeNumber:
        {
            XalanDOMString s;
            NumberToDOMString(g->num(w.ec), s);
            return "n:" + bits(g->num(w.ec)) + ":" + hexOf(s);
        }
    case XObject::eTypeString:
        {
            const XalanDOMString& s = g->str(w.ec);
            return "s:" + hexOf(s) + ":" + bits(DoubleSupport::toDouble(s, XalanMemMgrs::getDefaultXercesMemMgr()));
        }
    case XObject::eTypeNodeSet:
        {
            const NodeRefListBase& l = g->nodeset();
            XalanDOMString s;
            if (l.getLength() > 0) DOMServices::getNodeData(*l.item(0), w.ec, s);
            Collector c;
            if (l.getLength() > 0) DOMServices::getNodeData(*l.item(0), w.ec, c, &FormatterListener::characters);
            return "l:" + idsOf(w, l) + ":" + hexOf(s) + ":" + bits(DoubleSupport::toDouble(s, XalanMemMgrs::getDefaultXercesMemMgr())) + ":" + c.lens();
        }
    case XObject::eTypeResultTreeFrag:
        {
            // string-value computed from the fragment itself (not through the object's conversions)
            XalanDOMString s;
            DOMServices::getNodeData(g->rtree(), w.ec, s);
            return "r:" + hexOf(s) + ":" + bits(DoubleSupport::toDouble(s, XalanMemMgrs::getDefaultXercesMemMgr()));
        }
    default: return "u";
    }
}

static void doEval(World& w, const std::string& listExpr, size_t k, const std::string& bufUtf8, const std::string& exprUtf8, int ord)
{
    std::string out;
    XalanDocumentPrefixResolver res(w.doc);
    std::vector<XalanNode*> lst;
    try
    {
        if (!nodesetOf(w, listExpr, lst) || k >= lst.size()) { std::cout << "bad-context" << std::endl; return; }
    }
    catch (const XSLException&) { std::cout << "bad-context" << std::endl; return; }
    XalanNode* const context = lst[k];
    XPath xp(XalanMemMgrs::getDefaultXercesMemMgr());
    try
    {
        compile(w, xp, domOfUtf8(exprUtf8), res);
    }
    catch (const XSLException&) { std::cout << "compile-error" << std::endl; return; }
    catch (const xercesc::SAXException&) { std::cout << "compile-error" << std::endl; return; }
    const XPathExpression& ex = xp.getExpression();
    out += "op=" + std::to_string(int(ex.getOpCodeMapValue(ex.getInitialOpCodePosition() + 2)));
    {
        MutableNodeRefList cl(XalanMemMgrs::getDefaultXercesMemMgr());
        for (size_t i = 0; i < lst.size(); ++i) cl.addNode(lst[i]);
        // the caller's current node is NOT the context node: every execute overload must itself make the context node
        // current (CurrentNodePushAndPop) for the duration of the evaluation, so current() means the same through all six
        XalanNode* const other = (context == static_cast<XalanNode*>(w.doc)) ? w.all.back() : static_cast<XalanNode*>(w.doc);
        const XPathExecutionContext::CurrentNodePushAndPop callersCurrent(w.ec, other);
        // generic
        try
        {
            const XObjectPtr g(xp.execute(context, res, cl, w.ec));
            out += " G=" + showGeneric(w, g);
            if (!g.null() && g->getType() != XObject::eTypeUnknown && g->getType() != XObject::eTypeNull)
            {
                // the standard conversions of the generic result, asked in the order the request chooses
                // (a recycled object must answer like a fresh one whatever was asked of its previous life)
                std::string gb, gn, gs, gc;
                static const char* orders[] = { "bnsc", "nsbc", "snbc", "cnsb", "scnb", "ncsb" };
                const char* o = orders[ord % 6];
                for (int i = 0; i < 4; ++i)
                {
                    switch (o[i])
                    {
                    case 'b': gb = g->boolean(w.ec) ? "1" : "0"; break;
                    case 'n': gn = bits(g->num(w.ec)); break;
                    case 's': gs = hexOf(g->str(w.ec)); break;
                    default:
                        {
                            Collector c;
                            g->str(w.ec, c, &FormatterListener::characters);
                            gc = hexOf(c.m_text) + ":" + c.lens();
                        }
                    }
                }
                out += " GB=" + gb + " GN=" + gn + " GS=" + gs + " GC=" + gc;
            }
            else out += " GB=E GN=E GS=E GC=E";
        }
        catch (const XSLException&) { out += " G=E GB=E GN=E GS=E GC=E"; }
        // bool
        try { bool b = false; xp.execute(context, res, cl, w.ec, b); out += std::string(" B=") + (b ? "1" : "0"); }
        catch (const XSLException&) { out += " B=E"; }
        // double
        try { double d = 0; xp.execute(context, res, cl, w.ec, d); out += " N=" + bits(d); }
        catch (const XSLException&) { out += " N=E"; }
        // string (appended to what the caller supplies)
        try { XalanDOMString s(domOfUtf8(bufUtf8)); xp.execute(context, res, cl, w.ec, s); out += " S=" + hexOf(s); }
        catch (const XSLException&) { out += " S=E"; }
        // character events
        try
        {
            Collector c;
            xp.execute(context, res, cl, w.ec, c, &FormatterListener::characters);
            out += " C=" + hexOf(c.m_text) + ":" + c.lens();
        }
        catch (const XSLException&) { out += " C=E"; }
        // the same through the other FormatterListener member (charactersRaw): same events expected
        try
        {
            Collector c;
            xp.execute(context, res, cl, w.ec, c, &FormatterListener::charactersRaw);
            out += " CR=" + hexOf(c.m_text) + ":" + c.lens();
        }
        catch (const XSLException&) { out += " CR=E"; }
        // node list
        try
        {
            MutableNodeRefList r(XalanMemMgrs::getDefaultXercesMemMgr());
            const XObjectPtr o(xp.execute(context, res, cl, w.ec, r));
            if (o.null()) out += " L=0:" + idsOf(w, r);
            else out += " L=1:" + idsOf(w, o->nodeset());
        }
        catch (const XSLException&) { out += " L=E"; }
    }
    // no factory reset here: one execution context and one object factory live for the whole document session,
    // so released XObjects are recycled by later evaluations
    std::cout << out << std::endl;
}

int main()
{
    XMLPlatformUtils::Initialize();
    XalanTransformer::initialize();      // also installs the XSLT functions (current(), generate-id(), …) in the XPath function table
    int rc = 0;
    {
        XalanSourceTreeInit sourceTreeInit;
        {
            const XalanDOMString ns("urn:c11-ext");
            XPathEnvSupportDefault::installExternalFunctionGlobal(ns, XalanDOMString("echo"), ExtFn('e'));
            XPathEnvSupportDefault::installExternalFunctionGlobal(ns, XalanDOMString("str"), ExtFn('s'));
            XPathEnvSupportDefault::installExternalFunctionGlobal(ns, XalanDOMString("num"), ExtFn('n'));
            XPathEnvSupportDefault::installExternalFunctionGlobal(ns, XalanDOMString("bool"), ExtFn('b'));
            XPathEnvSupportDefault::installExternalFunctionGlobal(ns, XalanDOMString("first"), ExtFn('f'));
        }
        World* w = 0;
        std::string line;
        while (std::getline(std::cin, line))
        {
            std::vector<std::string> t;
            {
                size_t i = 0;
                while (i < line.size())
                {
                    size_t j = line.find(' ', i);
                    if (j == std::string::npos) j = line.size();
                    if (j > i) t.push_back(line.substr(i, j - i));
                    i = j + 1;
                }
            }
            if (t.empty()) { std::cout << "bad" << std::endl; continue; }
            try
            {
                if (t[0] == "doc" && t.size() == 2)
                {
                    delete w;
                    w = new World;
                    w->xml = unhex(t[1]);
                    MemBufInputSource src(reinterpret_cast<const XMLByte*>(w->xml.data()), w->xml.size(), "c11-doc");
                    w->doc = w->liaison.parseXMLStream(src);
                    std::vector<XalanNode*> all;
                    nodesetOf(*w, "/descendant-or-self::node() | //@*", all);
                    w->all = all;
                    for (size_t i = 0; i < all.size(); ++i) w->index[all[i]] = i;
                    w->factory.reset();
                    std::cout << "doc " << all.size() << std::endl;
                }
                else if (t[0] == "nodes" && w)
                {
                    for (size_t i = 0; i < w->all.size(); ++i)
                    {
                        XalanNode* n = w->all[i];
                        XalanDOMString s;
                        DOMServices::getNodeData(*n, w->ec, s);
                        XalanDOMString ln;
                        const XalanNode::NodeType ty = n->getNodeType();
                        if (ty == XalanNode::ELEMENT_NODE || ty == XalanNode::PROCESSING_INSTRUCTION_NODE || ty == XalanNode::ATTRIBUTE_NODE)
                            ln = DOMServices::getLocalNameOfNode(*n);
                        std::cout << "node " << i << " " << hexOf(DOMServices::getNameOfNode(*n)) << " " << hexOf(ln) << " " << hexOf(s)
                                  << " " << bits(DoubleSupport::toDouble(s, XalanMemMgrs::getDefaultXercesMemMgr())) << std::endl;
                    }
                    std::cout << "end" << std::endl;
                }
                else if (t[0] == "strip" && w && t.size() == 2)
                {
                    w->ec.setStrip(t[1] == "1");
                    std::cout << "ok" << std::endl;
                }
                else if (t[0] == "var" && w && t.size() == 4)
                {
                    Binding b; b.kind = t[2][0];
                    if (t[2] == "b") b.b = t[3] == "1";
                    else if (t[2] == "n")
                    {
                        // "Infinity" is not an XPath number (toDouble gives NaN): bind the IEEE value itself
                        if (t[3] == "Infinity") b.n = DoubleSupport::getPositiveInfinity();
                        else if (t[3] == "-Infinity") b.n = DoubleSupport::getNegativeInfinity();
                        else b.n = DoubleSupport::toDouble(domOfUtf8(t[3]), XalanMemMgrs::getDefaultXercesMemMgr());
                    }
                    else if (t[2] == "s") b.s = domOfUtf8(unhex(t[3]));
                    else if (t[2] == "r")
                    {
                        // a result tree fragment holding one text node: built over the fragment proxy of a string object
                        b.s = domOfUtf8(unhex(t[3]));
                        b.held = w->rtfStrings.createString(b.s);
                        b.rtf = new XResultTreeFrag(const_cast<XalanDocumentFragment&>(b.held->rtree()), XalanMemMgrs::getDefaultXercesMemMgr());
                        // XResultTreeFrag::dereferenced() deletes the fragment and itself when the last reference goes
                        // (no StylesheetExecutionContext here): keep one reference for the life of the process
                        new XObjectPtr(b.rtf);
                    }
                    else { b.kind = 'l'; nodesetOf(*w, unhex(t[3]), b.ns); w->factory.reset(); }
                    w->ec.m_vars[t[1]] = b;
                    std::cout << "ok" << std::endl;
                }
                else if (t[0] == "eval" && w && (t.size() == 5 || t.size() == 6))
                {
                    doEval(*w, unhex(t[1]), size_t(std::stoul(t[2])), unhex(t[3]), unhex(t[4]), t.size() == 6 ? std::stoi(t[5]) : 0);
                }
                else std::cout << "bad" << std::endl;
            }
            catch (const XSLException& e)
            {
                std::cout << "ERR:xsl" << std::endl;
            }
            catch (const xercesc::SAXException&)
            {
                std::cout << "ERR:sax" << std::endl;
            }
            catch (const std::exception& e)
            {
                std::cout << "ERR:std " << e.what() << std::endl;
            }
        }
        delete w;
    }
    XalanTransformer::terminate();
    XMLPlatformUtils::Terminate();
    return rc;
}
