// C07 harness: N threads, each with its own XalanTransformer, share compiled stylesheets and
// parsed sources (XalanSourceTree; Xerces DOM wrapped in thread-safe mode; and, as *negative
// controls* outside the property's quantifier, Xerces DOM wrapped without the thread-safe string
// pool / in on-demand mapping mode).  Every thread's output is byte-compared with the output of
// a sequential run made before the threads start.  Built twice: against the ThreadSanitizer
// build of the working tree (race detection; any report is a finding) and against the normal
// build (full-speed hammering for output equality).
//
// stdin, one request per line (paths must not contain blanks):
//   sheet  <id> <path>                       register a stylesheet (compiled, to check it, and dropped)
//   source <id> <mode> <path>                mode: default | xerces-ts | xerces-ts-setid (no DTD needed: IDs marked with
//                                            DOMElement::setIdAttribute) | xerces-default | xerces-nopool | xerces-mapping
//   Every `run` first computes the sequential reference on PRIVATE copies (own compile, own parse), then
//   compiles/parses the SHARED objects afresh, so that the threads meet them cold: anything built lazily
//   inside a shared object is built under contention, where ThreadSanitizer can see it.
//   run <label> <threads> <rounds> <seed> <job>...     job = <sheetid>:<srcid>:<kind>
//        a job list may contain the token +cfg: every transformer (the reference one too) then gets a PRIVATE configuration --
//        its own extension function urn:c07ext:tag() and stylesheet parameter `par` (both return the owner's tag), its own
//        problem listener, trace listener, entity resolver and error handler (counts are appended to the output)
//        kind b = shared stylesheet + shared source
//             s = shared stylesheet, source parsed by every thread itself
//             d = shared source, stylesheet compiled by every thread itself
// stdout, one reply per request:
//   sheet  -> "sheet <id> ok" | "sheet <id> ERR <msg>"
//   source -> "source <id> ok" | "source <id> ERR <msg>"
//   run    -> "run <label> jobs=<n> " then for every job "<job>=<rc>:<fnv64 of seq output>:<len>:<equal>/<total>"
//             followed by " DIFF <job> thread=<t> round=<r> got=<rc>:<hash>:<len>" for the first differing one
#include <xalanc/Include/PlatformDefinitions.hpp>

#include <atomic>
#include <condition_variable>
#include <cstdint>
#include <cstdio>
#include <cstring>
#include <iostream>
#include <map>
#include <memory>
#include <mutex>
#include <sstream>
#include <string>
#include <thread>
#include <vector>

#include <cxxabi.h>
#include <dlfcn.h>
#include <execinfo.h>

#include <xercesc/dom/DOM.hpp>
#include <xercesc/framework/LocalFileInputSource.hpp>
#include <xercesc/parsers/XercesDOMParser.hpp>
#include <xercesc/util/PlatformUtils.hpp>

#include <xercesc/sax/EntityResolver.hpp>
#include <xercesc/sax/ErrorHandler.hpp>
#include <xercesc/sax/SAXParseException.hpp>

#include <xalanc/PlatformSupport/URISupport.hpp>
#include <xalanc/XPath/Function.hpp>
#include <xalanc/XPath/XObjectFactory.hpp>
#include <xalanc/XSLT/ProblemListenerDefault.hpp>
#include <xalanc/XSLT/TraceListener.hpp>
#include <xalanc/XalanTransformer/XalanTransformer.hpp>
#include <xalanc/XalanTransformer/XalanCompiledStylesheet.hpp>
#include <xalanc/XalanTransformer/XalanParsedSource.hpp>
#include <xalanc/XalanTransformer/XercesDOMParsedSource.hpp>
#include <xalanc/XalanTransformer/XercesDOMWrapperParsedSource.hpp>
#include <xalanc/XercesParserLiaison/XercesDOMSupport.hpp>
#include <xalanc/XercesParserLiaison/XercesParserLiaison.hpp>

using namespace xalanc;

// ---- allocation probe -------------------------------------------------------------------------------------------------
// Every SHARED object of a run (the owner transformer with its compiled stylesheets and default parsed sources, the liaisons and
// wrappers of the Xerces-backed parsed sources) is built on this MemoryManager; the threads' own transformers use the default
// one.  While the threads run the probe is armed: any allocate()/deallocate() that reaches it then happens INSIDE a shared
// object during the concurrent phase.  The only legitimate ones are those under the mutex of the thread-safe wrapper's string
// pool (XercesLiaisonXalanDOMStringPool::get is on the stack); everything else is a write to shared state by a transformation
// -- reported with the library frames of its stack, in the ThreadSanitizer build and in the normal build alike.
class SharedProbe : public xercesc::MemoryManager
{
public:
    SharedProbe() : m_armed(false), m_allowed(0), m_bad(0) {}
    virtual xercesc::MemoryManager* getExceptionMemoryManager() { return XalanMemMgrs::getDefaultXercesMemMgr().getExceptionMemoryManager(); }
    virtual void* allocate(XMLSize_t size) { if (m_armed.load()) note("allocate"); return XalanMemMgrs::getDefaultXercesMemMgr().allocate(size); }
    virtual void deallocate(void* p) { if (m_armed.load() && p != 0) note("deallocate"); XalanMemMgrs::getDefaultXercesMemMgr().deallocate(p); }
    void arm() { m_allowed = 0; m_bad = 0; { std::lock_guard<std::mutex> g(m_mutex); m_first.clear(); } m_armed = true; }
    void disarm() { m_armed = false; }
    long allowed() const { return m_allowed.load(); }
    long bad() const { return m_bad.load(); }
    std::string first() { std::lock_guard<std::mutex> g(m_mutex); return m_first; }
private:
    void note(const char* what)
    {
        void* frames[64];
        const int n = backtrace(frames, 64);
        bool pool = false;
        std::string syms;
        int shown = 0;
        for (int i = 2; i < n; ++i)
        {
            Dl_info info;
            if (dladdr(frames[i], &info) == 0 || info.dli_sname == 0) continue;
            if (strstr(info.dli_sname, "XercesLiaisonXalanDOMStringPool") != 0) pool = true;
            if (shown < 7 && info.dli_fname != 0 && strstr(info.dli_fname, "libxalan-c") != 0)
            {
                int st = 0;
                char* dm = abi::__cxa_demangle(info.dli_sname, 0, 0, &st);
                std::string nm = dm ? dm : info.dli_sname;
                if (dm) free(dm);
                size_t par = nm.find('(');
                if (par != std::string::npos) nm.erase(par);
                for (size_t a; (a = nm.find("xalanc_1_12::")) != std::string::npos; ) nm.erase(a, 13);
                for (size_t a; (a = nm.find('<')) != std::string::npos; ) { size_t b = a, d = 0; for (; b < nm.size(); ++b) { if (nm[b] == '<') ++d; else if (nm[b] == '>' && --d == 0) break; } nm.erase(a, b < nm.size() ? b - a + 1 : std::string::npos); }
                for (char& c : nm) if (c == ' ') c = '_';
                syms += (shown ? ";" : "") + nm;
                ++shown;
            }
        }
        if (pool) { ++m_allowed; return; }
        ++m_bad;
        std::lock_guard<std::mutex> g(m_mutex);
        if (m_first.empty()) m_first = std::string(what) + ":" + (syms.empty() ? "?" : syms);
    }
    std::atomic<bool> m_armed;
    std::atomic<long> m_allowed, m_bad;
    std::mutex m_mutex;
    std::string m_first;
};

static SharedProbe g_probe;

static uint64_t fnv(const std::string& s)
{
    uint64_t h = 1469598103934665603ull;
    for (unsigned char c : s) { h ^= c; h *= 1099511628211ull; }
    return h;
}

// A parsed source over a Xerces DOM whose wrapper is built with caller-chosen flags
// (used for the negative controls; same shape as XercesDOMWrapperParsedSource).
class FlagParsedSource : public XalanParsedSource
{
public:
    FlagParsedSource(const xercesc::DOMDocument* doc, XercesParserLiaison& l, const XalanDOMString& uri,
                     bool threadSafe, bool buildWrapper) :
        m_liaison(l), m_doc(l.createDocument(doc, threadSafe, buildWrapper, false)), m_uri(uri) {}
    ~FlagParsedSource() { m_liaison.destroyDocument(m_doc); }
    XalanDocument* getDocument() const { return m_doc; }
    XalanParsedSourceHelper* createHelper(MemoryManager& m) const { return XercesDOMParsedSourceHelper::create(m); }
    const XalanDOMString& getURI() const { return m_uri; }
private:
    XercesParserLiaison& m_liaison;
    XalanDocument* m_doc;
    XalanDOMString m_uri;
};

// ---- everything the public API lets a thread configure privately on its own XalanTransformer ("+cfg" runs) ----
// The extension function and the stylesheet parameter carry the owner's tag, so cross-talk between transformers
// shows up in the output; the listeners count what they are told, and the counts are appended to the output.
static const char* const EXT_NS = "urn:c07ext";
static const char* const GLOB_NS = "urn:c07glob";

class TagFunction : public Function
{
public:
    explicit TagFunction(const std::string& tag) : m_tag(tag) {}
    virtual XObjectPtr
    execute(XPathExecutionContext& executionContext, XalanNode*, const XObjectArgVectorType&, const Locator*) const
    {
        return executionContext.getXObjectFactory().createString(XalanDOMString(m_tag.c_str()));
    }
    using Function::execute;
    virtual TagFunction* clone(MemoryManager& theManager) const { return XalanCopyConstruct(theManager, *this); }
protected:
    const XalanDOMString& getError(XalanDOMString& theResult) const { theResult.assign("tag() failed"); return theResult; }
private:
    std::string m_tag;
};

class CountingProblemListener : public ProblemListenerDefault
{
public:
    CountingProblemListener() : ProblemListenerDefault(XalanMemMgrs::getDefaultXercesMemMgr()), count(0), hash(1469598103934665603ull) {}
    void note(const XalanDOMString& msg)
    {
        ++count;
        for (XalanDOMString::size_type i = 0; i < msg.length(); ++i) { hash ^= msg[i]; hash *= 1099511628211ull; }
    }
    virtual void problem(eSource, eClassification, const XalanDOMString& msg, const Locator*, const XalanNode*) { note(msg); }
    virtual void problem(eSource, eClassification, const XalanDOMString& msg, const XalanNode*) { note(msg); }
    virtual void problem(eSource, eClassification, const XalanNode*, const ElemTemplateElement*, const XalanDOMString& msg,
                         const XalanDOMChar*, XalanFileLoc, XalanFileLoc) { note(msg); }
    unsigned long count; uint64_t hash;
};

class CountingTraceListener : public TraceListener
{
public:
    CountingTraceListener() : t(0), s(0), g(0) {}
    virtual void trace(const TracerEvent&) { ++t; }
    virtual void selected(const SelectionEvent&) { ++s; }
    virtual void generated(const GenerateEvent&) { ++g; }
    unsigned long t, s, g;
};

class CountingHandlers : public xercesc::EntityResolver, public xercesc::ErrorHandler
{
public:
    CountingHandlers() : resolved(0), problems(0) {}
    virtual xercesc::InputSource* resolveEntity(const XMLCh* const, const XMLCh* const) { ++resolved; return 0; }
    virtual void warning(const xercesc::SAXParseException&) { ++problems; }
    virtual void error(const xercesc::SAXParseException&) { ++problems; }
    virtual void fatalError(const xercesc::SAXParseException& e) { ++problems; throw xercesc::SAXParseException(e); }
    virtual void resetErrors() {}
    unsigned long resolved, problems;
};

struct PrivateConfig
{
    std::string tag;
    TagFunction fn;
    CountingProblemListener pl;
    CountingTraceListener tl;
    CountingHandlers h;
    bool validate;
    explicit PrivateConfig(const std::string& t, bool v = false) : tag(t), fn(t), validate(v) {}
    void apply(XalanTransformer& x)
    {
        x.setUseValidation(validate);      // private too: odd threads validate what they parse themselves, even ones do not
        x.installExternalFunction(XalanDOMString(EXT_NS), XalanDOMString("tag"), fn);
        x.setStylesheetParam(XalanDOMString("par"), XalanDOMString(("'" + tag + "'").c_str()));
        x.setProblemListener(&pl);
        x.addTraceListener(&tl);
        x.setEntityResolver(&h);
        x.setErrorHandler(&h);
    }
    // trailer appended to the output of one transformation; the counters are reset
    std::string trailer()
    {
        std::ostringstream o;
        o << "\n#CFG pl=" << pl.count << ":" << std::hex << pl.hash << std::dec << " tl=" << tl.t << "," << tl.s << "," << tl.g
          << " h=" << h.resolved << "," << h.problems;
        pl.count = 0; pl.hash = 1469598103934665603ull; tl.t = tl.s = tl.g = 0; h.resolved = h.problems = 0;
        return o.str();
    }
};

static void replaceAll(std::string& s, const std::string& from, const std::string& to)
{
    for (size_t p = 0; (p = s.find(from, p)) != std::string::npos; p += to.size()) s.replace(p, from.size(), to);
}

struct SourceSpec { std::string mode, path; };
struct SheetSpec { std::string path; };

// one parsed source instance (shared by the threads, or private to the reference run)
struct Source
{
    std::string mode, path;
    const XalanParsedSource* parsed = nullptr;
    // keep-alive for the Xerces variants (declaration order = reverse destruction order)
    std::unique_ptr<xercesc::XercesDOMParser> parser;
    std::unique_ptr<XercesParserLiaison> liaison;
    std::unique_ptr<XercesDOMSupport> support;
    std::unique_ptr<XalanParsedSource> owned;
};

struct Sheet
{
    std::string path;
    const XalanCompiledStylesheet* compiled = nullptr;
};

struct Job { std::string text; std::string sheet, src; char kind; };

struct Result { int rc; uint64_t h; size_t len; std::string out; };

// Parses `spec` into `s`; `owner` keeps default / xerces-default sources alive.
static void markIdAttributes(xercesc::DOMNode* n)
{
    // IDs that do not come from a DTD: what an application does with DOMElement::setIdAttribute (or a schema does)
    static const XMLCh idName[] = { 'i', 'd', 0 };
    for (; n != 0; n = n->getNextSibling())
    {
        if (n->getNodeType() == xercesc::DOMNode::ELEMENT_NODE)
        {
            xercesc::DOMElement* e = static_cast<xercesc::DOMElement*>(n);
            if (e->hasAttribute(idName)) e->setIdAttribute(idName, true);
        }
        markIdAttributes(n->getFirstChild());
    }
}

static bool makeSource(XalanTransformer& owner, const SourceSpec& spec, Source& s, std::string& err, MemoryManager& mgr = XalanMemMgrs::getDefaultXercesMemMgr())
{
    s.mode = spec.mode; s.path = spec.path;
    const std::string& mode = spec.mode;
    try
    {
        if (mode == "default" || mode == "xerces-default")
        {
            int rc = owner.parseSource(XSLTInputSource(spec.path.c_str()), s.parsed, mode == "xerces-default");
            if (rc != 0) { err = owner.getLastError(); return false; }
        }
        else
        {
            s.parser.reset(new xercesc::XercesDOMParser);
            s.parser->setDoNamespaces(true);
            XalanDOMString uri;
            URISupport::getURLStringFromString(XalanDOMString(spec.path.c_str()), uri);
            const xercesc::LocalFileInputSource in(XalanDOMString(spec.path.c_str()).c_str());
            s.parser->parse(in);
            if (s.parser->getDocument() == 0) { err = "no document"; return false; }
            s.liaison.reset(new XercesParserLiaison(mgr));
            s.support.reset(new XercesDOMSupport(*s.liaison));
            if (mode == "xerces-ts-setid") markIdAttributes(s.parser->getDocument()->getFirstChild());
            if (mode == "xerces-ts" || mode == "xerces-ts-setid")   // the documented way: threadSafe=true, buildWrapper=true
                s.owned.reset(new XercesDOMWrapperParsedSource(s.parser->getDocument(), *s.liaison, *s.support, uri, mgr));
            else if (mode == "xerces-nopool")    // wrapper pre-built, plain (unsynchronised) string pool
                s.owned.reset(new FlagParsedSource(s.parser->getDocument(), *s.liaison, uri, false, true));
            else if (mode == "xerces-mapping")   // wrapper nodes built on demand
                s.owned.reset(new FlagParsedSource(s.parser->getDocument(), *s.liaison, uri, false, false));
            else { err = "bad mode"; return false; }
            s.parsed = s.owned.get();
        }
    }
    catch (...) { err = "exception while parsing"; return false; }
    if (s.parsed == nullptr) { err = "no parsed source"; return false; }
    return true;
}

static Result transformOnce(XalanTransformer& t, const Sheet& sh, const Source& so, char kind, PrivateConfig* cfg = nullptr)
{
    std::ostringstream os;
    XSLTResultTarget target(os);
    int rc;
    if (kind == 'b')
        rc = t.transform(*so.parsed, sh.compiled, target);
    else if (kind == 's')
        rc = t.transform(XSLTInputSource(so.path.c_str()), sh.compiled, target);
    else
        rc = t.transform(*so.parsed, XSLTInputSource(sh.path.c_str()), target);
    Result r;
    r.out = os.str();
    if (cfg && rc != 0)
    {
        // a transformation that ends in an error leaves what the output buffer had flushed: the cut can fall inside a tag
        for (size_t L = cfg->tag.size() - 1; L >= 1; --L)
            if (r.out.size() >= L && r.out.compare(r.out.size() - L, L, cfg->tag, 0, L) == 0) { r.out.replace(r.out.size() - L, L, "@@TRUNC@@"); break; }
    }
    if (rc != 0) { r.out += "\n#ERR "; r.out += t.getLastError(); }
    if (cfg)
    {
        r.out += cfg->trailer();
        // the owner's tag is the only thing that may differ between transformers: normalise it, so that any OTHER tag
        // (another thread's function or parameter) is a difference from the sequential reference
        replaceAll(r.out, cfg->tag, "@@TAG@@");
    }
    r.rc = rc; r.h = fnv(r.out); r.len = r.out.size();
    return r;
}

struct Barrier
{
    std::mutex m; std::condition_variable cv; int waiting = 0, gen = 0, n;
    explicit Barrier(int n_) : n(n_) {}
    void wait()
    {
        std::unique_lock<std::mutex> l(m);
        int g = gen;
        if (++waiting == n) { waiting = 0; ++gen; cv.notify_all(); }
        else cv.wait(l, [&] { return g != gen; });
    }
};

static std::string escape(const std::string& in)
{
    std::string esc;
    for (unsigned char c : in) { char buf[8]; if (c == '\\' || c < 32 || c > 126) { snprintf(buf, sizeof buf, "\\x%02x", c); esc += buf; } else esc += char(c); }
    return esc;
}

int main(int argc, char** argv)
{
    const char* dumpDir = argc > 1 ? argv[1] : nullptr;   // where differing outputs are written
    xercesc::XMLPlatformUtils::Initialize();
    XalanTransformer::initialize();
    {
        // a process-wide extension function, installed while the process is still single-threaded (documented use)
        TagFunction globalFn("glob");
        XalanTransformer::installExternalFunctionGlobal(XalanDOMString(GLOB_NS), XalanDOMString("name"), globalFn);
        std::map<std::string, SheetSpec> sheetSpecs;
        std::map<std::string, SourceSpec> sourceSpecs;
        std::string line;
        while (std::getline(std::cin, line))
        {
            std::istringstream is(line);
            std::string cmd;
            is >> cmd;
            if (cmd == "sheet")
            {
                std::string id, path; is >> id >> path;
                XalanTransformer t; t.setWarningStream(0);
                const XalanCompiledStylesheet* c = nullptr;
                int rc = t.compileStylesheet(XSLTInputSource(path.c_str()), c);
                if (rc != 0 || c == nullptr) { std::cout << "sheet " << id << " ERR " << escape(t.getLastError()) << std::endl; continue; }
                sheetSpecs[id].path = path;
                std::cout << "sheet " << id << " ok" << std::endl;
            }
            else if (cmd == "source")
            {
                std::string id, mode, path; is >> id >> mode >> path;
                SourceSpec spec; spec.mode = mode; spec.path = path;
                XalanTransformer t; t.setWarningStream(0);
                std::string err;
                bool ok;
                { Source s; ok = makeSource(t, spec, s, err); }
                if (!ok) { std::cout << "source " << id << " ERR " << escape(err) << std::endl; continue; }
                sourceSpecs[id] = spec;
                std::cout << "source " << id << " ok" << std::endl;
            }
            else if (cmd == "run")
            {
                std::string label; int nthreads, rounds; unsigned seed;
                is >> label >> nthreads >> rounds >> seed;
                std::vector<Job> jobs;
                std::string jt;
                bool bad = false;
                bool cfgRun = false;
                while (is >> jt)
                {
                    if (jt == "+cfg") { cfgRun = true; continue; }
                    Job j; j.text = jt;
                    size_t a = jt.find(':'), b = jt.rfind(':');
                    if (a == std::string::npos || b == a || b + 1 >= jt.size()) { bad = true; break; }
                    j.sheet = jt.substr(0, a); j.src = jt.substr(a + 1, b - a - 1); j.kind = jt[b + 1];
                    if (!sheetSpecs.count(j.sheet) || !sourceSpecs.count(j.src) || !strchr("bsd", j.kind)) { bad = true; break; }
                    jobs.push_back(j);
                }
                if (bad || jobs.empty() || nthreads < 1 || rounds < 1) { std::cout << "run " << label << " bad" << std::endl; continue; }
                const size_t nj = jobs.size();

                // 1. sequential reference on private objects: own transformer, own compile, own parse per job
                std::vector<Result> refN, refV;     // refV: the reference of a transformer with setUseValidation(true) (+cfg runs)
                for (int pass = 0; pass < (cfgRun ? 2 : 1); ++pass)
                for (const Job& j : jobs)
                {
                    std::vector<Result>& ref = (pass == 0 ? refN : refV);
                    XalanTransformer t; t.setWarningStream(0);
                    PrivateConfig refCfg("@@T-ref@@", pass == 1);
                    Sheet sh; sh.path = sheetSpecs[j.sheet].path;
                    Source so; std::string err;
                    bool ok = t.compileStylesheet(XSLTInputSource(sh.path.c_str()), sh.compiled) == 0 && makeSource(t, sourceSpecs[j.src], so, err);
                    if (!ok) { Result r; r.rc = -99; r.out = "#setup " + err; r.h = fnv(r.out); r.len = r.out.size(); ref.push_back(r); continue; }
                    if (cfgRun) refCfg.apply(t);     // after compile/parse: the private configuration concerns transformations
                    ref.push_back(transformOnce(t, sh, so, j.kind, cfgRun ? &refCfg : nullptr));
                }

                // 2. the shared objects, fresh (cold) for this run
                XalanTransformer owner(g_probe); owner.setWarningStream(0);
                std::map<std::string, Sheet> sheets;
                std::map<std::string, Source> sources;
                bool setupOk = true;
                for (const Job& j : jobs)
                {
                    if (!sheets.count(j.sheet))
                    {
                        Sheet& sh = sheets[j.sheet]; sh.path = sheetSpecs[j.sheet].path;
                        if (owner.compileStylesheet(XSLTInputSource(sh.path.c_str()), sh.compiled) != 0) setupOk = false;
                    }
                    if (!sources.count(j.src))
                    {
                        std::string err;
                        if (!makeSource(owner, sourceSpecs[j.src], sources[j.src], err, g_probe)) setupOk = false;
                    }
                }
                if (!setupOk) { std::cout << "run " << label << " setup-failed" << std::endl; continue; }

                // 3. the threads
                std::vector<std::atomic<int>> equal(nj), total(nj);
                for (size_t k = 0; k < nj; ++k) { equal[k] = 0; total[k] = 0; }
                std::mutex diffMutex; std::string firstDiff;
                Barrier barrier(nthreads);
                std::vector<std::thread> ths;
                g_probe.arm();      // from here to the join nothing may allocate inside a shared object (string-pool mutex excepted)
                for (int ti = 0; ti < nthreads; ++ti)
                {
                    ths.emplace_back([&, ti]()
                    {
                        XalanTransformer t; t.setWarningStream(0);     // one per thread, as the documentation requires
                        // all tags have the same length as the reference tag "@@T-ref@@": a transformation that ends in an
                        // error leaves whatever the 512-byte output buffer had flushed, so lengths must not differ
                        char tagText[16]; snprintf(tagText, sizeof tagText, "@@T-%03d@@", ti % 1000);
                        PrivateConfig cfg(tagText, cfgRun && (ti % 2 == 1));
                        const std::vector<Result>& ref = cfg.validate ? refV : refN;
                        if (cfgRun) cfg.apply(t);
                        uint64_t x = (uint64_t(seed) + 1) * 0x9E3779B97F4A7C15ull + uint64_t(ti + 1) * 0xBF58476D1CE4E5B9ull;
                        barrier.wait();
                        for (int r = 0; r < rounds; ++r)
                        {
                            for (size_t k0 = 0; k0 < nj; ++k0)
                            {
                                // every thread walks the jobs from its own offset so that at any moment different
                                // threads use different (and, with more threads than jobs, also the same) shared objects
                                x ^= x << 13; x ^= x >> 7; x ^= x << 17;
                                size_t k = (k0 + size_t(ti) * (1 + size_t(seed % 3)) + size_t(r)) % nj;
                                if ((x & 7) == 0) std::this_thread::yield();
                                const Job& j = jobs[k];
                                Result got = transformOnce(t, sheets[j.sheet], sources[j.src], j.kind, cfgRun ? &cfg : nullptr);
                                ++total[k];
                                if (got.rc == ref[k].rc && got.out == ref[k].out) ++equal[k];
                                else
                                {
                                    std::lock_guard<std::mutex> g(diffMutex);
                                    if (firstDiff.empty())
                                    {
                                        std::ostringstream d;
                                        d << " DIFF " << j.text << " thread=" << ti << " round=" << r << " got=" << got.rc << ":" << std::hex << got.h << std::dec << ":" << got.len;
                                        firstDiff = d.str();
                                        if (dumpDir)
                                        {
                                            std::string p = std::string(dumpDir) + "/" + label + ".";
                                            FILE* f = fopen((p + "seq.out").c_str(), "wb"); if (f) { fwrite(ref[k].out.data(), 1, ref[k].out.size(), f); fclose(f); }
                                            f = fopen((p + "thr.out").c_str(), "wb"); if (f) { fwrite(got.out.data(), 1, got.out.size(), f); fclose(f); }
                                        }
                                    }
                                }
                            }
                        }
                    });
                }
                for (auto& th : ths) th.join();
                g_probe.disarm();
                std::ostringstream o;
                o << "run " << label << " jobs=" << nj;
                (void) cfgRun;
                const std::vector<Result>& ref = refN;
                for (size_t k = 0; k < nj; ++k)
                    o << " " << jobs[k].text << "=" << ref[k].rc << ":" << std::hex << ref[k].h << std::dec << ":" << ref[k].len << ":" << equal[k] << "/" << total[k];
                o << firstDiff;
                o << " PROBE allowed=" << g_probe.allowed() << " bad=" << g_probe.bad();
                if (g_probe.bad() != 0) o << " first=" << g_probe.first();
                std::cout << o.str() << std::endl;
                sources.clear();    // before `owner` goes
            }
            else if (cmd == "dump")
            {
                // dump <sheetid> <srcid> <kind>: print the sequential output (for replays / debugging)
                std::string a, b, k; is >> a >> b >> k;
                if (!sheetSpecs.count(a) || !sourceSpecs.count(b) || k.empty() || !strchr("bsd", k[0])) { std::cout << "dump bad" << std::endl; continue; }
                XalanTransformer t; t.setWarningStream(0);
                Sheet sh; sh.path = sheetSpecs[a].path;
                Source so; std::string err;
                if (t.compileStylesheet(XSLTInputSource(sh.path.c_str()), sh.compiled) != 0 || !makeSource(t, sourceSpecs[b], so, err)) { std::cout << "dump setup-failed" << std::endl; continue; }
                Result r = transformOnce(t, sh, so, k[0]);
                std::cout << "dump " << r.rc << " " << escape(r.out) << std::endl;
            }
            else if (!cmd.empty())
            {
                std::cout << "bad" << std::endl;
            }
        }
    }
    XalanTransformer::terminate();
    xercesc::XMLPlatformUtils::Terminate();
    XalanTransformer::ICUCleanUp();
    return 0;
}
