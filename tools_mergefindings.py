import json,sys
src=sys.argv[1]
a=json.load(open(src)); p='/verif/known_findings.json'; b=json.load(open(p))
ids={x['id'] for x in b['known']} | {l.strip() for l in open('/verif/tools_removed_findings.txt') if l.strip()}
fixed_what=' '.join(f['what'] for f in b['fixed'])
n=0
for x in a['known']:
    if x['id'] not in ids and x['id'] not in sys.argv[2:]:
        b['known'].append(x); n+=1
json.dump(b,open(p,'w'),indent=1); print('added',n)
