#!/bin/bash
# integrator tool (never run by checks): confirm a seeded change delivered by a sub-agent and file it under /verif/seeded/.
#   tools_seed_verify.sh <PROP> <VARIANT> [<srcdir>]       srcdir default /tmp/seedout/<PROP>/<VARIANT>
# Confirms in a scratch worktree: clean tree -> demo passes; patch applies; builds; 21/21 ctest; demo fails.
# Then runs ./check <PROP> against the patched worktree (VERIF_REPO) and records whether it was caught.
set -u
P=$1; X=$2; SRC=${3:-/tmp/seedout/$P/$X}
WT=/tmp/sv/$P-$X; CACHE=/tmp/sv/$P-$X-cache
OUT=/verif/seeded/$P-$X
LOG=/tmp/sv/$P-$X.log
mkdir -p /tmp/sv; rm -rf $CACHE; : > $LOG
git -C /repo worktree remove --force $WT >/dev/null 2>&1; rm -rf $WT
git -C /repo worktree add --detach $WT >/dev/null 2>&1 || { echo "worktree failed"; exit 2; }
cfg() { cmake -S $WT -B $WT/_build -G Ninja -DCMAKE_BUILD_TYPE=RelWithDebInfo -DCMAKE_CXX_FLAGS=-Wno-error -Dtranscoder=icu -Dmessage-loader=inmemory >>$LOG 2>&1 && cmake --build $WT/_build -j12 >>$LOG 2>&1; }
res="{}"
cfg || { echo "$P-$X: base build failed"; exit 2; }
bash $SRC/demo.sh $WT $WT/_build >>$LOG 2>&1; d0=$?
git -C $WT apply $SRC/patch.diff >>$LOG 2>&1; ap=$?
cfg; b1=$?
ctest --test-dir $WT/_build -j8 --timeout 900 >>$LOG 2>&1; ct=$?
npass=$(grep -c "Passed" $LOG | tail -1)
bash $SRC/demo.sh $WT $WT/_build >>$LOG 2>&1; d1=$?
echo "$P-$X: demo_clean=$d0 apply=$ap build=$b1 ctest=$ct demo_patched=$d1"
ok=0; if [ $d0 = 0 ] && [ $ap = 0 ] && [ $b1 = 0 ] && [ $ct = 0 ] && [ $d1 = 1 ]; then ok=1; fi
caught="not-run"; line=""
if [ $ok = 1 ] && [ -e /verif/checks/$(echo $P | tr A-Z a-z).py ]; then
  rm -rf $WT/_build
  (cd /verif && VERIF_REPO=$WT VERIF_CACHE=$CACHE timeout 3000 ./check $P --tier quick > /tmp/sv/$P-$X.check.log 2>&1); rc=$?
  line=$(grep -m1 "^VIOLATION" /tmp/sv/$P-$X.check.log)
  if [ $rc = 1 ] && [ -n "$line" ]; then caught="caught"; else caught="MISSED(rc=$rc)"; fi
  echo "$P-$X: check rc=$rc $line"
fi
if [ $ok = 1 ]; then
  mkdir -p $OUT; cp $OUT/meta.json /tmp/sv/$P-$X.oldmeta.json 2>/dev/null; cp -r $SRC/. $OUT/
  python3 - <<PY
import json
p='$OUT/meta.json'
try: m=json.load(open(p))
except Exception: m={}
m['confirmed_by_integrator']={'demo_on_clean_tree_exit':$d0,'patch_applies':True,'builds':True,'ctest_21_pass':True,'demo_on_patched_tree_exit':$d1,
  'check_quick_result':'$caught','check_line':'''$line'''.strip(),
  'ran':'tools_seed_verify.sh $P $X: scratch worktree /tmp/sv/$P-$X, cmake+ninja build, ctest -j8, demo.sh before/after, VERIF_REPO=<worktree> ./check $P --tier quick'}
try: old=json.load(open('/tmp/sv/$P-$X.oldmeta.json'))
except Exception: old={}
if old.get('history'): m['history']=old['history']
elif old.get('confirmed_by_integrator',{}).get('check_quick_result','').startswith('MISSED') and '$caught'=='caught':
    m['history']='missed by the check as it stood when this change was delivered; caught after the check was strengthened (mechanism relayed to the builder, patch and demonstration withheld), re-verified by this script'
json.dump(m,open(p,'w'),indent=1)
PY
rm -f /tmp/sv/$P-$X.oldmeta.json
fi
git -C /repo worktree remove --force $WT >/dev/null 2>&1; rm -rf $WT $CACHE
# a check run with VERIF_REPO leaves Generated/*.lean of the mutated tree behind: regenerate from /repo
exit 0
