#!/bin/bash
# integrator tool: run the thorough check of every claimed property on /repo, N at a time (default 3), and summarise
cd /verif
N=${1:-3}
ids=$(python3 -c "import json;print(' '.join(c['property_id'] for c in json.load(open('MANIFEST.json'))['checks']))")
run1() { id=$1; s=$(date +%s); out=$(./check $id --tier thorough 2>&1); rc=$?; e=$(date +%s)
  { echo "$id rc=$rc $((e-s))s $(echo "$out" | grep -E "^C[0-9]+ thorough" | sed 's/^C[0-9]* thorough: //')"
    echo "$out" | grep -E "^(VIOLATION|  failing|  no longer|  \[obl)" | cut -c1-300 | head -12; } ; }
export -f run1
echo $ids | tr ' ' '\n' | xargs -P $N -I{} bash -c 'run1 {}'
