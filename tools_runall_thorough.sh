#!/bin/bash
cd /verif
for id in $(python3 -c "import json;print(' '.join(c['property_id'] for c in json.load(open('MANIFEST.json'))['checks']))"); do
  s=$(date +%s); out=$(./check $id --tier thorough 2>&1); rc=$?; e=$(date +%s)
  echo "$id rc=$rc $((e-s))s $(echo "$out" | grep -E "^C[0-9]+ thorough" | sed 's/^C[0-9]* thorough: //')"
  echo "$out" | grep -E "^(VIOLATION|  failing|  no longer|  \[obl)" | cut -c1-300
done
