#!/usr/bin/env python3
"""C17 translator 2: records, from /repo's *current working tree*, the structural facts about the three navigation
functions of ElemNumber.cpp that the hand transcription in lean/XalanModel/C17/Navigate.lean relies on, and writes
them to lean/XalanModel/Generated/C17_NavShape.lean.  If a fact no longer holds (the function was rewritten), exit 1:
the obligation `translate:c17_navshape` is broken and the correspondence run looks for a concrete input.

  findPrecedingOrAncestorOrSelf : `from` is tested only on nodes other than the context node
  getPreviousNode (level any)   : no DOCUMENT_NODE special case; `from` tested on `next` outside the `if (0 == next)` branch;
                                  the whole test is guarded by `0 != next`
  getMatchingAncestors          : `from` is tested only on nodes other than the context node, for single and multiple alike
  getCountString (level any)    : whether formatNumberList is guarded by `if (theNumber != 0)` -> `anyZeroPrintsNothing`
                                  (the model and the theorems are stated for both answers)
"""
import os
import re
import sys

HERE = os.path.dirname(os.path.abspath(__file__))
ROOT = os.path.dirname(HERE)
REPO = os.environ.get("VERIF_REPO", "/repo")
OUT = os.path.join(ROOT, "lean", "XalanModel", "Generated", "C17_NavShape.lean")


def die(msg):
    print("c17_navshape: " + msg)
    sys.exit(1)


def body(txt, name, second=False):
    ms = list(re.finditer(r"\nElemNumber::%s\s*\(" % name, txt))
    if not ms or (second and len(ms) < 2):
        die("function %s not found" % name)
    m = ms[1] if second else ms[0]
    b = txt.index("{", m.end())
    depth = 0
    for i in range(b, len(txt)):
        if txt[i] == "{":
            depth += 1
        elif txt[i] == "}":
            depth -= 1
            if depth == 0:
                return txt[b:i + 1]
    die("unbalanced braces in " + name)


def main():
    src = open(os.path.join(REPO, "src/xalanc/XSLT/ElemNumber.cpp"), encoding="utf-8", errors="replace").read()
    src = re.sub(r"/\*.*?\*/", " ", src, flags=re.S)
    src = re.sub(r"//[^\n]*", " ", src)
    flat = lambda s: re.sub(r"\s+", " ", s)
    fp = flat(body(src, "findPrecedingOrAncestorOrSelf"))
    gp = flat(body(src, "getPreviousNode"))
    ga = flat(body(src, "getMatchingAncestors"))
    facts = []
    if not re.search(r"if \(0 != fromMatchPattern && thePos != context\)", fp):
        die("findPrecedingOrAncestorOrSelf: `from` is no longer tested as `0 != fromMatchPattern && thePos != context`")
    facts.append("findPOAS_from_skips_context")
    if "DOCUMENT_NODE" in gp:
        die("getPreviousNode: a DOCUMENT_NODE special case is present (the model has none)")
    facts.append("getPreviousNode_no_document_special_case")
    m = re.search(r"if\(0 == next\) \{ next = (?:pos->getParentNode\(\)|DOMServices::getParentOfNode\(\*pos\)); \} else \{.*?\} if\(0 != next && 0 != fromMatchPattern && "
                  r"fromMatchPattern->getMatchScore\( next, \*this, executionContext\) != XPath::eMatchScoreNone\) \{ pos = 0; break; \} pos = next;", gp)
    if not m:
        die("getPreviousNode (level any): the walk is not `next = parent | dive; if (0 != next && from && from matches next) stop; pos = next`")
    facts.append("getPreviousNode_from_tested_on_every_next")
    dom_parent = "next = pos->getParentNode();" in gp
    if not dom_parent and "next = DOMServices::getParentOfNode(*pos);" not in gp:
        die("getPreviousNode (level any): neither pos->getParentNode() nor DOMServices::getParentOfNode(*pos) is used for the parent step")
    if not re.search(r"if \(0 != m_fromMatchPattern && node != theContextNode && m_fromMatchPattern->getMatchScore\( node, \*this, "
                     r"executionContext\) != XPath::eMatchScoreNone\) \{ break; \}", ga):
        die("getMatchingAncestors: `from` is not tested as `0 != from && node != theContextNode && matches -> break`")
    if "stopAtFirstFound" not in ga or re.search(r"if\s*\(\s*!\s*stopAtFirstFound\s*\)", ga):
        die("getMatchingAncestors: `from` handling depends on stopAtFirstFound")
    facts.append("getMatchingAncestors_from_skips_context_both_levels")
    # getCountString, level any: is a zero count printed?  (`if (theNumber != 0)` around formatNumberList = not printed)
    gc = flat(body(src, "getCountString", second=True))
    m = re.search(r"if \(eAny == m_level\) \{(.*?)\} else \{", gc)
    if not m or "ctable.countNode(executionContext, *this, sourceNode)" not in m.group(1) or "formatNumberList(" not in m.group(1):
        die("getCountString: the level=any branch (countNode + formatNumberList) was not found")
    zero_nothing = bool(re.search(r"if \(theNumber != 0\) \{ formatNumberList\(", m.group(1)))
    if not zero_nothing and "theNumber != 0" in m.group(1):
        die("getCountString: unrecognised use of `theNumber != 0` in the level=any branch")
    # getCountString, value= path: which values bypass formatting (NumberToDOMString), and is a value that CountType cannot
    # hold among them?
    mv = re.search(r"if \(0 != m_valueExpr\) \{(.*?)\} else \{ const CountType theNumber = CountType\(DoubleSupport::round\(theValue\)\);", gc)
    if not mv:
        die("getCountString: the value= branch was not found")
    cond = mv.group(1)
    for need in ("DoubleSupport::isNaN(theValue) == true", "DoubleSupport::isPositiveInfinity(theValue) == true",
                 "DoubleSupport::isNegativeInfinity(theValue) == true", "DoubleSupport::lessThan(theValue, 0.5) == true",
                 "NumberToDOMString(theValue, theResult);"):
        if need not in cond:
            die("getCountString value= branch: `%s` not found" % need)
    # either spelling of the conversion to double is the same guard (committed as bc9502b with `double(...)`)
    guard64 = ("theValue >= static_cast<double>(std::numeric_limits<CountType>::max())" in cond or
               "theValue >= double(std::numeric_limits<CountType>::max())" in cond)
    if not guard64 and "numeric_limits" in cond:
        die("getCountString value= branch: unrecognised range guard")
    out = ["/- GENERATED by translate/c17_navshape.py from src/xalanc/XSLT/ElemNumber.cpp — do not edit -/",
           "namespace XalanModel.Generated.C17", "",
           "/-- structural facts of the navigation code found in the current source (the transcription in `C17/Navigate.lean` relies on them) -/",
           "def navShapeFacts : List String := [" + ", ".join('"%s"' % f for f in facts) + "]", "",
           "/-- `getCountString`, level any: `formatNumberList` is guarded by `if (theNumber != 0)` — a zero count prints nothing -/",
           "def anyZeroPrintsNothing : Bool := %s" % ("true" if zero_nothing else "false"), "",
           "/-- `getPreviousNode` (level any) steps to the parent with `pos->getParentNode()`, which is null for an attribute node (`DOMServices::getParentOfNode` gives the element) -/",
           "def anyWalkUsesDomParent : Bool := %s" % ("true" if dom_parent else "false"), "",
           "/-- `getCountString`, `value=`: a value that `CountType` cannot hold is output by `NumberToDOMString` instead of being cast -/",
           "def valueRangeGuard : Bool := %s" % ("true" if guard64 else "false"), "",
           "end XalanModel.Generated.C17", ""]
    new = "\n".join(out)
    os.makedirs(os.path.dirname(OUT), exist_ok=True)
    old = open(OUT, encoding="utf-8").read() if os.path.exists(OUT) else None
    if old != new:
        with open(OUT, "w", encoding="utf-8") as f:
            f.write(new)
    print("c17_navshape: %d facts hold -> %s" % (len(facts), os.path.relpath(OUT, ROOT)))


if __name__ == "__main__":
    main()
