#!/usr/bin/env python3
"""C03 translator: error-message construction  ->  Generated/C03_Messages.lean (+ .json)

Reads from the CURRENT working tree
  NLS/en_US/XalanMsg_en_US.xlf             the message catalogue: every trans-unit id with the substitution slots {0}..{3} of its text
  PlatformSupport/XalanMessageLoader.cpp    every `XalanMessageLoader::getMessage` overload: how many substitution texts it takes (wide or
                                            narrow), the declared element count of its stack buffer `sBuffer[...]` and the limit it hands to
                                            load()/loadMsg() — evaluated (`kMaxMessageLength`, `sizeof(sBuffer)` = bytes, `sizeof(sBuffer) /
                                            sizeof(sBuffer[0])` = elements); the shape of load(): loadMsg(…, toFill, maxChars) then
                                            XMLString::replaceTokens(toFill, maxChars, …)
The number of message codes (XalanMessages::Codes in the generated LocalMsgIndex.hpp of the build tree, when present) must equal the
number of catalogue entries.  Anything not in the expected shape -> exit 1.
"""
import json
import os
import re
import sys

sys.path.insert(0, os.path.dirname(os.path.abspath(__file__)))
from c03_exceptions import strip, read, SRC, GEN, ROOT  # noqa: E402

CACHE = os.environ.get("VERIF_CACHE") or os.path.join(ROOT, ".cache")
CHAR_BYTES = 2      # sizeof(XalanDOMChar)


def die(msg):
    sys.stderr.write("c03_messages: " + msg + "\n")
    print("c03_messages: " + msg)
    sys.exit(1)


def split_args(s):
    out, depth, cur = [], 0, ""
    for c in s:
        if c in "([":
            depth += 1
        elif c in ")]":
            depth -= 1
        if c == "," and depth == 0:
            out.append(cur.strip())
            cur = ""
        else:
            cur += c
    if cur.strip():
        out.append(cur.strip())
    return out


def main():
    xlf = read(os.path.join(SRC, "NLS", "en_US", "XalanMsg_en_US.xlf"))
    units = re.findall(r'<trans-unit\s+id="([^"]+)"[^>]*>\s*(?:<note>.*?</note>\s*)?<source>(.*?)</source>', xlf, re.S)
    if len(units) < 150 or len(units) != len(re.findall(r'<trans-unit ', xlf)):
        die("only %d trans-units in the catalogue" % len(units))
    cat = []
    for uid, text in units:
        slots = sorted(set(int(x) for x in re.findall(r"\{(\d)\}", text)))
        # (a text that skips a slot, e.g. only {1}, is a catalogue oddity, not a memory matter: the overload needed is max slot + 1)
        cat.append((uid, (max(slots) + 1) if slots else 0, len(text)))
    idx = os.path.join(CACHE, "build-hooks", "src", "xalanc", "PlatformSupport", "LocalMsgIndex.hpp")
    ncodes = None
    if os.path.exists(idx):
        codes = re.findall(r"(?m)^\s*,?\s*(\w+)\s*=\s*(\d+)\s*$", read(idx))
        ncodes = len(codes)
        if ncodes != len(cat):
            die("LocalMsgIndex.hpp has %d codes, the catalogue %d entries" % (ncodes, len(cat)))
        for (nm, num), (uid, _, _) in zip(codes, cat):
            if nm != uid:
                die("code %s = %s does not match catalogue entry %s" % (nm, num, uid))

    ml = strip(read(os.path.join(SRC, "PlatformSupport", "XalanMessageLoader.cpp")))
    m = re.search(r"\bconst\s+size_t\s+kMaxMessageLength\s*=\s*(\d+)\s*;", ml)
    if not m:
        die("kMaxMessageLength not found")
    kmax = int(m.group(1))
    overloads = []
    for mm in re.finditer(r"(?m)^XalanMessageLoader::getMessage\s*\(", ml):
        j = mm.end() - 1
        depth = 0
        k = j
        while k < len(ml):
            if ml[k] == "(":
                depth += 1
            elif ml[k] == ")":
                depth -= 1
                if depth == 0:
                    break
            k += 1
        params = split_args(ml[j + 1:k])
        reps = [p for p in params if "repText" in p]
        wide = all("XalanDOMString" in p for p in reps)
        b0 = ml.index("{", k)
        d = 0
        e = b0
        while e < len(ml):
            if ml[e] == "{":
                d += 1
            elif ml[e] == "}":
                d -= 1
                if d == 0:
                    break
            e += 1
        body = ml[b0:e + 1]
        bm = re.search(r"XalanDOMChar\s+sBuffer\s*\[([^\]]+)\]\s*;", body)
        if not bm:
            die("getMessage overload at line %d: no `XalanDOMChar sBuffer[...]`" % (ml.count("\n", 0, mm.start()) + 1))
        be = bm.group(1).replace(" ", "")
        if not re.fullmatch(r"(kMaxMessageLength|\d+)(\+\d+)?", be):
            die("sBuffer[%s]: size not understood" % bm.group(1))
        elems = eval(be.replace("kMaxMessageLength", str(kmax)))
        cm = re.search(r"s_msgLoader->(load|loadMsg)\s*\(", body)
        if not cm:
            die("getMessage overload without s_msgLoader->load/loadMsg")
        j2 = cm.end() - 1
        depth = 0
        k2 = j2
        while k2 < len(body):
            if body[k2] == "(":
                depth += 1
            elif body[k2] == ")":
                depth -= 1
                if depth == 0:
                    break
            k2 += 1
        args = split_args(body[j2 + 1:k2])
        pos = 3 if cm.group(1) == "load" else 2
        if len(args) <= pos or args[pos - 1].replace(" ", "") != "sBuffer":
            die("load/loadMsg call: sBuffer is not where it is expected: %s" % args)
        lim = args[pos].replace(" ", "")
        if lim == "kMaxMessageLength":
            limit = kmax
        elif lim == "sizeof(sBuffer)":
            limit = elems * CHAR_BYTES
        elif re.fullmatch(r"sizeof\(sBuffer\)/sizeof\(sBuffer\[0\]\)(-1)?", lim):
            limit = elems - (1 if lim.endswith("-1") else 0)
        elif re.fullmatch(r"\d+", lim):
            limit = int(lim)
        else:
            die("limit argument `%s` not understood" % args[pos])
        if not re.search(r"theResultMessage\.assign\(sBuffer\)", body):
            die("getMessage overload does not assign sBuffer to the result")
        overloads.append({"line": ml.count("\n", 0, mm.start()) + 1, "reps": len(reps), "wide": wide, "elems": elems, "limit": limit, "via": cm.group(1)})
    if len(overloads) < 6:
        die("only %d getMessage overloads found" % len(overloads))
    # load(): loadMsg(msgToLoad, toFill, maxChars) then replaceTokens(toFill, maxChars, …)
    if not re.search(r"loadMsg\(msgToLoad,\s*toFill,\s*maxChars\)", ml) or not re.search(r"replaceTokens\(\s*toFill,\s*maxChars,", ml):
        die("XalanMessageLoader::load no longer passes (toFill, maxChars) to loadMsg and XMLString::replaceTokens")

    L = ["/- GENERATED by translate/c03_messages.py from the working tree — do not edit. -/",
         "namespace XalanModel.Generated.C03_Messages", "",
         "/-- kMaxMessageLength -/", "def maxMessageLength : Nat := %d" % kmax, "",
         "/-- a `XalanMessageLoader::getMessage` overload: source line, number of substitution texts, wide (XalanDOMString) or narrow (char*),",
         "    declared element count of `XalanDOMChar sBuffer[…]`, the CHARACTER limit handed to load()/loadMsg() (a `sizeof(sBuffer)` is counted in bytes) -/",
         "structure Overload where", "  line : Nat", "  reps : Nat", "  wide : Bool", "  elems : Nat", "  limit : Nat", "deriving DecidableEq, Repr", "",
         "def overloads : List Overload := ["]
    L.append(",\n".join("  ⟨%d, %d, %s, %d, %d⟩" % (o["line"], o["reps"], "true" if o["wide"] else "false", o["elems"], o["limit"]) for o in overloads))
    L += ["]", "", "/-- number of substitution slots of every catalogue entry, in code order (%d messages) -/" % len(cat),
          "def catalogueSlots : List Nat := [%s]" % ", ".join(str(c[1]) for c in cat), "",
          "/-- length of the longest message text of the catalogue -/", "def longestMessageText : Nat := %d" % max(c[2] for c in cat), "",
          "end XalanModel.Generated.C03_Messages", ""]
    os.makedirs(GEN, exist_ok=True)
    out = os.path.join(GEN, "C03_Messages.lean")
    new = "\n".join(L)
    if not os.path.exists(out) or read(out) != new:
        open(out, "w").write(new)
    json.dump({"count": len(cat), "codes_checked": ncodes, "messages": [{"id": c[0], "slots": c[1]} for c in cat], "overloads": overloads},
              open(os.path.join(GEN, "C03_Messages.json"), "w"), indent=1)
    print("c03_messages: %d messages (slots: %s), %d getMessage overloads %s, kMaxMessageLength=%d" % (
        len(cat), {n: sum(1 for c in cat if c[1] == n) for n in range(5) if any(c[1] == n for c in cat)}, len(overloads),
        [(o["reps"], o["elems"], o["limit"]) for o in overloads], kmax))
    return 0


if __name__ == "__main__":
    sys.exit(main())
