#!/usr/bin/env python3
"""C19 translator: where does the library construct an object in storage taken from a MemoryManager, and who owns that
storage while the constructor runs?

Regenerates lean/XalanModel/Generated/C19_Construct.lean from the working tree:

* `overloads`  every `XalanConstruct` / `XalanCopyConstruct` overload of Include/XalanMemoryManagement.hpp with the shape of its
               body: declares a XalanAllocationGuard, placement-new on `theGuard.get()`, `theGuard.release()` after it;
* `sites`      every placement-new expression under src/xalanc with the class of its storage expression:
                 guard      new (theGuard.get()) T      inside a function that declares a XalanAllocationGuard and releases it
                 xmemory    new (&mgr) T / new (mgr) T  xercesc::XMemory::operator new(size_t, MemoryManager*): the compiler calls the
                                                        matching operator delete when the constructor throws
                 arena      new (theBlock) T            between allocateBlock() and commitAllocation() (protocol proved in Arena.lean)
                 inplace    new (address) T ...         storage owned by a container that tracks what it has constructed
                                                        (construction traits, XalanList node links, arena free-list stamps)
                 rawAllocate  the storage expression is, or was assigned from, `….allocate(…)` with no guard owning it
                 unknown    anything else
  Props/C19.lean proves by `decide` that every overload is guarded and that no site is `rawAllocate`/`unknown`.
Exit status 1 when the expected constructs cannot be found (the translator obligation is then broken).
"""
import os
import re
import sys

HERE = os.path.dirname(os.path.abspath(__file__))
ROOT = os.path.dirname(HERE)
REPO = os.environ.get("VERIF_REPO", "/repo")
SRC = os.path.join(REPO, "src", "xalanc")
OUT = os.path.join(ROOT, "lean", "XalanModel", "Generated", "C19_Construct.lean")

INPLACE_FILES = {
    "Include/XalanMemoryManagement.hpp": ("address",),
    "Include/XalanList.hpp": ("&newNode->prev", "&newNode->next"),
    "PlatformSupport/ReusableArenaBlock.hpp": ("&this->m_objectBlock[i]", "p", "theObject"),
    "PlatformSupport/XalanAllocator.hpp": ("p",),          # std-allocator style construct(p, value): the caller owns p
}


def strip_comments(s):
    s = re.sub(r"/\*.*?\*/", lambda m: re.sub(r"[^\n]", " ", m.group(0)), s, flags=re.S)
    s = re.sub(r"//[^\n]*", lambda m: " " * len(m.group(0)), s)
    return s


def blocks_of(text):
    """list of (open, close) brace positions"""
    st, res = [], []
    for i, ch in enumerate(text):
        if ch == "{":
            st.append(i)
        elif ch == "}" and st:
            res.append((st.pop(), i))
    return res


def function_body(text, blocks, pos):
    """text of the outermost enclosing block that looks like a function body"""
    enc = sorted([b for b in blocks if b[0] < pos < b[1]], key=lambda b: b[0])
    best = None
    for (o, c) in enc:
        pre = text[max(0, o - 200):o].rstrip()
        if pre.endswith(")") or pre.endswith("const") or re.search(r"\)\s*(const\s*)?(throw\s*\([^)]*\)\s*)?$", pre) or re.search(r":\s*[\w\s,()<>*&:.\-\[\]]*\)$", pre):
            best = (o, c)
            break
    if best is None and enc:
        best = enc[-1]
    return text[best[0]:best[1] + 1] if best else "", (best[0] if best else 0)


def lean_str(s):
    return '"' + s.replace("\\", "\\\\").replace('"', '\\"') + '"'


def main():
    hdr = os.path.join(SRC, "Include", "XalanMemoryManagement.hpp")
    text = strip_comments(open(hdr, encoding="utf-8", errors="replace").read())
    overloads = []
    for m in re.finditer(r"^(XalanConstruct|XalanCopyConstruct)\s*\(", text, flags=re.M):
        # parameter list
        i = m.end() - 1
        depth, j = 0, i
        while j < len(text):
            if text[j] == "(":
                depth += 1
            elif text[j] == ")":
                depth -= 1
                if depth == 0:
                    break
            j += 1
        params = [p for p in text[i + 1:j].split(",") if p.strip()]
        k = text.index("{", j)
        depth, e = 0, k
        while e < len(text):
            if text[e] == "{":
                depth += 1
            elif text[e] == "}":
                depth -= 1
                if depth == 0:
                    break
            e += 1
        body = text[k:e + 1]
        line = text.count("\n", 0, m.start()) + 1
        g = re.search(r"XalanAllocationGuard\s+(\w+)\s*\(", body)
        gname = g.group(1) if g else None
        pn = re.search(r"(?<![\w.>])new\s*\(", body)
        pexpr, pend = "", 0
        if pn:
            a = pn.end() - 1
            depth, b = 0, a
            while b < len(body):
                if body[b] == "(":
                    depth += 1
                elif body[b] == ")":
                    depth -= 1
                    if depth == 0:
                        break
                b += 1
            pexpr, pend = re.sub(r"\s", "", body[a + 1:b]), b
        on_guard = bool(gname and pn and pexpr == gname + ".get()")
        rel = bool(gname and pn and re.search(re.escape(gname) + r"\s*\.\s*release\s*\(\s*\)", body[pend:]))
        raw = bool(pn and "allocate" in pexpr)
        overloads.append((m.group(1), len(params) - 2, line, bool(g), on_guard, rel, raw))
    if len(overloads) < 8:
        sys.stderr.write("c19_construct: only %d XalanConstruct/XalanCopyConstruct overloads found in %s\n" % (len(overloads), hdr))
        return 1

    sites = []
    for base, _, files in os.walk(SRC):
        for fn in sorted(files):
            if not fn.endswith((".cpp", ".hpp")):
                continue
            path = os.path.join(base, fn)
            rel = os.path.relpath(path, SRC)
            t = strip_comments(open(path, encoding="utf-8", errors="replace").read())
            blks = None
            for m in re.finditer(r"(?<![\w.>])new\s*\(", t):
                # storage expression
                i = m.end() - 1
                depth, j = 0, i
                while j < len(t):
                    if t[j] == "(":
                        depth += 1
                    elif t[j] == ")":
                        depth -= 1
                        if depth == 0:
                            break
                    j += 1
                expr = re.sub(r"\s+", "", t[i + 1:j])
                after = t[j + 1:j + 40].lstrip()
                if not re.match(r"[A-Za-z_:(]", after):      # not a placement new expression (e.g. operator new(size) declaration)
                    continue
                if re.search(r"operator\s*$", t[max(0, m.start() - 12):m.start()]):
                    continue
                if expr in ("size", "theSize") or expr.startswith("size_t") or "std::nothrow" in expr:
                    continue
                if blks is None:
                    blks = blocks_of(t)
                body, body_start = function_body(t, blks, m.start())
                rel_pos = m.start() - body_start
                before, behind = body[:max(rel_pos, 0)], body[max(rel_pos, 0):]
                line = t.count("\n", 0, m.start()) + 1
                kind = "unknown"
                if "allocate(" in expr:
                    kind = "rawAllocate"
                elif re.fullmatch(r"\w*[gG]uard\w*\.get\(\)", expr):
                    gname = expr.split(".")[0]
                    if re.search(r"XalanAllocationGuard\s+" + re.escape(gname) + r"\s*\(", before) and \
                            re.search(re.escape(gname) + r"\s*\.\s*release\s*\(\s*\)", behind):
                        kind = "guard"
                elif re.fullmatch(r"&?\s*(the)?(Memory)?[Mm]anager\w*|&?the\w*Manager|&?m_memoryManager|&?\*?\w*[mM]emoryManager\w*(\(\))?|&?getMemoryManager\(\)|&?\w+\.getMemoryManager\(\)", expr):
                    kind = "xmemory"
                elif expr == "theBlock" and re.search(r"allocateBlock\s*\(", before) and re.search(r"commitAllocation\s*\(", behind):
                    kind = "arena"
                elif rel.replace(os.sep, "/") in INPLACE_FILES and expr in INPLACE_FILES[rel.replace(os.sep, "/")]:
                    kind = "inplace"
                else:
                    # identifier assigned from allocate() in the same function, not handed to a guard
                    ident = re.fullmatch(r"[A-Za-z_]\w*", expr)
                    if ident and re.search(re.escape(expr) + r"\s*=[^;]*allocate\s*\(", before):
                        kind = "rawAllocate"
                sites.append((rel.replace(os.sep, "/"), line, expr, kind))
    if len(sites) < 100:
        sys.stderr.write("c19_construct: only %d placement-new sites found under %s\n" % (len(sites), SRC))
        return 1

    os.makedirs(os.path.dirname(OUT), exist_ok=True)
    with open(OUT, "w") as f:
        f.write("/- GENERATED by translate/c19_construct.py from %s — do not edit. -/\n" % "src/xalanc")
        f.write("namespace XalanModel.Generated.C19Construct\n\n")
        f.write("structure Overload where\n  name : String\n  ctorArgs : Nat\n  line : Nat\n  hasGuard : Bool\n  newOnGuard : Bool\n"
                "  releasesAfter : Bool\n  newOnRawAllocate : Bool\nderiving Repr, DecidableEq\n\n")
        f.write("inductive Storage where\n  | guard | xmemory | arena | inplace | rawAllocate | unknown\nderiving Repr, DecidableEq\n\n")
        f.write("structure Site where\n  file : String\n  line : Nat\n  expr : String\n  storage : Storage\nderiving Repr, DecidableEq\n\n")
        f.write("def overloads : List Overload := [\n")
        f.write(",\n".join("  ⟨%s, %d, %d, %s, %s, %s, %s⟩" % (lean_str(n), a, ln, str(g).lower(), str(o).lower(), str(r).lower(), str(w).lower())
                           for (n, a, ln, g, o, r, w) in overloads))
        f.write("\n]\n\n")
        f.write("def sites : List Site := [\n")
        f.write(",\n".join("  ⟨%s, %d, %s, .%s⟩" % (lean_str(fl), ln, lean_str(ex), k) for (fl, ln, ex, k) in sites))
        f.write("\n]\n\nend XalanModel.Generated.C19Construct\n")
    counts = {}
    for s in sites:
        counts[s[3]] = counts.get(s[3], 0) + 1
    print("c19_construct: %d overloads, %d placement-new sites %s" % (len(overloads), len(sites), counts))
    for s in sites:
        if s[3] in ("rawAllocate", "unknown"):
            print("  %s: %s:%d new (%s)" % (s[3], s[0], s[1], s[2]))
    for o in overloads:
        if not (o[3] and o[4] and o[5]) or o[6]:
            print("  unguarded overload: %s/%d at XalanMemoryManagement.hpp:%d" % (o[0], o[1], o[2]))
    return 0


if __name__ == "__main__":
    sys.exit(main())
