#!/usr/bin/env python3
"""C03 translator: inventory of (1) every local fixed-size array and (2) every conversion of a floating-point value to an
integer type (explicit `static_cast<I>(d)`, functional `I(d)`, C-style `(I)d`, and implicit) in the files property C03 is
anchored in  ->  Generated/C03_Inventory.json  (+ a small Generated/C03_Inventory.lean with the counts).

(2) is read from clang's typed AST (`clang++-14 -Xclang -ast-dump`, cast kind FloatingToIntegral), so the operand really is a
floating-point expression; locations are tracked through the dump and only nodes whose spelling location is in the anchored
file itself are kept.  Each site is matched against MODELLED below (file, function-or-text pattern -> theorem of
Props/C03.lean that covers it); everything else is reported as unmodelled in the evidence (information, not an alarm).
The per-file result is cached by content hash under .cache/c03_inventory/ (the AST dump costs ~1.5 s per file).
"""
import hashlib
import json
import os
import re
import subprocess
import sys
from concurrent.futures import ThreadPoolExecutor

sys.path.insert(0, os.path.dirname(os.path.abspath(__file__)))
from c03_exceptions import strip, read, SRC, GEN, ROOT, REPO  # noqa: E402

CACHE = os.environ.get("VERIF_CACHE") or os.path.join(ROOT, ".cache")

ANCHORED = [
    "XalanTransformer/XalanTransformer.cpp", "XalanTransformer/XalanCAPI.cpp", "XPathCAPI/XPathCAPI.cpp",
    "PlatformSupport/DOMStringHelper.cpp", "PlatformSupport/DoubleSupport.cpp", "XPath/XPathProcessorImpl.cpp",
    "XPath/XPathExpression.cpp", "XPath/XPath.cpp", "XSLT/StylesheetHandler.cpp", "XSLT/ElemNumber.cpp", "XSLT/FunctionFormatNumber.cpp",
    "ICUBridge/ICUFormatNumberFunctor.cpp", "XMLSupport/FormatterToXMLUnicode.hpp", "XMLSupport/FormatterToHTML.cpp",
    "PlatformSupport/XalanParsedURI.cpp", "XalanSourceTree/XalanSourceTreeContentHandler.cpp", "XSLT/Stylesheet.cpp",
    "PlatformSupport/XalanOutputStream.cpp", "XSLT/VariablesStack.cpp",
]

# (file, regex on the source line or on the array name)  ->  theorem(s) of Props/C03.lean that model the site
MODELLED_ARRAYS = [
    ("PlatformSupport/DOMStringHelper.cpp", r"^theBuffer$|^theResult$", "scalarToDecimal_no_memerr_terminates / number_to_string_fits_all_doubles"),
    ("XSLT/ElemNumber.cpp", r"^buf\[buflen \+ 1\]$", "int2alpha_no_memerr_terminates"),
    ("XSLT/ElemNumber.cpp", r"^numberList$", "guarded_buffers_safe"),
    ("PlatformSupport/DoubleSupport.cpp", r"^theBuffer$", "guarded_buffers_safe"),
    ("XPathCAPI/XPathCAPI.cpp", r"^theChars$|^theCharsCount$", "guarded_buffers_safe"),
    ("XSLT/Stylesheet.cpp", r"^conflictsArray$", "conflicts_array_safe"),
]
MODELLED_CASTS = [
    ("XPath/XPath.cpp", r"size_type\(theIndex\)", "float_casts_defined_iff_guarded"),
    ("XSLT/ElemNumber.cpp", r"CountType\(DoubleSupport::round\(theValue\)\)", "float_casts_defined_iff_guarded"),
    ("PlatformSupport/DOMStringHelper.cpp", r"static_cast<XMLInt64>\(theValue\)", "number_to_string_fits_all_doubles (path selection int64Exact; the conversion is range-tested first since 5ee00c0 — translator flag int64CastGuarded)"),
]


def includes():
    bd = os.path.join(CACHE, "build-hooks")
    return ["-I%s/src" % REPO, "-I%s/src" % bd, "-I%s/src/xalanc/PlatformSupport" % bd, "-I%s/src/xalanc/Include" % bd, "-DXALAN_C_VERIF_HOOKS"]


LOC = re.compile(r"<(?:line:(?P<l2>\d+):\d+|col:\d+|<invalid sloc>|(?P<file>/[^:<>,]+):(?P<line>\d+):\d+)")


def casts_of(rel):
    path = os.path.join(SRC, rel)
    src = read(path)
    h = hashlib.sha256((src + " ".join(includes())).encode("utf-8", "replace")).hexdigest()[:20]
    cdir = os.path.join(CACHE, "c03_inventory")
    os.makedirs(cdir, exist_ok=True)
    cf = os.path.join(cdir, rel.replace("/", "_") + "." + h + ".json")
    if os.path.exists(cf):
        return json.load(open(cf))
    is_header = rel.endswith(".hpp")
    cmd = ["clang++-14", "-std=gnu++17", "-fsyntax-only", "-Xclang", "-ast-dump", "-fno-color-diagnostics", "-w"] + includes()
    if is_header:
        cmd += ["-x", "c++"]
    cmd.append(path)
    p = subprocess.Popen(cmd, stdout=subprocess.PIPE, stderr=subprocess.DEVNULL, text=True, errors="replace")
    cur_file, cur_line = None, 0
    lines = src.split("\n")
    sites = {}
    n = 0
    for ln in p.stdout:
        n += 1
        m = LOC.search(ln)
        if m:
            if m.group("file"):
                cur_file, cur_line = m.group("file"), int(m.group("line"))
            elif m.group("l2"):
                cur_line = int(m.group("l2"))
        if "<FloatingToIntegral>" in ln and cur_file and os.path.realpath(cur_file) == os.path.realpath(path):
            tm = re.search(r"'([^']+)'(?::'([^']+)')? <FloatingToIntegral>", ln)
            ty = tm.group(1) if tm else "?"
            text = lines[cur_line - 1].strip() if 0 < cur_line <= len(lines) else ""
            explicit = "part_of_explicit_cast" in ln or "CastExpr" in ln and "ImplicitCastExpr" not in ln
            key = (cur_line, ty)
            if key not in sites:
                sites[key] = {"file": rel, "line": cur_line, "to": ty, "explicit": bool(explicit), "text": text[:160]}
    p.wait()
    if n < 1000:
        raise RuntimeError("clang produced no AST for %s (rc=%s)" % (rel, p.returncode))
    res = sorted(sites.values(), key=lambda x: x["line"])
    with open(cf, "w") as f:
        json.dump(res, f)
    return res


def arrays_of(rel):
    t = strip(read(os.path.join(SRC, rel)))
    out = []
    for mm in re.finditer(r"(?m)^[ \t]+(?:static\s+)?(?:const\s+)?((?:unsigned\s+)?[\w:]+(?:<[^;\n]*>)?(?:\s*\*+)?(?:\s+const)?)\s+(\w+)\s*\[([^\]\n]+)\]\s*(?:=\s*\{[^;]*\})?;", t):
        if mm.group(1) in ("return", "delete", "new", "typedef", "case", "throw"):
            continue
        out.append({"file": rel, "line": t.count("\n", 0, mm.start()) + 1, "type": mm.group(1), "name": mm.group(2), "size": mm.group(3).strip()})
    return out


def main():
    files = [f for f in ANCHORED if os.path.exists(os.path.join(SRC, f))]
    if len(files) < 15:
        print("c03_inventory: only %d anchored files exist" % len(files))
        return 1
    if not os.path.exists(os.path.join(CACHE, "build-hooks", "src", "xalanc", "Include", "PlatformDefinitions.hpp")):
        print("c03_inventory: generated headers missing (build the working tree first)")
        return 1
    with ThreadPoolExecutor(max_workers=8) as ex:
        casts = [c for lst in ex.map(casts_of, files) for c in lst]
    arrays = [a for f in files for a in arrays_of(f)]
    for a in arrays:
        a["theorem"] = next((th for (f, pat, th) in MODELLED_ARRAYS if f == a["file"] and (re.search(pat, a["name"]) or re.search(pat, "%s[%s]" % (a["name"], a["size"])))), None)
    for c in casts:
        c["theorem"] = next((th for (f, pat, th) in MODELLED_CASTS if f == c["file"] and re.search(pat, c["text"])), None)
    os.makedirs(GEN, exist_ok=True)
    with open(os.path.join(GEN, "C03_Inventory.json"), "w") as f:
        json.dump({"arrays": arrays, "casts": casts}, f, indent=1)
    ua = [a for a in arrays if not a["theorem"]]
    uc = [c for c in casts if not c["theorem"]]
    L = ["/- GENERATED by translate/c03_inventory.py from the working tree — do not edit. -/",
         "namespace XalanModel.Generated.C03_Inventory",
         "/-- local fixed-size arrays in the anchored files: (all, without a model) -/",
         "def fixedArrays : Nat × Nat := (%d, %d)" % (len(arrays), len(ua)),
         "/-- floating-point → integer conversions (clang AST, cast kind FloatingToIntegral) in the anchored files: (all, explicit, without a model) -/",
         "def floatToIntCasts : Nat × Nat × Nat := (%d, %d, %d)" % (len(casts), sum(1 for c in casts if c["explicit"]), len(uc)),
         "end XalanModel.Generated.C03_Inventory", ""]
    out = os.path.join(GEN, "C03_Inventory.lean")
    new = "\n".join(L)
    if not os.path.exists(out) or read(out) != new:
        open(out, "w").write(new)
    print("c03_inventory: %d files; fixed arrays %d (%d unmodelled); float->int conversions %d (%d explicit, %d unmodelled)" % (
        len(files), len(arrays), len(ua), len(casts), sum(1 for c in casts if c["explicit"]), len(uc)))
    return 0


if __name__ == "__main__":
    sys.exit(main())
