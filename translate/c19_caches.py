#!/usr/bin/env python3
"""C19 translator: every bounded cache / pool of the engine, its bound, how it evicts, and which scenario of gen/corpus/c19 drives
more than the bound through it.

Regenerates lean/XalanModel/Generated/C19_Caches.lean from the working tree and the corpus:

* every enumerator under src/xalanc whose name says it bounds a cache (`e…CacheMax`, `e…Cache…Max`, `e…CacheListSize`,
  `eDefaultMaximumSize` of XalanDOMStringCache) with its value;
* for each, the scenario that crosses it and the number of distinct keys / simultaneously borrowed objects that scenario drives
  through it, read from the corpus files (recursion depth of s12, distinct element names of s14.xml, xsl:decimal-format
  declarations of s15, distinct lang values of s16);
* for the caches that EVICT (an entry is destroyed to make room), the shape of the eviction as written:
    list caches (most recently used first):  `if (c.size() == eCacheMax) { Guard g(c.<END>().m_x); c.pop_<END>(); }  c.push_<END>(…);`
        destroyEnd = the end whose object the guard takes, popEnd = the end that is removed, insertEnd = where new entries go;
    the pattern map: the iterator whose XPath is returned and the iterator that is erased.
  Props/C19.lean proves over this table (decide) that every cache is crossed by bound + 2 and that every evicting cache destroys
  the entry it removes and inserts at the other end; `eviction_destroys_the_evicted_entry` then gives balance for every history.
Exit status 1 when a cache constant has no known crossing scenario or an eviction block cannot be found.
"""
import os
import re
import sys

HERE = os.path.dirname(os.path.abspath(__file__))
ROOT = os.path.dirname(HERE)
REPO = os.environ.get("VERIF_REPO", "/repo")
SRC = os.path.join(REPO, "src", "xalanc")
CORPUS = os.path.join(ROOT, "gen", "corpus", "c19")
OUT = os.path.join(ROOT, "lean", "XalanModel", "Generated", "C19_Caches.lean")

BOUND_RE = re.compile(r"\b(e\w*Cache\w*Max|e\w*CacheListSize|eDefaultMaximumSize|eCacheMax)\s*=\s*(\d+)u?\b")


def read(p):
    with open(p, encoding="utf-8", errors="replace") as f:
        return f.read()


def strip_comments(s):
    s = re.sub(r"/\*.*?\*/", lambda m: re.sub(r"[^\n]", " ", m.group(0)), s, flags=re.S)
    return re.sub(r"//[^\n]*", "", s)


def corpus_keys():
    """what the scenarios drive through the caches"""
    k = {}
    m = re.search(r'<xsl:with-param name="n" select="(\d+)"', read(os.path.join(CORPUS, "s12.xsl")))
    k["s12"] = int(m.group(1)) if m else 0                                   # recursion depth = objects borrowed at once
    k["s14"] = len(set(re.findall(r"<(e\d+)\b", read(os.path.join(CORPUS, "s14.xml")))))
    k["s15"] = len(set(re.findall(r'<xsl:decimal-format name="([^"]+)"', read(os.path.join(CORPUS, "s15.xsl")))))
    k["s16"] = len(set(re.findall(r'\blang="([^"]+)"', read(os.path.join(CORPUS, "s16.xsl")))))
    return k


# (file suffix, constant) -> (scenario, evicts)
CROSSED_BY = {
    ("PlatformSupport/XalanDOMStringCache.hpp", "eDefaultMaximumSize"): ("s12", False),
    ("XPath/XObjectFactoryDefault.hpp", "eXNumberCacheMax"): ("s12", False),
    ("XPath/XObjectFactoryDefault.hpp", "eXNodeSetCacheMax"): ("s12", False),
    ("XPath/XObjectFactoryDefault.hpp", "eXStringCacheMax"): ("s12", False),
    ("XPath/XObjectFactoryDefault.hpp", "eXResultTreeFragCacheMax"): ("s12", False),
    ("XPath/XPathExecutionContextDefault.hpp", "eNodeListCacheListSize"): ("s12", False),
    ("XSLT/StylesheetExecutionContextDefault.hpp", "eXPathCacheMax"): ("s14", True),
    ("ICUBridge/ICUFormatNumberFunctor.hpp", "eCacheMax"): ("s15", True),
    ("ICUBridge/ICUBridgeCollationCompareFunctorImpl.hpp", "eCacheMax"): ("s16", True),
}

LIST_EVICTION = {
    "ICUBridge/ICUFormatNumberFunctor.hpp": ("ICUBridge/ICUFormatNumberFunctor.cpp", "cacheDecimalFormat", "m_decimalFormatCache"),
    "ICUBridge/ICUBridgeCollationCompareFunctorImpl.hpp": ("ICUBridge/ICUBridgeCollationCompareFunctorImpl.cpp", "cacheCollator", "m_collatorCache"),
}


def function_body(text, name):
    m = re.search(r"::%s\s*\(" % re.escape(name), text)
    if not m:
        return None
    i = text.index("{", m.end())
    depth, j = 0, i
    while j < len(text):
        if text[j] == "{":
            depth += 1
        elif text[j] == "}":
            depth -= 1
            if depth == 0:
                return text[i:j + 1]
        j += 1
    return None


def list_shape(cpp, func, member):
    body = function_body(strip_comments(read(os.path.join(SRC, cpp))), func)
    if body is None:
        return None
    m = re.search(r"if\s*\(\s*%s\.size\(\)\s*==\s*eCacheMax\s*\)\s*\{(.*?)\}" % member, body, re.S)
    if not m:
        return None
    blk = m.group(1)
    d = re.search(r"%s\.(front|back)\(\)\.m_\w+" % member, blk)
    p = re.search(r"%s\.pop_(front|back)\(\)" % member, blk)
    ins = re.search(r"%s\.push_(front|back)\(" % member, body[m.end():])
    if not (d and p and ins):
        return None
    return d.group(1), p.group(1), ins.group(1)


def map_shape():
    body = function_body(strip_comments(read(os.path.join(SRC, "XSLT/StylesheetExecutionContextDefault.cpp"))), "addToXPathCache")
    if body is None:
        return None
    m = re.search(r"if\s*\(\s*m_matchPatternCache\.size\(\)\s*==\s*eXPathCacheMax\s*\)", body)
    d = re.search(r"returnXPath\(\s*\(\*(\w+)\)\.second\.first\s*\)", body)
    p = re.search(r"m_matchPatternCache\.erase\(\s*(\w+)\s*\)", body)
    if not (m and d and p):
        return None
    # the map has no ends: "insertEnd" is the map's own insert (never the erased iterator)
    return d.group(1), p.group(1), "insert"


def lean_str(s):
    return '"' + s.replace("\\", "\\\\").replace('"', '\\"') + '"'


def main():
    found = []
    for dirpath, _, files in os.walk(SRC):
        for fn in sorted(files):
            if not fn.endswith((".hpp", ".cpp")):
                continue
            p = os.path.join(dirpath, fn)
            rel = os.path.relpath(p, SRC)
            if rel.startswith("Harness"):
                continue
            for m in BOUND_RE.finditer(strip_comments(read(p))):
                found.append((rel, m.group(1), int(m.group(2))))
    found = sorted(set(found))
    keys = corpus_keys()
    rows, bad = [], []
    for rel, name, bound in found:
        ent = CROSSED_BY.get((rel, name))
        if ent is None:
            bad.append("no crossing scenario known for cache bound %s = %d in %s" % (name, bound, rel))
            rows.append((rel, name, bound, "", 0, False, "", "", ""))
            continue
        scen, evicts = ent
        shape = ("", "", "")
        if evicts:
            shape = list_shape(*LIST_EVICTION[rel]) if rel in LIST_EVICTION else map_shape()
            if shape is None:
                bad.append("eviction block of %s (%s) not found" % (name, rel))
                shape = ("?", "?", "?")
        rows.append((rel, name, bound, scen, keys.get(scen, 0), evicts) + tuple(shape))
    for want in CROSSED_BY:
        if not any((r[0], r[1]) == want for r in rows):
            bad.append("expected cache bound %s in %s not found" % (want[1], want[0]))
    os.makedirs(os.path.dirname(OUT), exist_ok=True)
    with open(OUT, "w") as f:
        f.write("/- GENERATED by translate/c19_caches.py from src/xalanc and gen/corpus/c19 — do not edit. -/\n")
        f.write("namespace XalanModel.Generated.C19Caches\n\n")
        f.write("structure Cache where\n  file : String\n  const : String\n  bound : Nat\n  scenario : String\n  keys : Nat\n"
                "  evicts : Bool\n  destroyEnd : String\n  popEnd : String\n  insertEnd : String\nderiving Repr, DecidableEq\n\n")
        f.write("def caches : List Cache := [\n")
        f.write(",\n".join("  ⟨%s, %s, %d, %s, %d, %s, %s, %s, %s⟩" % (lean_str(r[0]), lean_str(r[1]), r[2], lean_str(r[3]), r[4],
                                                                         str(r[5]).lower(), lean_str(r[6]), lean_str(r[7]), lean_str(r[8]))
                           for r in rows))
        f.write("\n]\n\nend XalanModel.Generated.C19Caches\n")
    print("c19_caches: %d bounded caches" % len(rows))
    for r in rows:
        print("  %-52s %-26s bound %-4d %s drives %d%s" % (r[0], r[1], r[2], r[3] or "-", r[4],
                                                         ("   evicts: destroys %s, removes %s, inserts at %s" % r[6:9]) if r[5] else ""))
    for b in bad:
        print("  PROBLEM: " + b)
    return 1 if bad else 0


if __name__ == "__main__":
    sys.exit(main())
