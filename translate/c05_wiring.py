#!/usr/bin/env python3
"""C05 translator: how every XalanParsedSource / XalanDocumentBuilder / XalanParsedSourceHelper implementation wires the
DOMSupport object it owns to its parser liaison.

A DOMSupport that is held *by value* and never told its liaison answers getUnparsedEntityURI() with "" (and cannot map
documents), so unparsed-entity-uri() — and whatever else goes through DOMSupport — would depend on the source form.
For every class in src/xalanc/XalanTransformer that derives from XalanParsedSource, XalanDocumentBuilder or
XalanParsedSourceHelper this script records each data member whose type is a DOMSupport class:

  byValue      the member is an object (not a reference handed in by the caller)
  ctorLiaison  some constructor initialises it with a liaison argument      m_domSupport(m_parserLiaison, ...)
  setCall      some constructor body calls  <member>.setParserLiaison(&<liaison member>)

writes lean/XalanModel/Generated/C05_Wiring.lean (+ .json).  Exit status != 0 when an expected construct is missing.
"""
import json
import os
import re
import sys

HERE = os.path.dirname(os.path.abspath(__file__))
sys.path.insert(0, os.path.dirname(HERE))
from vlib import common  # noqa: E402

DIR = os.path.join(common.REPO, "src", "xalanc", "XalanTransformer")
BASES = ("XalanParsedSource", "XalanDocumentBuilder", "XalanParsedSourceHelper")
SUPPORT = re.compile(r"^\s*(?:const\s+)?(\w*DOMSupport)\s*(&?)\s+(m_\w+)\s*;", re.M)


def strip_comments(t):
    t = re.sub(r"/\*.*?\*/", lambda m: "\n" * m.group(0).count("\n"), t, flags=re.S)
    return re.sub(r"//[^\n]*", "", t)


def classes_of(path):
    """[(name, bases, body, line)] for every class definition in a header"""
    t = strip_comments(open(path, encoding="utf-8", errors="replace").read())
    out = []
    for m in re.finditer(r"\bclass\s+(?:XALAN_\w+\s+)?(\w+)\s*(?::\s*([^{;]*))?\{", t):
        i = m.end()
        depth = 1
        while i < len(t) and depth:
            depth += {"{": 1, "}": -1}.get(t[i], 0)
            i += 1
        out.append((m.group(1), m.group(2) or "", t[m.end():i - 1], t.count("\n", 0, m.start()) + 1))
    return out


def constructors_of(path, cls):
    """[(initialiser text, body text, line)] of every constructor definition of cls in a .cpp"""
    t = strip_comments(open(path, encoding="utf-8", errors="replace").read())
    out = []
    for m in re.finditer(r"\b%s::%s\s*\(" % (cls, cls), t):
        # parameter list
        i = m.end()
        depth = 1
        while i < len(t) and depth:
            depth += {"(": 1, ")": -1}.get(t[i], 0)
            i += 1
        j = t.find("{", i)
        if j < 0:
            continue
        init = t[i:j]
        k = j + 1
        depth = 1
        while k < len(t) and depth:
            depth += {"{": 1, "}": -1}.get(t[k], 0)
            k += 1
        out.append((init, t[j + 1:k - 1], t.count("\n", 0, m.start()) + 1))
    return out


def main():
    hpps = sorted(f for f in os.listdir(DIR) if f.endswith(".hpp"))
    impl = []        # (class, header, line)
    rows = []
    for h in hpps:
        for name, bases, body, line in classes_of(os.path.join(DIR, h)):
            if not any(re.search(r"\b%s\b" % b, bases) for b in BASES):
                continue
            if name in BASES:
                continue
            impl.append((name, h, line))
            cpp = os.path.join(DIR, h[:-4] + ".cpp")
            ctors = constructors_of(cpp, name) if os.path.exists(cpp) else []
            for sm in SUPPORT.finditer(body):
                typ, ref, member = sm.group(1), sm.group(2), sm.group(3)
                ctor_l = False
                set_c = False
                for init, cbody, _ in ctors:
                    im = re.search(r"\b%s\s*\(([^)]*)\)" % member, init)
                    if im and re.search(r"[Ll]iaison", im.group(1)):
                        ctor_l = True
                    if re.search(r"\b%s\s*\.\s*setParserLiaison\s*\(\s*&\s*\w*[Ll]iaison\w*\s*\)" % member, cbody):
                        set_c = True
                rows.append({"cls": name, "member": member, "type": typ, "byValue": ref == "", "ctorLiaison": ctor_l,
                             "setCall": set_c, "header": h, "constructors": len(ctors)})
    problems = []
    names = [x[0] for x in impl]
    for need in ("XalanDefaultParsedSource", "XalanDefaultDocumentBuilder", "XercesDOMParsedSource",
                 "XercesDOMWrapperParsedSource", "XalanSourceTreeWrapperParsedSource",
                 "XalanDefaultParsedSourceHelper", "XercesDOMParsedSourceHelper"):
        if need not in names:
            problems.append("class %s (a parsed-source / helper implementation) not found in %s" % (need, DIR))
    for r in rows:
        if r["byValue"] and r["constructors"] == 0:
            problems.append("no constructor definition found for %s (member %s)" % (r["cls"], r["member"]))
    if not rows:
        problems.append("no DOMSupport data members found")
    if problems:
        print("\n".join(problems))
        return 1
    idx = {n: i for i, n in enumerate(names)}
    os.makedirs(common.GEN, exist_ok=True)
    b = lambda v: "true" if v else "false"
    L = ["/- GENERATED by translate/c05_wiring.py from src/xalanc/XalanTransformer/*.{hpp,cpp} — do not edit. -/",
         "namespace XalanModel.Generated.C05_Wiring", "",
         "/-- a DOMSupport data member of a parsed-source / document-builder / helper class (class by index into `classNames`) -/",
         "structure Row where", "  cls : Nat", "  byValue : Bool", "  ctorLiaison : Bool", "  setCall : Bool", "deriving Repr, DecidableEq", "",
         "def classNames : List String := [" + ", ".join('"%s"' % n for n in names) + "]", "",
         "def rows : List Row := ["]
    L.append(",\n".join("  ⟨%d, %s, %s, %s⟩" % (idx[r["cls"]], b(r["byValue"]), b(r["ctorLiaison"]), b(r["setCall"])) for r in rows))
    L.append("]")
    L += ["--   " + "%s::%s : %s%s  ctorLiaison=%s setCall=%s" % (r["cls"], r["member"], r["type"], "" if r["byValue"] else "&",
                                                                 b(r["ctorLiaison"]), b(r["setCall"])) for r in rows]
    L += ["", "/-- every implementation class found (indices into `classNames`) -/",
          "def implementations : List Nat := [%s]" % ", ".join(str(i) for i in range(len(names))),
          "/-- implementations that hold their own DOMSupport object (by value) -/",
          "def owners : List Nat := [%s]" % ", ".join(str(i) for i in sorted(set(idx[r["cls"]] for r in rows if r["byValue"]))),
          "", "end XalanModel.Generated.C05_Wiring", ""]
    out = os.path.join(common.GEN, "C05_Wiring.lean")
    new = "\n".join(L)
    if not os.path.exists(out) or open(out).read() != new:
        with open(out, "w") as f:
            f.write(new)
    with open(os.path.join(common.GEN, "C05_Wiring.json"), "w") as f:
        json.dump({"implementations": impl, "rows": rows}, f, indent=1)
    print("c05_wiring: %d implementation classes, %d DOMSupport members (%d by value)" % (
        len(names), len(rows), sum(1 for r in rows if r["byValue"])))
    return 0


if __name__ == "__main__":
    sys.exit(main())
