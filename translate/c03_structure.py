#!/usr/bin/env python3
"""C03 translator: where may an XSLT element stand?  ->  Generated/C03_Structure.lean

Reads from the CURRENT working tree
  XSLT/StylesheetConstructionContext.hpp   enum eElementToken (every ELEMNAME_… token)
  XSLT/StylesheetHandler.cpp               the `switch(xslToken)` of startElement (element inside a template) and of
                                           processTopLevelElement (element at the top level): for every case group what the
                                           handler does — create an element, create after checking the position, special
                                           handling (sort, text), reject with an error, default (unknown / forward-compatible)
  XSLT/Elem*.cpp, ElemTemplateElement.cpp  every `…::childTypeAllowed` (the legality test behind appendChildElem ->
                                           HIERARCHY_REQUEST_ERR -> "is not allowed in this position"), as a table parent class x token
A case group that neither creates / processes anything nor reports an error, an override of childTypeAllowed in a class the
translator does not know, or a body it cannot read  ->  exit 1.
"""
import json
import os
import re
import sys

sys.path.insert(0, os.path.dirname(os.path.abspath(__file__)))
from c03_exceptions import strip, read, SRC, GEN  # noqa: E402


def die(msg):
    sys.stderr.write("c03_structure: " + msg + "\n")
    print("c03_structure: " + msg)
    sys.exit(1)


def block_after(txt, idx):
    """txt[idx:] … first '{' … matching '}' -> (start, end)"""
    i = txt.index("{", idx)
    d = 0
    j = i
    while j < len(txt):
        if txt[j] == "{":
            d += 1
        elif txt[j] == "}":
            d -= 1
            if d == 0:
                return i, j + 1
        j += 1
    die("unbalanced braces")


def case_groups(body):
    """body of a switch (including braces) -> list of (labels, code); labels contain 'default' for the default group"""
    res = []
    depth = 0
    i = 0
    n = len(body)
    labels, start = [], None
    pos = []
    while i < n:
        c = body[i]
        if c == "{":
            depth += 1
        elif c == "}":
            depth -= 1
        elif depth == 1:
            m = re.match(r"case\s+(?:StylesheetConstructionContext::)?(ELEMNAME_\w+)\s*:", body[i:])
            if m and not (body[i - 1].isalnum() or body[i - 1] == "_"):
                pos.append((i, i + m.end(), m.group(1)))
                i += m.end()
                continue
            m = re.match(r"default\s*:", body[i:])
            if m and not (body[i - 1].isalnum() or body[i - 1] == "_"):
                pos.append((i, i + m.end(), "default"))
                i += m.end()
                continue
        i += 1
    # group consecutive labels (only whitespace between them)
    k = 0
    while k < len(pos):
        labs = [pos[k][2]]
        end = pos[k][1]
        while k + 1 < len(pos) and body[end:pos[k + 1][0]].strip() == "":
            k += 1
            labs.append(pos[k][2])
            end = pos[k][1]
        nxt = pos[k + 1][0] if k + 1 < len(pos) else n - 1
        res.append((labs, body[end:nxt]))
        k += 1
    return res


def classify(code, where):
    creates = bool(re.search(r"createElement\s*\(|initWrapperless\s*\(", code))
    text = "m_elemTextAllocator.create" in code
    sort = "processSortElement" in code
    proc = bool(re.search(r"\bprocess(?:PreserveStripSpace|Include|Import|Stylesheet)\s*\(|m_stylesheet\s*\.\s*(?:getStylesheetRoot\(\)\s*\.\s*)?process\w+\s*\(", code))
    err = bool(re.search(r"\berror\s*\(", code))
    fwd = "ELEMNAME_FORWARD_COMPATIBLE" in code or "m_inExtensionElementStack.back() = true" in code
    if not re.search(r"\bbreak\s*;\s*$", code.strip()) and "default" not in where:
        die("%s: case group does not end in `break;` (falls into the next group)" % where)
    if sort:
        return "sort"
    if text:
        return "text"
    if fwd and err:
        return "unknownOrForward"
    if creates and err:
        return "createChecked"
    if creates:
        return "create"
    if proc:
        return "process"
    if err:
        return "reject"
    return "fallThrough"


# classes that override childTypeAllowed -> the token their elements carry
OVERRIDES = {
    "ElemApplyTemplates": "ELEMNAME_APPLY_TEMPLATES", "ElemAttribute": "ELEMNAME_ATTRIBUTE", "ElemAttributeSet": "ELEMNAME_ATTRIBUTE_SET",
    "ElemCallTemplate": "ELEMNAME_CALL_TEMPLATE", "ElemChoose": "ELEMNAME_CHOOSE", "ElemComment": "ELEMNAME_COMMENT", "ElemEmpty": "ELEMNAME_UNDEFINED",
    "ElemPI": "ELEMNAME_PI", "ElemTemplate": "ELEMNAME_TEMPLATE", "ElemText": "ELEMNAME_TEXT",
}


def child_allowed(cls, body, tokens):
    """-> set of allowed tokens, from the body of cls::childTypeAllowed"""
    b = body
    if re.fullmatch(r"\{\s*return\s+(true|false)\s*;\s*\}", b.strip()):
        return set(tokens) if "true" in b else set()
    m = re.fullmatch(r"\{\s*(?://[^\n]*\n\s*)*return\s+xslToken\s*!=\s*StylesheetConstructionContext::(ELEMNAME_\w+)\s*;\s*\}", b.strip())
    if m:
        return set(tokens) - {m.group(1)}
    m = re.search(r"bool\s+fResult\s*=\s*(true|false)\s*;", b)
    if m and "switch" in b:
        dflt = m.group(1) == "true"
        s0 = b.index("switch")
        i, j = block_after(b, s0)
        allowed = set(tokens) if dflt else set()
        for labs, code in case_groups(b[i:j]):
            mm = re.search(r"fResult\s*=\s*(true|false)\s*;", code)
            if labs == ["default"]:
                if mm and (mm.group(1) == "true") != dflt:
                    die("%s::childTypeAllowed: default group changes fResult" % cls)
                continue
            if not mm:
                die("%s::childTypeAllowed: a case group that does not assign fResult" % cls)
            for l in labs:
                if l not in tokens:
                    die("%s::childTypeAllowed: unknown token %s" % (cls, l))
                (allowed.add if mm.group(1) == "true" else allowed.discard)(l)
        return allowed
    # `if (xslToken == X) return true; … return false;`
    ms = re.findall(r"xslToken\s*==\s*StylesheetConstructionContext::(ELEMNAME_\w+)", b)
    if ms and re.fullmatch(r"\{\s*if\s*\(\s*xslToken\s*==\s*StylesheetConstructionContext::ELEMNAME_\w+(?:\s*\|\|\s*xslToken\s*==\s*StylesheetConstructionContext::ELEMNAME_\w+)*\s*\)\s*\{\s*return\s+true\s*;\s*\}\s*(?:else\s*\{\s*return\s+false\s*;\s*\}|return\s+false\s*;)\s*\}", b.strip()):
        return set(ms)
    die("%s::childTypeAllowed: body not understood: %s" % (cls, b[:200]))


def main():
    hpp = strip(read(os.path.join(SRC, "XSLT", "StylesheetConstructionContext.hpp")))
    m = re.search(r"enum\s+eElementToken\s*\{(.*?)\}", hpp, re.S)
    if not m:
        die("enum eElementToken not found")
    tokens = re.findall(r"\b(ELEMNAME_\w+)\b", m.group(1))
    tokens = list(dict.fromkeys(tokens))
    if len(tokens) < 40 or "ELEMNAME_WITH_PARAM" not in tokens:
        die("enum eElementToken: %d tokens" % len(tokens))

    sh = strip(read(os.path.join(SRC, "XSLT", "StylesheetHandler.cpp")))
    # in-template switch: the first `switch(xslToken)` after `if (!m_inTemplate)` in startElement
    s0 = sh.index("StylesheetHandler::startElement(")
    s1 = sh.index("processTopLevelElement(name, atts, xslToken", s0)
    sw = sh.index("switch(xslToken)", s1)
    i, j = block_after(sh, sw)
    in_tmpl = {}
    for labs, code in case_groups(sh[i:j]):
        act = classify(code, "startElement " + ",".join(labs))
        for l in labs:
            in_tmpl[l] = act
    # top-level switch
    t0 = sh.index("StylesheetHandler::processTopLevelElement(", s0)
    sw = sh.index("switch(xslToken)", t0)
    i, j = block_after(sh, sw)
    top = {}
    for labs, code in case_groups(sh[i:j]):
        act = classify(code, "processTopLevelElement " + ",".join(labs))
        for l in labs:
            top[l] = act
    for nm, tab in (("startElement", in_tmpl), ("processTopLevelElement", top)):
        if "default" not in tab:
            die(nm + ": switch without a default group")
        for l in tab:
            if l != "default" and l not in tokens:
                die("%s: unknown token %s" % (nm, l))
    # the parent checks of when / otherwise / apply-imports happen in the handler: remember which tokens are position-checked there
    # the HIERARCHY_REQUEST_ERR of appendChildElem is turned into an error message
    if not re.search(r"HIERARCHY_REQUEST_ERR\)\s*\{[^}]*ElemIsNotAllowed_1Param", sh, re.S):
        die("appendChildElementToParent no longer turns HIERARCHY_REQUEST_ERR into ElemIsNotAllowed")
    ete = strip(read(os.path.join(SRC, "XSLT", "ElemTemplateElement.cpp")))
    if not re.search(r"if\s*\(childTypeAllowed\(newChild->getXSLToken\(\)\)\s*==\s*false\)\s*\{\s*throw\s+XalanDOMException\(XalanDOMException::HIERARCHY_REQUEST_ERR\)", ete):
        die("appendChildElem no longer rejects a child that childTypeAllowed refuses")

    # xsl:sort: only ElemForEach (and ElemApplyTemplates, which derives from it) implement processSortElement; the base class reports an error
    mm = re.search(r"(?m)^ElemTemplateElement::processSortElement\s*\(", ete)
    if not mm:
        die("ElemTemplateElement::processSortElement not found")
    a, b = block_after(ete, mm.end())
    if not re.search(r"\berror\s*\(", ete[a:b]) or "ElementIsNotAllowedAtThisPosition" not in ete[a:b]:
        die("ElemTemplateElement::processSortElement no longer reports `not allowed at this position`")
    impl = set()
    for f in sorted(os.listdir(os.path.join(SRC, "XSLT"))):
        if f.endswith(".cpp"):
            impl |= set(re.findall(r"(?m)^(\w+)::processSortElement\s*\(", strip(read(os.path.join(SRC, "XSLT", f)))))
    if impl != {"ElemTemplateElement", "ElemForEach"}:
        die("processSortElement is implemented by %s" % sorted(impl))

    # childTypeAllowed overrides
    xdir = os.path.join(SRC, "XSLT")
    found = {}
    for f in sorted(os.listdir(xdir)):
        if f.endswith(".cpp"):
            t = strip(read(os.path.join(xdir, f)))
            for mm in re.finditer(r"(?m)^(\w+)::childTypeAllowed\s*\(int[^)]*\)\s*const", t):
                a, b = block_after(t, mm.end())
                found[mm.group(1)] = t[a:b]
    if "ElemTemplateElement" not in found:
        die("ElemTemplateElement::childTypeAllowed not found")
    extra = set(found) - set(OVERRIDES) - {"ElemTemplateElement"}
    missing = set(OVERRIDES) - set(found)
    if extra or missing:
        die("childTypeAllowed overrides changed: new %s, gone %s" % (sorted(extra), sorted(missing)))
    allowed = {"default": child_allowed("ElemTemplateElement", found["ElemTemplateElement"], tokens)}
    for cls, tok in OVERRIDES.items():
        allowed[tok] = child_allowed(cls, found[cls], tokens)

    # VariablesStack::findXObject: the recursion guard of lazily evaluated top-level variables searches the WHOLE guard stack
    vs = strip(read(os.path.join(SRC, "XSLT", "VariablesStack.cpp")))
    mm = re.search(r"(?m)^VariablesStack::findXObject\s*\(", vs)
    if not mm:
        die("VariablesStack::findXObject not found")
    a, b = block_after(vs, vs.index(")", mm.end()))
    fx = vs[a:b]
    if not re.search(r"m_guardStack\.push_back\(var\)", fx) or not re.search(r"m_guardStack\.pop_back\(\)", fx):
        die("findXObject: the guard stack is no longer pushed / popped around the evaluation of the variable")
    guard_whole = bool(re.search(r"if\s*\(\s*find\(\s*m_guardStack\.begin\(\)\s*,\s*m_guardStack\.end\(\)\s*,\s*var\s*\)\s*!=\s*m_guardStack\.end\(\)\s*\)", fx))
    if not guard_whole and not re.search(r"m_guardStack\.back\(\)\s*==\s*var|var\s*==\s*m_guardStack\.back\(\)", fx):
        die("findXObject: the test of the recursion guard has a shape this translator does not know")
    if not re.search(r"CircularVariableDefWasDetected", fx):
        die("findXObject: CircularVariableDefWasDetected is no longer reported")

    def lid(t):
        return "x_" + t[len("ELEMNAME_"):].lower()
    L = ["/- GENERATED by translate/c03_structure.py from the working tree — do not edit. -/",
         "namespace XalanModel.Generated.C03_Structure", "",
         "/-- StylesheetConstructionContext::eElementToken -/", "inductive Tok where"]
    for t in tokens:
        L.append("  | %s" % lid(t))
    L += ["deriving DecidableEq, Repr", "",
          "def Tok.all : List Tok := [%s]" % ", ".join("." + lid(t) for t in tokens), "",
          "/-- what the handler does with a token -/",
          "inductive Act where | create | createChecked | sort | text | process | reject | unknownOrForward | fallThrough",
          "deriving DecidableEq, Repr", "",
          "/-- StylesheetHandler::startElement, element in the XSLT namespace inside a template -/",
          "def inTemplateAction : Tok → Act"]
    for t in tokens:
        L.append("  | .%s => .%s" % (lid(t), in_tmpl.get(t, in_tmpl["default"])))
    L += ["", "/-- StylesheetHandler::processTopLevelElement -/", "def topLevelAction : Tok → Act"]
    for t in tokens:
        L.append("  | .%s => .%s" % (lid(t), top.get(t, top["default"])))
    L += ["", "/-- `childTypeAllowed` of the class that implements the parent token (classes without an override use ElemTemplateElement's) -/",
          "def childAllowed (parent child : Tok) : Bool :=", "  match parent with"]
    for tok in sorted(t for t in allowed if t != "default"):
        al = [t for t in tokens if t in allowed[tok]]
        L.append("  | .%s => [%s].contains child" % (lid(tok), ", ".join("Tok." + lid(t) for t in al)))
    not_default = [t for t in tokens if t not in allowed["default"]]
    L.append("  | _ => !([%s] : List Tok).contains child" % ", ".join("Tok." + lid(t) for t in not_default))
    L += ["", "/-- VariablesStack::findXObject tests `find(m_guardStack.begin(), m_guardStack.end(), var) != m_guardStack.end()` (true) or only the top of the guard stack (false) -/",
          "def guardSearchesWholeStack : Bool := %s" % ("true" if guard_whole else "false")]
    L += ["", "end XalanModel.Generated.C03_Structure", ""]
    os.makedirs(GEN, exist_ok=True)
    out = os.path.join(GEN, "C03_Structure.lean")
    new = "\n".join(L)
    if not os.path.exists(out) or read(out) != new:
        open(out, "w").write(new)
    json.dump({"tokens": tokens, "inTemplate": in_tmpl, "topLevel": top, "allowed": {k: sorted(v) for k, v in allowed.items()}},
              open(os.path.join(GEN, "C03_Structure.json"), "w"), indent=1)
    print("c03_structure: %d tokens; in-template groups %s; top-level groups %s; childTypeAllowed: default refuses %s, %d overrides" % (
        len(tokens), sorted(set(in_tmpl.values())), sorted(set(top.values())), [lid(t) for t in not_default], len(OVERRIDES)))
    return 0


if __name__ == "__main__":
    sys.exit(main())
