#!/usr/bin/env python3
"""C05 (iii) translator: the call graph of the transformation entry points, regenerated from the
current source with clang's typed AST (overload resolution done by the compiler, not by regex).

  src/xalanc/XalanTransformer/XalanTransformer.{hpp,cpp}  every XalanTransformer::transform overload,
                                                           doTransform, parseSource, compileStylesheet
  src/xalanc/XalanTransformer/XalanCAPI.cpp                XalanTransformTo{File,Data,Handler}[Prebuilt]
  src/xalanc/XalanExe/XalanExe.cpp                         the CLI's transform(...) helpers

writes lean/XalanModel/Generated/C05_Funnel.lean (+ .json sidecar with source lines).
Exit status != 0 when an expected construct is missing (obligation `translate:c05_funnel` broken).
"""
import json
import os
import subprocess
import sys

HERE = os.path.dirname(os.path.abspath(__file__))
sys.path.insert(0, os.path.dirname(HERE))
from vlib import common  # noqa: E402

INTEREST = ("transform", "doTransform", "parseSource", "compileStylesheet", "process")


def interesting(name):
    # the transform family, plus the C functions among themselves (one XalanTransformTo* may forward to another)
    return name in INTEREST or (name or "").startswith("XalanTransformTo")

ABBR = [
    ("XalanParsedSource", "PS"), ("XSLTInputSource", "IS"), ("XSLTResultTarget", "RT"),
    ("XalanCompiledStylesheet", "CS"), ("XalanOutputHandlerType", "OH"), ("XalanFlushHandlerType", "FH"),
    ("XalanTransformer", "XT"), ("Params", "Params"), ("void *", "H"),
]


def dump(tu):
    cmd = ["clang++-14", "-std=gnu++17", "-fsyntax-only", "-w", "-Xclang", "-ast-dump=json",
           "-Xclang", "-ast-dump-filter=ransform"] + common.repo_includes() + [os.path.join(common.REPO, tu)]
    p = subprocess.run(cmd, stdout=subprocess.PIPE, stderr=subprocess.PIPE)
    txt = p.stdout.decode("utf-8", "replace")
    if p.returncode != 0 and not txt.strip():
        raise SystemExit("clang failed on %s:\n%s" % (tu, p.stderr.decode("utf-8", "replace")[-2000:]))
    dec = json.JSONDecoder()
    i, out = 0, []
    while True:
        j = txt.find("{", i)
        if j < 0:
            break
        o, e = dec.raw_decode(txt, j)
        out.append(o)
        i = e
    return out


def sig_of(qual):
    """'int (const xalanc_1_12::XalanParsedSource &, ...)' -> 'PS,IS,RT'"""
    a = qual[qual.index("(") + 1: qual.rindex(")")]
    parts = []
    for p in [x.strip() for x in a.split(",")] if a.strip() else []:
        for k, v in ABBR:
            if k in p:
                parts.append(v)
                break
        else:
            parts.append(p.replace(" ", ""))
    return ",".join(parts)


class TU:
    def __init__(self, tu):
        self.tu = tu
        self.objs = dump(tu)
        self.decl = {}      # id -> dict(name, qual, cls, line, body(bool), node)
        self.canon = {}     # id -> canonical (first) decl id
        for o in self.objs:
            self.walk_decls(o, None)

    def walk_decls(self, n, cls):
        if not isinstance(n, dict):
            return
        k = n.get("kind")
        if k in ("CXXRecordDecl", "ClassTemplateDecl"):
            cls2 = n.get("name", cls)
            for c in n.get("inner", []):
                self.walk_decls(c, cls2)
            return
        if k in ("CXXMethodDecl", "FunctionDecl") and "name" in n:
            body = any(isinstance(c, dict) and c.get("kind") == "CompoundStmt" for c in n.get("inner", []))
            parent = cls
            self.decl[n["id"]] = {"name": n["name"], "qual": n.get("type", {}).get("qualType", ""), "cls": parent,
                                  "line": n.get("loc", {}).get("line") or n.get("range", {}).get("begin", {}).get("line"),
                                  "body": body, "node": n, "prev": n.get("previousDecl")}
            return
        for c in n.get("inner", []):
            self.walk_decls(c, cls)

    def canonical(self, i):
        seen = set()
        while i in self.decl and self.decl[i]["prev"] and self.decl[i]["prev"] in self.decl and i not in seen:
            seen.add(i)
            i = self.decl[i]["prev"]
        return i

    def label(self, i, fallback_name=None, fallback_qual=None):
        d = self.decl.get(self.canonical(i)) or self.decl.get(i)
        if d is None:
            name, qual, cls = fallback_name, fallback_qual or "", None
        else:
            name, qual, cls = d["name"], d["qual"], d["cls"]
        if name is None:
            return None
        if name == "transform":
            if "(" not in qual:
                return None
            s = sig_of(qual)
            if "_CharT" in qual or "wchar_t" in qual or "char*" in s:
                return None
            return ("T(%s)" % s) if not s.startswith("XT") else ("cli(%s)" % s)
        return name

    def callees(self, node):
        out = []

        def rec(n):
            if isinstance(n, dict):
                k = n.get("kind")
                if k == "MemberExpr" and interesting(n.get("name")) and n.get("referencedMemberDecl"):
                    lab = self.label(n["referencedMemberDecl"], n.get("name"))
                    if lab:
                        out.append(lab)
                elif k == "DeclRefExpr":
                    r = n.get("referencedDecl", {})
                    if r.get("kind") in ("FunctionDecl", "CXXMethodDecl") and interesting(r.get("name")):
                        lab = self.label(r.get("id"), r.get("name"), r.get("type", {}).get("qualType"))
                        if lab:
                            out.append(lab)
                for c in n.get("inner", []):
                    rec(c)
        rec(node)
        res = []
        for x in out:
            if x not in res:
                res.append(x)
        return res

    def functions(self, pred):
        """{label: (callees, line)} for every function *definition* whose decl satisfies pred"""
        res = {}
        for i, d in self.decl.items():
            if d["body"] and pred(d):
                lab = self.label(i)
                if lab:
                    res[lab] = (self.callees(d["node"]), d["line"])
        return res


def main():
    t1 = TU("src/xalanc/XalanTransformer/XalanTransformer.cpp")
    core = t1.functions(lambda d: d["cls"] == "XalanTransformer" and d["name"] in
                        ("transform", "doTransform", "parseSource", "compileStylesheet")
                        or (d["name"] in ("transform",) and "XalanTransformer::" in d["qual"]))
    # out-of-line definitions have cls None in the filtered dump (they are top-level objects): pick them by prev link
    for i, d in t1.decl.items():
        if d["body"] and d["cls"] is None and d["prev"] in t1.decl and t1.decl[d["prev"]]["cls"] == "XalanTransformer" \
                and d["name"] in ("transform", "doTransform", "parseSource", "compileStylesheet"):
            lab = t1.label(i)
            if lab:
                core[lab] = (t1.callees(d["node"]), d["line"])
    overloads = sorted(k for k in core if k.startswith("T("))
    declared = sorted(set(t1.label(i) for i, d in t1.decl.items()
                          if d["cls"] == "XalanTransformer" and d["name"] == "transform" and t1.label(i)))
    problems = []
    if len(declared) < 9:
        problems.append("expected >= 9 XalanTransformer::transform overloads, found %d" % len(declared))
    missing = [x for x in declared if x not in core]
    if missing:
        problems.append("transform overloads without a body in XalanTransformer.{hpp,cpp}: %s" % missing)
    for need in ("doTransform", "parseSource", "compileStylesheet"):
        if need not in core:
            problems.append("definition of XalanTransformer::%s not found" % need)
    if "doTransform" in core and "process" not in core["doTransform"][0]:
        problems.append("doTransform no longer calls XSLTProcessor::process")

    t2 = TU("src/xalanc/XalanTransformer/XalanCAPI.cpp")
    capi = t2.functions(lambda d: d["cls"] is None and d["name"].startswith("XalanTransformTo"))
    if len(capi) < 6:
        problems.append("expected the 6 XalanTransformTo* C functions, found %s" % sorted(capi))

    t3 = TU("src/xalanc/XalanExe/XalanExe.cpp")
    cli = t3.functions(lambda d: d["cls"] is None and d["name"] == "transform" and "XalanTransformer &" in d["qual"])
    if "cli(XT,Params)" not in cli:
        problems.append("CLI entry transform(XalanTransformer&, const Params&) not found: %s" % sorted(cli))

    if problems:
        print("\n".join(problems))
        return 1

    graph = {}
    graph.update(core)
    graph.update(capi)
    graph.update(cli)
    names = []

    def idx(n):
        if n not in names:
            names.append(n)
        return names.index(n)
    for k in ["doTransform", "process", "parseSource", "compileStylesheet"] + overloads + sorted(capi) + sorted(cli):
        idx(k)
    for k, (cs, _) in graph.items():
        for c in cs:
            idx(c)
    edges = [(idx(k), [idx(c) for c in cs]) for k, (cs, _) in sorted(graph.items(), key=lambda kv: idx(kv[0]))]

    os.makedirs(common.GEN, exist_ok=True)
    L = []
    L.append("/- GENERATED by translate/c05_funnel.py from %s — do not edit. -/" % "XalanTransformer.{hpp,cpp}, XalanCAPI.cpp, XalanExe.cpp (clang-14 typed AST)")
    L.append("namespace XalanModel.Generated.C05_Funnel")
    L.append("")
    L.append("/-- node names: T(..) = XalanTransformer::transform overload by parameter types (PS parsed source, IS input source,")
    L.append("CS compiled stylesheet, RT result target, H/OH/FH callback handle/handlers), cli(..) = XalanExe.cpp helpers -/")
    L.append("def names : List String := [" + ", ".join('"%s"' % n for n in names) + "]")
    L.append("")
    txt_edges = "def edges : List (Nat × List Nat) := [\n" + ",\n".join(
        "  (%d, [%s])" % (a, ", ".join(str(x) for x in b)) for a, b in edges) + "\n]"
    doc_edges = "\n".join("--   %s -> %s" % (names[a], ", ".join(names[x] for x in b) or "(none)") for a, b in edges)
    L.append("/-- caller ↦ callees among {transform overloads, doTransform, parseSource, compileStylesheet, XSLTProcessor::process} -/")
    L.append(txt_edges)
    L.append(doc_edges)
    L.append("")
    L.append("def doTransform : Nat := %d" % idx("doTransform"))
    L.append("def process : Nat := %d" % idx("process"))
    L.append("def parseSource : Nat := %d" % idx("parseSource"))
    L.append("def compileStylesheet : Nat := %d" % idx("compileStylesheet"))
    L.append("/-- every public XalanTransformer::transform overload declared in XalanTransformer.hpp -/")
    L.append("def transformOverloads : List Nat := [%s]" % ", ".join(str(idx(x)) for x in overloads))
    L.append("/-- the C API transformation entry points -/")
    L.append("def capiEntries : List Nat := [%s]" % ", ".join(str(idx(x)) for x in sorted(capi)))
    L.append("/-- the command-line program's entry: transform(XalanTransformer&, const Params&) -/")
    L.append("def cliEntry : Nat := %d" % idx("cli(XT,Params)"))
    L.append("def cliHelpers : List Nat := [%s]" % ", ".join(str(idx(x)) for x in sorted(cli)))
    L.append("")
    L.append("end XalanModel.Generated.C05_Funnel")
    out = os.path.join(common.GEN, "C05_Funnel.lean")
    new = "\n".join(L) + "\n"
    old = open(out).read() if os.path.exists(out) else None
    if old != new:
        with open(out, "w") as f:
            f.write(new)
    with open(os.path.join(common.GEN, "C05_Funnel.json"), "w") as f:
        json.dump({"names": names, "graph": {k: {"callees": v[0], "line": v[1]} for k, v in graph.items()}}, f, indent=1)
    print("c05_funnel: %d nodes, %d transform overloads, %d C functions, %d CLI helpers" % (
        len(names), len(overloads), len(capi), len(cli)))
    return 0


if __name__ == "__main__":
    sys.exit(main())
