#!/usr/bin/env python3
"""C18 translator: reads the constants the number<->string conversions depend on out of the
*current* source and writes lean/XalanModel/Generated/C18_NumberConsts.lean (+ .json sidecar).

  DOMStringHelper.cpp : MAX_PRINTF_DIGITS, thePrintfStrings[] (must all be "%.<N>f", 0-terminated),
                        the size expression of `char theBuffer[...]` inside NumberToDOMString(double,...)
                        and inside NumberToCharacters(double,...), the sprintf/snprintf call used,
                        theNaNString / thePositiveInfinityString / theNegativeInfinityString / theZeroString
  DoubleSupport.cpp   : theLongHackThreshold, theBufferSize (convertHelper)

Any construct that cannot be found in the expected shape makes the translator fail (exit 1): the
obligation "the model's constants are the code's constants" is then not discharged.
"""
import json
import os
import re
import sys

sys.path.insert(0, os.path.dirname(os.path.dirname(os.path.abspath(__file__))))
from vlib import common  # noqa: E402

DSH = os.path.join(common.REPO, "src/xalanc/PlatformSupport/DOMStringHelper.cpp")
DS = os.path.join(common.REPO, "src/xalanc/PlatformSupport/DoubleSupport.cpp")

UNI = {"charHyphenMinus": "-", "charFullStop": "."}


def die(msg):
    print("c18_number_consts: " + msg)
    sys.exit(1)


def strip_comments(s):
    s = re.sub(r"/\*.*?\*/", lambda m: re.sub(r"[^\n]", " ", m.group(0)), s, flags=re.S)
    return re.sub(r"//[^\n]*", "", s)


def function_body(src, header_re, what):
    """text of the brace-balanced body following the first match of header_re"""
    m = re.search(header_re, src, flags=re.S)
    if not m:
        die("cannot find " + what)
    i = src.index("{", m.end() - 1)
    depth = 0
    for j in range(i, len(src)):
        if src[j] == "{":
            depth += 1
        elif src[j] == "}":
            depth -= 1
            if depth == 0:
                return src[i:j + 1], src.count("\n", 0, i) + 1
    die("unbalanced braces in " + what)


def const_eval(expr, env):
    e = expr.strip()
    e = re.sub(r"\b(\d+)[uUlL]+\b", r"\1", e)
    if not re.fullmatch(r"[A-Za-z0-9_+\-*/() \t]+", e):
        die("size expression not understood: %r" % expr)
    for k, v in env.items():
        e = re.sub(r"\b%s\b" % re.escape(k), str(v), e)
    if re.search(r"[A-Za-z_]", e):
        die("size expression uses an unknown name: %r" % expr)
    return int(eval(e, {"__builtins__": {}}, {}))  # digits and + - * / ( ) only


def uni_string(src, name):
    m = re.search(r"\b%s\s*\[\s*\]\s*=\s*\{(.*?)\}" % re.escape(name), src, flags=re.S)
    if not m:
        die("cannot find " + name)
    out = []
    items = [x.strip() for x in m.group(1).split(",") if x.strip()]
    if items[-1] != "0":
        die(name + " is not 0-terminated")
    for it in items[:-1]:
        mm = re.fullmatch(r"XalanUnicode::(\w+)", it)
        if not mm:
            die("%s: element %r not understood" % (name, it))
        n = mm.group(1)
        if n in UNI:
            out.append(UNI[n])
        elif re.fullmatch(r"charLetter_([A-Za-z])", n):
            out.append(n[-1])
        elif re.fullmatch(r"charDigit_(\d)", n):
            out.append(n[-1])
        else:
            die("%s: element %r not understood" % (name, it))
    return "".join(out)


def main():
    raw = open(DSH, encoding="utf-8", errors="replace").read()
    src = strip_comments(raw)
    env = {}
    # DBL_MAX_10_EXP etc. may appear in a repaired buffer size
    env.update({"DBL_MAX_10_EXP": 308, "DBL_DIG": 15, "DBL_MANT_DIG": 53, "DBL_MAX_EXP": 1024})
    for m in re.finditer(r"const\s+(?:std::)?size_t\s+(\w+)\s*=\s*([^;]+);", src):
        env[m.group(1)] = const_eval(m.group(2), env)
    if "MAX_PRINTF_DIGITS" not in env:
        die("MAX_PRINTF_DIGITS not found")

    m = re.search(r"thePrintfStrings\s*\[\s*\]\s*=\s*\{(.*?)\}", src, flags=re.S)
    if not m:
        die("thePrintfStrings not found")
    items = [x.strip() for x in m.group(1).split(",") if x.strip()]
    if items[-1] != "0":
        die("thePrintfStrings is not 0-terminated")
    precs = []
    for it in items[:-1]:
        mm = re.fullmatch(r'"%\.(\d+)f"', it)
        if not mm:
            die("printf format %r is not of the form \"%%.<N>f\"" % it)
        precs.append(int(mm.group(1)))
    if not precs:
        die("thePrintfStrings is empty")

    info = {"MAX_PRINTF_DIGITS": env["MAX_PRINTF_DIGITS"], "precisions": precs}
    for key, hdr in (("toDOMString", r"NumberToDOMString\s*\(\s*double\s+theValue\s*,\s*XalanDOMString&\s*theResult\s*\)\s*\{"),
                     ("toCharacters", r"DOMStringHelper::NumberToCharacters\s*\(\s*double\s+theValue\s*,.*?\)\s*\{")):
        body, line = function_body(src, hdr, key)
        mm = re.search(r"\bchar\s+theBuffer\s*\[([^\]]+)\]", body)
        if not mm:
            die("%s: `char theBuffer[...]` not found" % key)
        size = const_eval(mm.group(1), env)
        calls = re.findall(r"\b(sprintf|snprintf)\s*\(\s*theBuffer\s*,([^;]*);", body)
        if len(calls) != 1:
            die("%s: expected exactly one sprintf/snprintf into theBuffer, found %d" % (key, len(calls)))
        fn, rest = calls[0]
        bounded = 0
        if fn == "snprintf":
            # snprintf(theBuffer, <size>, fmt, value): the size argument must not exceed the buffer
            arg = rest.split(",")[0]
            arg = arg.replace("sizeof(theBuffer)", str(size)).replace("sizeof theBuffer", str(size))
            lim = const_eval(arg, env)
            if lim > size:
                die("%s: snprintf limit %d exceeds the buffer %d" % (key, lim, size))
            bounded = 1
        if not re.search(r"static_cast<XMLInt64>\(theValue\)\s*==\s*theValue", body):
            die("%s: integer fast-path test not found in the expected form" % key)
        if not re.search(r"while\s*\(\s*atof\(theBuffer\)\s*!=\s*theValue\s*&&\s*\*thePrintfString\s*!=\s*0\s*\)", body):
            die("%s: precision loop condition not found in the expected form" % key)
        flat = re.sub(r"\s+", " ", body)
        # integer fast path: 0 = the cast is evaluated for every finite non-zero value (undefined for |x| >= 2^63),
        #                    1 = guarded by  theValue >= -2^63 && theValue < 2^63
        guarded = ("else if (theValue >= -9223372036854775808.0 && theValue < 9223372036854775808.0 && "
                   "static_cast<XMLInt64>(theValue) == theValue)") in flat
        unguarded = "else if (static_cast<XMLInt64>(theValue) == theValue)" in flat
        if guarded == unguarded:
            die("%s: integer fast-path test is in neither of the two transcribed forms" % key)
        # after the loop: 0 = nothing, 1 = when the last attempt does not read back, formatSmallNumber() replaces the buffer
        fb = ("while(atof(theBuffer) != theValue && *thePrintfString != 0); if (atof(theBuffer) != theValue) { "
              "const int theSmallNumberLength = formatSmallNumber(theValue, theBuffer); "
              "if (theSmallNumberLength != 0) { theCharsWritten = theSmallNumberLength; } } while(theBuffer[--theCharsWritten] == '0')") in flat
        nofb = "while(atof(theBuffer) != theValue && *thePrintfString != 0); while(theBuffer[--theCharsWritten] == '0')" in flat
        if fb == nofb:
            die("%s: the code between the precision loop and the zero stripping is in neither of the two transcribed forms" % key)
        info[key] = {"buffer": size, "bounded": bounded, "line": line, "castGuarded": int(guarded), "tinyFallback": int(fb)}
    if key == "toCharacters":
        body, _ = function_body(src, r"DOMStringHelper::NumberToCharacters\s*\(\s*double\s+theValue\s*,.*?\)\s*\{", key)
        mm = re.search(r"XalanDOMChar\s+theResult\s*\[([^\]]+)\]", body)
        if not mm:
            die("toCharacters: `XalanDOMChar theResult[...]` not found")
        info["toCharacters"]["result"] = const_eval(mm.group(1), env)

    for f in ("castGuarded", "tinyFallback"):
        if info["toDOMString"][f] != info["toCharacters"][f]:
            die("NumberToDOMString and NumberToCharacters differ in " + f)
        info[f] = info["toDOMString"][f]
    if info["tinyFallback"]:
        body, _ = function_body(src, r"static\s+int\s+formatSmallNumber\s*\(\s*double\s+theValue\s*,\s*char\*\s*theBuffer\s*\)\s*\{", "formatSmallNumber")
        flat = re.sub(r"\s+", " ", body)
        need = ['char theScientific[32];', 'sprintf(theScientific, "%.17e", theValue);',
                "const char* const theExponentMark = strchr(theScientific, 'e');",
                "if (theExponentMark == 0 || theExponentMark[1] != '-') { return 0; }",
                "if (*theCurrent == '-') { *theOutput++ = *theCurrent++; }", "*theOutput++ = '0'; *theOutput++ = '.';",
                "for (int theZeros = atoi(theExponentMark + 2) - 1; theZeros > 0; --theZeros) { *theOutput++ = '0'; }",
                "for (; theCurrent != theExponentMark; ++theCurrent) { if (isdigit(*theCurrent)) { *theOutput++ = *theCurrent; } }",
                "*theOutput = 0; return int(theOutput - theBuffer);"]
        for n in need:
            if n not in flat:
                die("formatSmallNumber is not in the transcribed form (missing: %s)" % n)
    body, _ = function_body(src, r"ScalarToDecimalString\s*\(\s*ScalarType\s+theValue\s*,\s*XalanDOMString&\s*theResult\s*\)\s*\{", "ScalarToDecimalString")
    mm = re.search(r"XalanDOMChar\s+theBuffer\s*\[([^\]]+)\]", body)
    if not mm:
        die("ScalarToDecimalString: buffer not found")
    info["scalarBuffer"] = const_eval(mm.group(1), env)

    strs = {n: uni_string(src, n) for n in ("theNaNString", "thePositiveInfinityString", "theNegativeInfinityString", "theZeroString")}
    info["strings"] = strs

    ds = strip_comments(open(DS, encoding="utf-8", errors="replace").read())
    m = re.search(r"theLongHackThreshold\s*=\s*(\d+)\s*;", ds)
    if not m:
        die("theLongHackThreshold not found")
    info["longHackThreshold"] = int(m.group(1))
    m = re.search(r"theBufferSize\s*=\s*(\d+)[uU]?\s*;", ds)
    if not m:
        die("theBufferSize (convertHelper) not found")
    info["convertBuffer"] = int(m.group(1))
    if not re.search(r"fGotDecimalPoint\s*==\s*false\s*&&\s*theLength\s*<\s*theLongHackThreshold", ds):
        die("convertHelper fast-path test not found in the expected form")
    # convertHelper fast path: 0 = `return double(WideStringToLong(theString));`
    #                           1 = the long is kept, and when it is 0 the sign character decides between -0.0 and 0.0
    body, _ = function_body(ds, r"convertHelper\s*\(.*?\)\s*\{", "convertHelper")
    if re.search(r"return\s+double\s*\(\s*WideStringToLong\s*\(\s*theString\s*\)\s*\)\s*;", body):
        info["fastPathKeepsSign"] = 0
    elif (re.search(r"const\s+long\s+theLong\s*=\s*WideStringToLong\s*\(\s*theString\s*\)\s*;", body)
          and re.search(r"if\s*\(\s*theLong\s*==\s*0\s*\)\s*\{\s*consumeWhitespace\s*\(\s*theString\s*,\s*theLength\s*\)\s*;\s*"
                        r"return\s*\*theString\s*==\s*XalanUnicode::charHyphenMinus\s*\?\s*-0\.0\s*:\s*0\.0\s*;\s*\}\s*return\s+double\s*\(\s*theLong\s*\)\s*;", body)):
        info["fastPathKeepsSign"] = 1
    else:
        die("convertHelper fast path is in neither of the two transcribed forms")
    # DoubleSupport::round: 0 = long(x + 0.5) / modf form, 1 = modf + ceil/floor form
    body, _ = function_body(ds, r"DoubleSupport::round\s*\(\s*double\s+theValue\s*\)\s*\{", "DoubleSupport::round")
    flat = re.sub(r"\s+", " ", body)
    v0 = ("return long(theValue + 0.5);" in flat and "fracPart == -0.5 ? theValue + 0.5 : theValue - 0.5;" in flat
          and "return long(theAdjustedValue);" in flat and "else if (theValue == 0) { return 0.0; }" in flat
          and "if (theValue < LONG_MAX)" in flat and "if (theAdjustedValue > LONG_MIN)" in flat)
    v1 = ("else if (theValue == 0) { return theValue; }" in flat
          and "const double fracPart = std::modf(theValue, &intPart);" in flat
          and "if (theValue > 0) { return fracPart >= 0.5 ? std::ceil(theValue) : intPart; }" in flat
          and "else { return fracPart < -0.5 ? std::floor(theValue) : intPart; }" in flat
          and "long(" not in flat)
    if v0 == v1:
        die("DoubleSupport::round is in neither of the two transcribed forms")
    info["roundVariant"] = 1 if v1 else 0
    hp = strip_comments(open(os.path.join(common.REPO, "src/xalanc/PlatformSupport/DoubleSupport.hpp"), encoding="utf-8", errors="replace").read())
    hflat = re.sub(r"\s+", " ", hp)
    if "ceiling(double theValue) { return std::ceil(theValue); }" not in hflat or "floor(double theValue) { return std::floor(theValue); }" not in hflat:
        die("DoubleSupport::floor / ceiling are no longer std::floor / std::ceil")

    def lst(s):
        return "[" + ", ".join(str(ord(c)) for c in s) + "]"

    out = """-- GENERATED by translate/c18_number_consts.py from the current source; do not edit.
-- %s
-- %s
namespace XalanModel.Generated.C18

/-- `MAX_PRINTF_DIGITS` -/
def maxPrintfDigits : Nat := %d
/-- precisions N of `thePrintfStrings[] = { "%%.<N>f", ..., 0 }`, in order -/
def printfPrecisions : List Nat := %s
/-- `sizeof(char theBuffer[...])` in `NumberToDOMString(double, XalanDOMString&)` -/
def toStringBuffer : Nat := %d
/-- 1 when the formatting call is `snprintf` limited to the buffer (cannot overrun), 0 for `sprintf` -/
def toStringBounded : Nat := %d
/-- `sizeof(char theBuffer[...])` in `DOMStringHelper::NumberToCharacters(double, …)` -/
def toCharactersBuffer : Nat := %d
def toCharactersBounded : Nat := %d
/-- number of `XalanDOMChar`s of `theResult[...]` in `NumberToCharacters(double, …)` -/
def toCharactersResult : Nat := %d
/-- number of `XalanDOMChar`s of `theBuffer[...]` in `ScalarToDecimalString(ScalarType, XalanDOMString&)` -/
def scalarBuffer : Nat := %d
def nanString : List Nat := %s
def posInfString : List Nat := %s
def negInfString : List Nat := %s
def zeroString : List Nat := %s
/-- `theLongHackThreshold` in `convertHelper` (DoubleSupport.cpp) -/
def longHackThreshold : Nat := %d
/-- `theBufferSize` in `convertHelper` -/
def convertBuffer : Nat := %d
/-- fast path of `convertHelper`: 0 = `double(WideStringToLong(s))`, 1 = the same, but a zero result takes its sign from a leading '-' -/
def fastPathKeepsSign : Nat := %d
/-- `DoubleSupport::round`: 0 = `long(x + 0.5)` form, 1 = `modf` + `ceil`/`floor` form -/
def roundVariant : Nat := %d
/-- integer fast-path test of the double conversions: 1 = guarded by `-2^63 <= x < 2^63`, 0 = cast evaluated unconditionally -/
def castGuarded : Nat := %d
/-- 1 = when the last "%%.Nf" attempt does not read back, `formatSmallNumber` ("%%.17e" expanded) replaces the buffer -/
def tinyFallback : Nat := %d

end XalanModel.Generated.C18
""" % (os.path.relpath(DSH, common.REPO), os.path.relpath(DS, common.REPO),
       info["MAX_PRINTF_DIGITS"], "[" + ", ".join(map(str, precs)) + "]",
       info["toDOMString"]["buffer"], info["toDOMString"]["bounded"],
       info["toCharacters"]["buffer"], info["toCharacters"]["bounded"], info["toCharacters"]["result"],
       info["scalarBuffer"],
       lst(strs["theNaNString"]), lst(strs["thePositiveInfinityString"]), lst(strs["theNegativeInfinityString"]),
       lst(strs["theZeroString"]), info["longHackThreshold"], info["convertBuffer"], info["fastPathKeepsSign"], info["roundVariant"], info["castGuarded"], info["tinyFallback"])
    os.makedirs(common.GEN, exist_ok=True)
    p = os.path.join(common.GEN, "C18_NumberConsts.lean")
    old = open(p).read() if os.path.exists(p) else None
    if old != out:
        with open(p, "w") as f:
            f.write(out)
    with open(os.path.join(common.GEN, "C18_NumberConsts.json"), "w") as f:
        json.dump(info, f, indent=1)
    print("c18_number_consts: MAX_PRINTF_DIGITS=%d precisions=%d..%d (%d) buffer=%d bounded=%d longHack=%d keepSign=%d roundVariant=%d castGuarded=%d tinyFallback=%d" % (
        info["MAX_PRINTF_DIGITS"], precs[0], precs[-1], len(precs), info["toDOMString"]["buffer"],
        info["toDOMString"]["bounded"], info["longHackThreshold"], info["fastPathKeepsSign"], info["roundVariant"], info["castGuarded"], info["tinyFallback"]))


if __name__ == "__main__":
    main()
