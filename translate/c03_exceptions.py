#!/usr/bin/env python3
"""C03 translator: exception hierarchy, throw sites and catch chains  ->  Generated/C03_Exceptions.lean

Reads, from the CURRENT working tree (VERIF_REPO, default /repo):
  * src/xalanc/CMakeLists.txt            the list of files that make up libxalan-c (minus Harness/)
  * every listed .hpp/.cpp                `class X : public Y` (hierarchy), `throw X(...)` / `throw var;` sites
  * /usr/include/xercesc/...              the Xerces-C exception classes (SAXException, SAXParseException,
                                          XMLException + MakeXMLException(...) subclasses, DOMException, OutOfMemoryException)
  * XalanTransformer.cpp                  catch chains of compileStylesheet / parseSource / doTransform
                                          (handler class, status assigned, how the message is built),
                                          call graph of the transform() overloads
  * XalanCAPI.cpp                         which XalanTransformer methods each exported function delegates to, own try/catch
  * XPathCAPI.cpp + XPathCAPI.h           catch chains of the exported functions (incl. `catch(...)`), error codes

Anything it cannot parse in the shape it expects is a failure (exit 1): the obligation "translate:c03_exceptions"
is then not discharged.
"""
import json
import os
import re
import sys

ROOT = os.path.dirname(os.path.dirname(os.path.abspath(__file__)))
REPO = os.environ.get("VERIF_REPO", "/repo")
SRC = os.path.join(REPO, "src", "xalanc")
GEN = os.path.join(ROOT, "lean", "XalanModel", "Generated")
XERCES_INC = "/usr/include/xercesc"


def die(msg):
    sys.stderr.write("c03_exceptions: " + msg + "\n")
    print("c03_exceptions: " + msg)
    sys.exit(1)


def strip(src):
    """remove comments, string and char literals (keeps newlines so offsets -> line numbers stay right)"""
    out = []
    i, n = 0, len(src)
    while i < n:
        c = src[i]
        if src.startswith("//", i):
            while i < n and src[i] != "\n":
                i += 1
        elif src.startswith("/*", i):
            j = src.find("*/", i + 2)
            j = n if j < 0 else j + 2
            out.append("".join(ch if ch == "\n" else " " for ch in src[i:j]))
            i = j
        elif c == '"' or c == "'":
            q = c
            j = i + 1
            while j < n and src[j] != q:
                if src[j] == "\\":
                    j += 1
                if j < n and src[j] == "\n":
                    break
                j += 1
            out.append(q + q)
            i = j + 1
        else:
            out.append(c)
            i += 1
    return "".join(out)


def read(path):
    with open(path, encoding="utf-8", errors="replace") as f:
        return f.read()


def library_files():
    cm = read(os.path.join(SRC, "CMakeLists.txt"))
    sets = {}
    for m in re.finditer(r"set\((\w+)\s+([^)]*)\)", cm):
        sets[m.group(1)] = m.group(2).split()
    files = []

    def expand(name, depth=0):
        if depth > 5:
            return
        for it in sets.get(name, []):
            r = re.match(r"\$\{(\w+)\}", it)
            if r:
                expand(r.group(1), depth + 1)
            elif it.endswith((".cpp", ".hpp", ".h")) and not it.startswith("$"):
                files.append(it)
    for top in ("libxalan_c_SOURCES", "libxalan_c_HEADERS", "icubridge_sources", "icubridge_headers"):
        if top not in sets:
            die("CMakeLists.txt: set(%s ...) not found" % top)
        expand(top)
    files = sorted(set(f for f in files if not f.startswith("Harness/")))
    if len(files) < 500:
        die("CMakeLists.txt: only %d library files found (expected > 500)" % len(files))
    return files


CLASS_RE = re.compile(r"\bclass\s+(?:[A-Z][A-Z0-9_]*_EXPORT\s+|XALAN_\w+\s+)?(\w+)\s*(?::\s*public\s+((?:\w+::)*\w+))?\s*\{")
THROW_CTOR = re.compile(r"\bthrow\s+((?:\w+::)*\w+)\s*(?:<[^>;]*>)?\s*\(")
THROW_VAR = re.compile(r"\bthrow\s+(\w+)\s*;")
TYPEDEF = re.compile(r"\btypedef\s+((?:\w+::)*\w+)\s+(\w+)\s*;")


def last(name):
    return name.split("::")[-1]


def xerces_classes():
    """name -> base (None for a root); only exception classes"""
    res = {}
    for rel, names in (("sax/SAXException.hpp", None), ("sax/SAXParseException.hpp", None),
                       ("util/XMLException.hpp", None), ("dom/DOMException.hpp", None),
                       ("util/OutOfMemoryException.hpp", None), ("dom/DOMLSException.hpp", None),
                       ("dom/DOMRangeException.hpp", None), ("dom/DOMXPathException.hpp", None)):
        p = os.path.join(XERCES_INC, rel)
        if not os.path.exists(p):
            die("Xerces header missing: " + p)
        txt = strip(read(p))
        for m in CLASS_RE.finditer(txt):
            nm, base = m.group(1), m.group(2)
            if not nm.endswith("Exception"):
                continue
            if base is not None and last(base) == "XMemory":
                base = None
            res[nm] = last(base) if base else None
    for base, _, fs in os.walk(XERCES_INC):
        for f in fs:
            if f.endswith(".hpp"):
                t = read(os.path.join(base, f))
                if "MakeXMLException" in t:
                    for m in re.finditer(r"^MakeXMLException\((\w+),", t, re.M):
                        res[m.group(1)] = "XMLException"
    for need in ("SAXException", "SAXParseException", "XMLException", "DOMException", "OutOfMemoryException"):
        if need not in res:
            die("Xerces class %s not found" % need)
    return res


STD = {"bad_alloc": "exception", "out_of_range": "logic_error", "logic_error": "exception",
       "runtime_error": "exception", "length_error": "logic_error", "exception": None,
       "invalid_argument": "logic_error", "bad_cast": "exception", "overflow_error": "runtime_error"}


def body_at(txt, open_idx):
    """txt[open_idx] == '{' -> index just after the matching '}'"""
    depth = 0
    i = open_idx
    while i < len(txt):
        if txt[i] == "{":
            depth += 1
        elif txt[i] == "}":
            depth -= 1
            if depth == 0:
                return i + 1
        i += 1
    die("unbalanced braces")


def find_function(txt, qualified, which=None):
    """all definitions `qualified(` ... `{body}` -> list of (start, params, body)"""
    res = []
    for m in re.finditer(r"(?m)^%s\s*\(" % re.escape(qualified), txt):
        # parameter list
        i = m.end() - 1
        depth = 0
        j = i
        while j < len(txt):
            if txt[j] == "(":
                depth += 1
            elif txt[j] == ")":
                depth -= 1
                if depth == 0:
                    break
            j += 1
        params = txt[i + 1:j]
        k = j + 1
        while k < len(txt) and txt[k] in " \t\r\nconst":
            k += 1
        if k < len(txt) and txt[k] == ":":   # ctor init list: skip to first '{' at depth 0 after it
            k = txt.find("{", k)
        if k >= len(txt) or txt[k] != "{":
            continue
        e = body_at(txt, k)
        res.append((m.start(), params, txt[k:e]))
    return res


def top_level_try_chains(body):
    """the catch chains of `try` blocks directly in the function body (depth 1) -> list of list of (cls|None, handler body)"""
    chains = []
    i = 0
    depth = 0
    n = len(body)
    while i < n:
        c = body[i]
        if c == "{":
            depth += 1
            i += 1
        elif c == "}":
            depth -= 1
            i += 1
        elif re.match(r"\btry\b", body[i:i + 4]) and (i == 0 or not (body[i - 1].isalnum() or body[i - 1] == "_")):
            j = body.find("{", i)
            e = body_at(body, j)
            chain = []
            k = e
            while True:
                m = re.match(r"\s*catch\s*\(([^)]*)\)\s*", body[k:])
                if not m:
                    break
                decl = m.group(1).strip()
                hb = k + m.end()
                if body[hb] != "{":
                    die("catch without block")
                he = body_at(body, hb)
                if decl == "...":
                    cls = None
                else:
                    mm = re.match(r"(?:const\s+)?((?:\w+::)*\w+)\s*&?\s*\w*$", decl)
                    if not mm:
                        die("cannot parse catch declaration: " + decl)
                    cls = last(mm.group(1))
                chain.append((cls, body[hb:he]))
                k = he
            if not chain:
                die("try without catch")
            chains.append((depth, chain, body[j:e]))
            i = k
        else:
            i += 1
    return chains


def lean_ident(s):
    return re.sub(r"\W", "_", s)


def main():
    files = library_files()
    xer = xerces_classes()
    # ---- Xalan classes
    xal = {}           # name -> base(last component) or None
    where = {}
    aliases = {}
    stripped = {}
    for rel in files:
        p = os.path.join(SRC, rel)
        if not os.path.exists(p):
            continue   # a listed file may be generated
        t = strip(read(p))
        stripped[rel] = t
        for m in CLASS_RE.finditer(t):
            nm, base = m.group(1), m.group(2)
            if nm in xal and xal[nm] is not None and base is None:
                continue
            if base is not None or nm not in xal:
                xal[nm] = last(base) if base else None
                where[nm] = "%s:%d" % (rel, t.count("\n", 0, m.start()) + 1)
        for m in TYPEDEF.finditer(t):
            if m.group(2).endswith("Type") and "Exception" in m.group(1):
                aliases[m.group(2)] = last(m.group(1))
    roots_xalan = ["XSLException", "XalanDOMException"]
    for r in roots_xalan:
        if r not in xal:
            die("root class %s not found in the library sources" % r)
        if xal[r] is not None:
            die("root class %s now has a base class %s: hierarchy changed" % (r, xal[r]))

    def chain_of(nm, table):
        seen = []
        while nm is not None and nm in table and nm not in seen:
            seen.append(nm)
            nm = table[nm]
        return seen

    exc_xalan = {}
    for nm in xal:
        ch = chain_of(nm, xal)
        if ch and ch[-1] in roots_xalan:
            exc_xalan[nm] = xal[nm]
        elif ch and xal.get(ch[-1]) is None and len(ch) >= 1:
            # a Xalan class deriving from a Xerces exception class?
            top = ch[-1]
            b = None
            for c in ch:
                if xal[c] is not None and xal[c] not in xal and xal[c] in xer:
                    b = c
            if b is not None:
                for c in ch[:ch.index(b) + 1]:
                    exc_xalan[c] = xal[c]

    # ---- throw sites
    thrown = {}      # qualified key -> list of sites
    unresolved = []
    for rel, t in stripped.items():
        for m in THROW_CTOR.finditer(t):
            full = m.group(1)
            ln = t.count("\n", 0, m.start()) + 1
            thrown.setdefault(full, []).append("%s:%d" % (rel, ln))
        for m in THROW_VAR.finditer(t):
            var = m.group(1)
            before = t[:m.start()]
            mm = None
            for mm in re.finditer(r"(?:const\s+)?((?:\w+::)*\w+)\s*&\s*%s\b" % re.escape(var), before):
                pass
            ln = t.count("\n", 0, m.start()) + 1
            if mm is None:
                unresolved.append("%s:%d throw %s;" % (rel, ln, var))
                continue
            thrown.setdefault(mm.group(1), []).append("%s:%d" % (rel, ln))
    if unresolved:
        die("cannot resolve the static type of re-thrown variables: " + "; ".join(unresolved))

    # resolve each thrown name to a class key
    classes = {}   # key -> (base key or None, origin)
    def add_xalan(nm):
        if nm in classes:
            return
        b = exc_xalan[nm]
        if b is not None and b in exc_xalan:
            classes[nm] = (b, "xalan")
            add_xalan(b)
        elif b is not None and b in xer:
            classes[nm] = ("xerces_" + b, "xalan")
            add_xer(b)
        else:
            classes[nm] = (None, "xalan")

    def add_xer(nm):
        k = "xerces_" + nm
        if k in classes:
            return
        b = xer[nm]
        classes[k] = ("xerces_" + b if b else None, "xerces")
        if b:
            add_xer(b)

    def add_std(nm):
        k = "std_" + nm
        if k in classes:
            return
        b = STD.get(nm)
        classes[k] = ("std_" + b if b else None, "std")
        if b:
            add_std(b)

    thrown_keys = {}
    for full, sites in sorted(thrown.items()):
        nm = aliases.get(last(full), last(full))
        if full.startswith("std::"):
            if nm not in STD:
                die("thrown std class not in the table: " + full)
            add_std(nm); key = "std_" + nm
        elif full.startswith("xercesc::") or (nm not in exc_xalan and nm in xer):
            add_xer(nm); key = "xerces_" + nm
        elif nm in exc_xalan:
            add_xalan(nm); key = nm
        else:
            die("thrown class %s (at %s) is not an exception class known to the translator" % (full, sites[0]))
        thrown_keys.setdefault(key, []).extend(sites)

    # all Xalan exception classes are part of the table even if never thrown directly
    for nm in sorted(exc_xalan):
        add_xalan(nm)
    # classes the library does not throw itself but its dependencies do (listed explicitly; see DESIGN.md §6 item 20)
    for nm in ("SAXException", "SAXParseException", "XMLException", "DOMException", "OutOfMemoryException",
               "RuntimeException", "MalformedURLException", "IOException", "TranscodingException",
               "UTFDataFormatException", "NetAccessorException", "SAXNotSupportedException", "SAXNotRecognizedException"):
        if nm in xer:
            add_xer(nm)
    add_std("bad_alloc")
    add_std("out_of_range")
    external = ["std_bad_alloc", "xerces_OutOfMemoryException", "xerces_DOMException"]

    # ---- catch chains of XalanTransformer
    tt = strip(read(os.path.join(SRC, "XalanTransformer", "XalanTransformer.cpp")))
    tchains = []
    calls = {}
    methods_with_chain = ["compileStylesheet", "parseSource", "doTransform"]
    for meth in methods_with_chain:
        defs = find_function(tt, "XalanTransformer::" + meth)
        if len(defs) != 1:
            die("expected exactly one definition of XalanTransformer::%s, found %d" % (meth, len(defs)))
        start, params, body = defs[0]
        chs = [c for c in top_level_try_chains(body) if c[0] == 1]
        if len(chs) != 1:
            die("XalanTransformer::%s: expected one top-level try block, found %d" % (meth, len(chs)))
        _, chain, trybody = chs[0]
        # the statements after the chain must be only `return theResult;`
        tail = body[body.rfind("}", 0, len(body) - 1) + 1:-1].strip()
        if not re.match(r"^return\s+theResult\s*;$", tail):
            die("XalanTransformer::%s: unexpected code after the catch chain: %r" % (meth, tail[:80]))
        if not re.search(r"\bint\s+theResult\s*=\s*0\s*;", body):
            die("XalanTransformer::%s: `int theResult = 0;` not found" % meth)
        hs = []
        for cls, hb in chain:
            st = re.findall(r"\btheResult\s*=\s*(-?\d+)\s*;", hb)
            status = int(st[-1]) if st else 0
            listener = bool(re.search(r"theErrorMessage\s*\.\s*empty\s*\(\s*\)", hb))
            if "FormatSAXParseException" in hb:
                kind = "saxParseFormat"
            elif "FormatXalanDOMException" in hb:
                kind = "domFormat"
            elif re.search(r"\.\s*defaultFormat\s*\(", hb):
                kind = "defaultFormat"
            elif re.search(r"\.\s*getMessage\s*\(", hb):
                kind = "getMessage"
            elif re.search(r"\b(SetErrorMessage|FormatStdException)\s*\(", hb):
                kind = "fixedText"
            else:
                kind = "noMessage"
            rethrows = bool(re.search(r"\bthrow\b", hb))
            hs.append({"cls": cls, "status": status, "listener": listener, "kind": kind, "rethrows": rethrows,
                       "line": tt.count("\n", 0, start) + 1})
        tchains.append((meth, hs))
    if any(h["kind"] == "fixedText" for _, hs in tchains for h in hs):
        # SetErrorMessage is only ever called with a non-empty literal; FormatStdException falls back to a literal for an empty what()
        raw = read(os.path.join(SRC, "XalanTransformer", "XalanTransformer.cpp"))
        for mm in re.finditer(r"\bSetErrorMessage\(\s*([^,]+),", raw):
            arg = mm.group(1).strip()
            if arg.startswith("const char"):
                continue
            if not (re.match(r'^"[^"]+"$', arg) or re.match(r"^theMessage == 0 \|\| \*theMessage == '\\0' \? \"[^\"]+\" : theMessage$", arg)):
                die("SetErrorMessage called with something that is not a non-empty literal: " + arg[:80])
    # call graph of transform overloads and other int-returning methods
    entry_calls = {}
    for m in re.finditer(r"(?m)^XalanTransformer::(\w+)\s*\(", tt):
        nm = m.group(1)
    for nm in ("transform", "destroyStylesheet", "destroyParsedSource"):
        for idx, (start, params, body) in enumerate(find_function(tt, "XalanTransformer::" + nm)):
            cs = sorted(set(re.findall(r"(?<![\w.>:])(parseSource|compileStylesheet|doTransform|transform|LoadErrorMessage)\s*\(", body)))
            has_try = bool(re.search(r"\btry\b", body))
            entry_calls["%s#%d" % (nm, idx)] = {"calls": cs, "try": has_try}
    # the header-inline transform(parsed, ...) overloads call doTransform
    th = strip(read(os.path.join(SRC, "XalanTransformer", "XalanTransformer.hpp")))
    inl = re.findall(r"\breturn\s+doTransform\s*\(", th)

    # ---- XalanCAPI
    ct = strip(read(os.path.join(SRC, "XalanTransformer", "XalanCAPI.cpp")))
    capi = []
    for m in re.finditer(r"XALAN_TRANSFORMER_EXPORT_FUNCTION\(([^)]*)\)\s*(\w+)\s*\(", ct):
        ret, nm = m.group(1).strip(), m.group(2)
        i = ct.find("{", m.end())
        # make sure '{' is after the parameter list
        depth = 0
        j = m.end() - 1
        while j < len(ct):
            if ct[j] == "(":
                depth += 1
            elif ct[j] == ")":
                depth -= 1
                if depth == 0:
                    break
            j += 1
        i = ct.find("{", j)
        e = body_at(ct, i)
        body = ct[i:e]
        meths = sorted(set(re.findall(r"->\s*(\w+)\s*\(", body)))
        has_try = bool(re.search(r"\btry\b", body))
        catch_all = bool(re.search(r"catch\s*\(\s*\.\.\.\s*\)", body))
        capi.append({"name": nm, "ret": ret, "methods": meths, "try": has_try, "catchAll": catch_all})
    if len(capi) < 20:
        die("XalanCAPI.cpp: only %d exported functions found" % len(capi))

    # ---- XPathCAPI
    xh = read(os.path.join(SRC, "XPathCAPI", "XPathCAPI.h"))
    codes = {m.group(1): int(m.group(2)) for m in re.finditer(r"#define\s+(XALAN_XPATH_API_\w+)\s+(\d+)", xh)}
    if "XALAN_XPATH_API_SUCCESS" not in codes or codes["XALAN_XPATH_API_SUCCESS"] != 0:
        die("XPathCAPI.h: XALAN_XPATH_API_SUCCESS is not 0")
    xt = strip(read(os.path.join(SRC, "XPathCAPI", "XPathCAPI.cpp")))
    xchains = []
    for m in re.finditer(r"XALAN_XPATHCAPI_EXPORT_FUNCTION\(([^)]*)\)\s*(\w+)\s*\(", xt):
        nm = m.group(2)
        depth = 0
        j = m.end() - 1
        while j < len(xt):
            if xt[j] == "(":
                depth += 1
            elif xt[j] == ")":
                depth -= 1
                if depth == 0:
                    break
            j += 1
        i = xt.find("{", j)
        e = body_at(xt, i)
        body = xt[i:e]
        chs = top_level_try_chains(body)
        if not chs:
            # composite function: delegates to other exported functions only
            callees = sorted(set(re.findall(r"\b(Xalan\w+)\s*\(", body)) - {nm})
            xchains.append({"name": nm, "handlers": None, "callees": callees})
            continue
        # outermost try = the one with the smallest depth
        d0 = min(c[0] for c in chs)
        outer = [c for c in chs if c[0] == d0]
        if len(outer) != 1:
            die("XPathCAPI %s: %d outermost try blocks" % (nm, len(outer)))
        hs = []
        for cls, hb in outer[0][1]:
            st = re.findall(r"\b(?:theResult|theError)\s*=\s*(XALAN_XPATH_API_\w+)\s*;", hb)
            if st:
                if st[-1] not in codes:
                    die("XPathCAPI %s: unknown code %s" % (nm, st[-1]))
                status = codes[st[-1]]
            else:
                status = 0
            hs.append({"cls": cls, "status": status, "rethrows": bool(re.search(r"\bthrow\b", hb))})
        xchains.append({"name": nm, "handlers": hs, "callees": []})
    if len([x for x in xchains if x["handlers"]]) < 6:
        die("XPathCAPI.cpp: fewer than 6 functions with a try block")

    # make sure every handler class is in the table
    def key_of_handler(cls):
        if cls is None:
            return None
        cls = aliases.get(cls, cls)
        if cls in exc_xalan:
            add_xalan(cls)
            return cls
        if cls in xer:
            add_xer(cls)
            return "xerces_" + cls
        if cls in STD:
            add_std(cls)
            return "std_" + cls
        die("handler for unknown class " + cls)

    for _, hs in tchains:
        for h in hs:
            h["key"] = key_of_handler(h["cls"])
    for x in xchains:
        for h in x["handlers"] or []:
            h["key"] = key_of_handler(h["cls"])

    keys = sorted(classes)
    # ---- emit Lean
    L = []
    L.append("/- GENERATED by translate/c03_exceptions.py from the working tree — do not edit. -/")
    L.append("namespace XalanModel.Generated.C03_Exceptions")
    L.append("")
    L.append("/-- every exception class of libxalan-c (closure under base classes of what is declared/thrown/caught),")
    L.append("plus the Xerces-C / std classes the library throws, catches or is documented to let through -/")
    L.append("inductive Cls where")
    for k in keys:
        L.append("  | %s" % lean_ident(k))
    L.append("deriving DecidableEq, Repr, Inhabited")
    L.append("")
    L.append("def Cls.all : List Cls := [%s]" % ", ".join("." + lean_ident(k) for k in keys))
    L.append("")
    L.append("def Cls.name : Cls → String")
    for k in keys:
        L.append("  | .%s => \"%s\"" % (lean_ident(k), k))
    L.append("")
    L.append("/-- direct public base class (none for a root) -/")
    L.append("def Cls.base : Cls → Option Cls")
    for k in keys:
        b = classes[k][0]
        L.append("  | .%s => %s" % (lean_ident(k), "some ." + lean_ident(b) if b else "none"))
    L.append("")
    tk = sorted(thrown_keys)
    L.append("/-- classes with at least one `throw` site in the library sources (%d sites) -/" % sum(len(v) for v in thrown_keys.values()))
    L.append("def thrownByLibrary : List Cls := [%s]" % ", ".join("." + lean_ident(k) for k in tk))
    L.append("")
    L.append("/-- classes thrown by the C++ runtime / Xerces-C underneath the library (not by a `throw` in Xalan's own code) -/")
    L.append("def externalClasses : List Cls := [%s]" % ", ".join("." + lean_ident(k) for k in external))
    L.append("")
    L.append("inductive MsgKind where | defaultFormat | saxParseFormat | domFormat | getMessage | fixedText | noMessage")
    L.append("deriving DecidableEq, Repr")
    L.append("")
    L.append("structure Handler where")
    L.append("  cls : Option Cls        -- none = `catch(...)`")
    L.append("  status : Int")
    L.append("  listenerFirst : Bool    -- the problem-listener text is preferred when non-empty")
    L.append("  kind : MsgKind")
    L.append("  rethrows : Bool")
    L.append("deriving DecidableEq, Repr")
    L.append("")
    for meth, hs in tchains:
        L.append("def chain_%s : List Handler := [" % meth)
        L.append(",\n".join("  ⟨%s, %d, %s, .%s, %s⟩" % (
            "some ." + lean_ident(h["key"]) if h["key"] else "none", h["status"],
            "true" if h["listener"] else "false", h["kind"], "true" if h["rethrows"] else "false") for h in hs))
        L.append("]")
        L.append("")
    L.append("/-- the three methods of XalanTransformer that carry a catch chain -/")
    L.append("def transformerChains : List (String × List Handler) := [%s]" % ", ".join(
        "(\"%s\", chain_%s)" % (m, m) for m, _ in tchains))
    L.append("")
    L.append("/-- XalanTransformer.cpp: what each other int-returning method calls, and whether it has a try of its own -/")
    L.append("def transformerCalls : List (String × List String × Bool) := [")
    L.append(",\n".join("  (\"%s\", [%s], %s)" % (k, ", ".join("\"%s\"" % c for c in v["calls"]), "true" if v["try"] else "false")
                        for k, v in sorted(entry_calls.items())))
    L.append("]")
    L.append("")
    L.append("/-- number of header-inline `return doTransform(...)` overloads in XalanTransformer.hpp -/")
    L.append("def inlineDoTransformOverloads : Nat := %d" % len(inl))
    L.append("")
    L.append("/-- XalanCAPI.cpp: exported function, return type, XalanTransformer methods it calls, own try, own catch(...) -/")
    L.append("def capi : List (String × String × List String × Bool × Bool) := [")
    L.append(",\n".join("  (\"%s\", \"%s\", [%s], %s, %s)" % (
        c["name"], c["ret"], ", ".join("\"%s\"" % x for x in c["methods"]), "true" if c["try"] else "false",
        "true" if c["catchAll"] else "false") for c in capi))
    L.append("]")
    L.append("")
    L.append("/-- XPathCAPI.cpp: outermost catch chain of every exported function that has one -/")
    L.append("def xpathCapiChains : List (String × List Handler) := [")
    L.append(",\n".join("  (\"%s\", [%s])" % (x["name"], ", ".join(
        "⟨%s, %d, false, .noMessage, %s⟩" % ("some ." + lean_ident(h["key"]) if h["key"] else "none", h["status"],
                                             "true" if h["rethrows"] else "false") for h in x["handlers"]))
        for x in xchains if x["handlers"]))
    L.append("]")
    L.append("")
    L.append("/-- XPathCAPI.cpp: exported functions without a try of their own and the exported functions they call -/")
    L.append("def xpathCapiComposite : List (String × List String) := [")
    L.append(",\n".join("  (\"%s\", [%s])" % (x["name"], ", ".join("\"%s\"" % c for c in x["callees"]))
                        for x in xchains if not x["handlers"]))
    L.append("]")
    L.append("")
    L.append("end XalanModel.Generated.C03_Exceptions")
    os.makedirs(GEN, exist_ok=True)
    out = os.path.join(GEN, "C03_Exceptions.lean")
    new = "\n".join(L) + "\n"
    old = read(out) if os.path.exists(out) else None
    if old != new:
        with open(out, "w", encoding="utf-8") as f:
            f.write(new)
    side = {"library_files": len(files), "classes": {k: classes[k][0] for k in keys},
            "where": {k: where.get(k) for k in keys if where.get(k)},
            "thrown": thrown_keys, "transformer_chains": {m: hs for m, hs in tchains},
            "capi": capi, "xpath_capi": xchains, "aliases": aliases}
    with open(os.path.join(GEN, "C03_Exceptions.json"), "w") as f:
        json.dump(side, f, indent=1, default=str)
    print("c03_exceptions: %d classes, %d thrown classes (%d sites), chains: %s, capi %d, xpathcapi %d" % (
        len(keys), len(tk), sum(len(v) for v in thrown_keys.values()),
        ", ".join("%s=%d" % (m, len(hs)) for m, hs in tchains), len(capi), len(xchains)))
    return 0


if __name__ == "__main__":
    sys.exit(main())
