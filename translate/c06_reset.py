#!/usr/bin/env python3
"""C06 translator: member lists + reset()/cleanUpTransients()/EnsureReset/doTransform set-up of the
long-lived objects behind one XalanTransformer  ->  lean/XalanModel/Generated/C06_Reset.lean

What is read from /repo's *current working tree* (VERIF_REPO honoured):
  * the data members (name, type) of XalanTransformer, StylesheetExecutionContextDefault (+ its bases
    XPathExecutionContext / ExecutionContext), XPathExecutionContextDefault, VariablesStack, XSLTEngineImpl
    -- from the clang-14 JSON AST of the headers (so #if branches are the ones the build really takes);
  * the constructor init lists / bodies that XalanTransformer really uses  -> the `fresh` value of each member;
  * the bodies of StylesheetExecutionContextDefault::reset/cleanUpTransients/clearXPathCache,
    XPathExecutionContextDefault::reset, VariablesStack::reset/pop, XSLTEngineImpl::reset,
    XalanTransformer::reset, XalanTransformer::EnsureReset::~EnsureReset, the inline setters, the part of
    doTransform that installs per-call objects, XalanObjectStackCache::reset, the setStylesheetParam bodies
    -- regex over comment-stripped, #if-resolved source text; every statement must be recognised, an
    unrecognised statement is an error (the obligation `translate:c06_reset` is then not discharged).
The committed classification gen/c06_members.json says, for each member, which role it plays
(transient / percall / sticky / config / cache / percall-object / const) and why.  Members without an entry
are emitted as `unclassified` and break theorem `all_members_classified`.

Output: Generated/C06_Reset.lean (data only: tables of members, fresh values, statement lists) and
Generated/C06_Reset.json (side-car with source locations).
"""
import json
import os
import re
import subprocess
import sys

HERE = os.path.dirname(os.path.abspath(__file__))
ROOT = os.path.dirname(HERE)
sys.path.insert(0, ROOT)
from vlib import common  # noqa: E402

REPO = common.REPO
SRC = os.path.join(REPO, "src", "xalanc")

CLASSES = [
    # tag, class name, header, source
    ("T", "XalanTransformer", "XalanTransformer/XalanTransformer.hpp", "XalanTransformer/XalanTransformer.cpp"),
    ("EC", "StylesheetExecutionContextDefault", "XSLT/StylesheetExecutionContextDefault.hpp", "XSLT/StylesheetExecutionContextDefault.cpp"),
    ("XP", "XPathExecutionContextDefault", "XPath/XPathExecutionContextDefault.hpp", "XPath/XPathExecutionContextDefault.cpp"),
    ("VS", "VariablesStack", "XSLT/VariablesStack.hpp", "XSLT/VariablesStack.cpp"),
    ("PR", "XSLTEngineImpl", "XSLT/XSLTEngineImpl.hpp", "XSLT/XSLTEngineImpl.cpp"),
    ("SO", "NodeSorter", "XSLT/NodeSorter.hpp", "XSLT/NodeSorter.cpp"),
    ("CT", "CountersTable", "XSLT/CountersTable.hpp", "XSLT/CountersTable.cpp"),
]
# objects the transformer installs into its execution context for its whole life when built with ICU
# (XalanTransformer.cpp:123-135): pointees of EC.m_collationCompareFunctor / EC.m_formatNumberFunctor
ICU_CLASSES = [
    ("CF", "ICUBridgeCollationCompareFunctorImpl", "ICUBridge/ICUBridgeCollationCompareFunctorImpl.hpp", "ICUBridge/ICUBridgeCollationCompareFunctorImpl.cpp"),
    ("FN", "ICUFormatNumberFunctor", "ICUBridge/ICUFormatNumberFunctor.hpp", "ICUBridge/ICUFormatNumberFunctor.cpp"),
]
BASES = {  # base classes whose fields are inherited (read from the AST too)
    "EC": ["XPathExecutionContext", "ExecutionContext"],
    "XP": ["XPathExecutionContext", "ExecutionContext"],
}
NESTED = {  # member -> tag of the modelled class it is an instance of
    ("EC", "m_xpathExecutionContextDefault"): "XP",
    ("EC", "m_variablesStack"): "VS",
    ("EC", "m_nodeSorter"): "SO",
    ("EC", "m_countersTable"): "CT",
}
# members that reset() does not touch and that the interpreter restores with scope guards: accessors that hand out a
# mutable reference to them (sites outside the owning class are found through these)
GUARD_ACCESSORS = {("SO", "m_keys"): ["getSortKeys"]}
MUTATORS = r"(?:push_back|reserve|resize|insert|assign|swap|pop_back|erase|clear)"

POINTS_TO = {  # pointer member -> tag of the modelled (per-call) class it points to
    ("EC", "m_xsltProcessor"): "PR",
}


EXTRA_INCLUDES = ""


class TErr(Exception):
    pass


# ------------------------------------------------------------------------------------------------
# source text helpers

def read(rel):
    p = os.path.join(SRC, rel)
    if not os.path.exists(p):
        raise TErr("missing source file " + p)
    return open(p, encoding="utf-8", errors="replace").read()


def strip_comments(s):
    out = []
    i, n = 0, len(s)
    while i < n:
        if s.startswith("//", i):
            while i < n and s[i] != "\n":
                i += 1
        elif s.startswith("/*", i):
            j = s.find("*/", i + 2)
            j = n if j < 0 else j + 2
            out.append("".join(c if c == "\n" else " " for c in s[i:j]))
            i = j
        elif s[i] == '"':
            j = i + 1
            while j < n and s[j] != '"':
                j += 2 if s[j] == "\\" else 1
            out.append(s[i:j + 1])
            i = j + 1
        else:
            out.append(s[i])
            i += 1
    return "".join(out)


def resolve_ifs(s, defined):
    """Resolve #if defined(X) / #if !defined(X) / #else / #endif for the macros we know the state of
    (a dict name->bool); other conditionals are kept (both branches) -- they do not occur in the bodies read."""
    out = []
    stack = []  # entries: (known, active_before, cond)
    active = True
    for line in s.split("\n"):
        st = line.strip()
        m = re.match(r"#\s*if\s+(!?)\s*defined\s*\(\s*(\w+)\s*\)\s*$", st)
        m2 = re.match(r"#\s*if(n?)def\s+(\w+)\s*$", st)
        if m or m2:
            neg = (m.group(1) == "!") if m else (m2.group(1) == "n")
            name = m.group(2) if m else m2.group(2)
            if name in defined:
                cond = defined[name] != neg
                stack.append((True, active, cond))
                active = active and cond
            else:
                stack.append((False, active, True))
            out.append("")
            continue
        if re.match(r"#\s*if", st):
            stack.append((False, active, True))
            out.append("")
            continue
        if re.match(r"#\s*else", st):
            if stack and stack[-1][0]:
                known, before, cond = stack[-1]
                stack[-1] = (known, before, not cond)
                active = before and (not cond)
            out.append("")
            continue
        if re.match(r"#\s*elif", st):
            out.append("")
            continue
        if re.match(r"#\s*endif", st):
            if stack:
                known, before, cond = stack.pop()
                active = before
            out.append("")
            continue
        out.append(line if active else "")
    return "\n".join(out)


def find_body(text, header_re, what):
    """Return (body_text_without_outer_braces, start_line, init_list_text) of the function whose header matches."""
    m = re.search(header_re, text)
    if not m:
        raise TErr("cannot find " + what)
    i = m.end()
    # optional ctor init list up to the opening brace at depth 0 (parentheses balanced)
    depth = 0
    j = i
    while j < len(text):
        c = text[j]
        if c == "(":
            depth += 1
        elif c == ")":
            depth -= 1
        elif c == "{" and depth == 0:
            break
        elif c == ";" and depth == 0:
            raise TErr("declaration, not definition: " + what)
        j += 1
    init = text[i:j]
    k = j
    depth = 0
    while k < len(text):
        if text[k] == "{":
            depth += 1
        elif text[k] == "}":
            depth -= 1
            if depth == 0:
                break
        k += 1
    return text[j + 1:k], text.count("\n", 0, m.start()) + 1, init


def split_top(s, seps=";"):
    """split at separators that are at paren/brace depth 0; braces produce their own items ('{...}' kept attached)"""
    items, cur, depth = [], [], 0
    for c in s:
        if c in "({[":
            depth += 1
        elif c in ")}]":
            depth -= 1
        if c in seps and depth == 0:
            items.append("".join(cur))
            cur = []
        elif c == "}" and depth == 0:
            cur.append(c)
            items.append("".join(cur))
            cur = []
        else:
            cur.append(c)
    if "".join(cur).strip():
        items.append("".join(cur))
    return [re.sub(r"\s+", " ", x).strip() for x in items if x.strip()]


# ------------------------------------------------------------------------------------------------
# members from the clang AST

def clang_fields(names):
    """{class name: [(field, qualType, desugared)]} for complete definitions, via clang-14 -ast-dump=json."""
    inc = common.repo_includes("hooks")
    gen_hdr = os.path.join(common.build_dir("hooks"), "src", "xalanc", "Include", "PlatformDefinitions.hpp")
    if not os.path.exists(gen_hdr):
        raise TErr("build tree has no generated PlatformDefinitions.hpp (run ctx.build first): " + gen_hdr)
    os.makedirs(os.path.join(common.CACHE, "work"), exist_ok=True)
    tu = os.path.join(common.CACHE, "work", "c06_tu_%d.cpp" % os.getpid())
    with open(tu, "w") as f:
        f.write(EXTRA_INCLUDES + "#include <xalanc/XSLT/NodeSorter.hpp>\n"
                "#include <xalanc/XalanSourceTree/FormatterToSourceTree.hpp>\n"
                "#include <xalanc/XMLSupport/FormatterToText.hpp>\n"
                "#include <xalanc/XPath/MutableNodeRefList.hpp>\n"
                "#include <xalanc/PlatformSupport/XalanDecimalFormatSymbols.hpp>\n"
                "#include <xalanc/XalanTransformer/XalanTransformer.hpp>\n"
                "#include <xalanc/XSLT/StylesheetExecutionContextDefault.hpp>\n"
                "#include <xalanc/XSLT/XSLTEngineImpl.hpp>\n")
    res = {}
    procs = []
    for nm in names:
        cmd = ["clang++-14", "-std=gnu++17", "-fsyntax-only", "-D" + common.GUARD] + inc + [
            "-Xclang", "-ast-dump=json", "-Xclang", "-ast-dump-filter=" + nm, tu]
        procs.append((nm, subprocess.Popen(cmd, stdout=subprocess.PIPE, stderr=subprocess.PIPE)))
    for nm, p in procs:
        o, e = p.communicate()
        txt = o.decode("utf-8", "replace")
        if p.returncode != 0 and not txt.strip():
            raise TErr("clang failed on headers for %s: %s" % (nm, e.decode("utf-8", "replace")[-800:]))
        dec = json.JSONDecoder()
        i = 0
        while i < len(txt):
            while i < len(txt) and txt[i].isspace():
                i += 1
            if i >= len(txt):
                break
            if txt.startswith("Dumping", i):
                i = txt.index("\n", i)
                continue
            obj, i = dec.raw_decode(txt, i)
            if obj.get("kind") == "CXXRecordDecl" and obj.get("completeDefinition") and obj.get("name") == nm:
                fl = []
                for c in obj.get("inner", []):
                    if c.get("kind") == "FieldDecl":
                        t = c["type"]
                        fl.append((c["name"], t["qualType"], t.get("desugaredQualType", t["qualType"])))
                if nm not in res or len(fl) > len(res[nm]):
                    res[nm] = fl
    os.unlink(tu)
    for nm in names:
        if nm not in res:
            raise TErr("class %s not found in the AST" % nm)
    return res


def kind_of(qual, desug):
    d = desug.replace("xalanc_1_12::", "").replace("xercesc_3_2::", "")
    q = qual.replace("xalanc_1_12::", "")
    d = re.sub(r"^(const|mutable)\s+", "", d.strip())
    if d.endswith("&"):
        return "ref"
    if re.search(r"\*\s*(const)?$", d):
        return "ptr"
    if d == "bool":
        return "flag"
    if re.match(r"(unsigned |signed )?(int|long|short|char)( int)?$", d) or "unsigned long" == d or d.startswith("enum ") or re.search(r"::e[A-Z]\w+$", d):
        return "num"
    if d.startswith("XalanObjectStackCache<"):
        return "objstack"
    if d.startswith("XalanMemMgrAutoPtr<") or d.startswith("XalanAutoPtr<"):
        return "ptr"
    if re.match(r"(XalanVector|XalanMap|XalanList|XalanDeque|XalanSet)<", d) or d == "XalanDOMString":
        return "seq"
    if re.search(r"Allocator$", d) or re.search(r"Allocator$", q):
        return "seq"      # arena: abstract content = the blocks handed out
    if re.match(r"[A-Za-z_][\w:]*(<.*>)?$", d):
        # any other class type: abstract content (`obj`); "clear()/reset() restores the freshly constructed
        # content" is the modelled-not-verified assumption recorded in the design
        return "obj"
    raise TErr("cannot derive a kind for type %r (%r)" % (qual, desug))


# ------------------------------------------------------------------------------------------------
# statements

class Model:
    def __init__(self):
        self.members = []      # dicts: id, tag, name, type, kind
        self.index = {}        # (tag,name) -> id
        self.bodies = {}       # key -> (text, file, line)
        self.unrecognised = []
        self.notes = []

    def mid(self, tag, name):
        k = (tag, name)
        if k in NESTED:
            raise TErr("nested object used as a plain member: %s.%s" % k)
        if k not in self.index:
            raise TErr("statement refers to unknown member %s.%s" % k)
        return self.index[k]

    def kind(self, tag, name):
        return self.members[self.index[(tag, name)]]["kind"]


def sym_value(expr):
    """abstract value pushed / assigned: 0 for null-ish, 1 for the address of a static dummy"""
    e = expr.strip()
    if e in ("0", "false", "NULL", "nullptr", "theCurrentNode", "thePrefixResolver"):
        return 0
    if "s_dummyList" in e:
        return 1
    raise TErr("cannot abstract the value expression %r" % expr)


def lit_value(kind, expr):
    e = expr.strip()
    if kind == "ptr":
        if e in ("0", "NULL", "nullptr"):
            return ("ptr", 0)
        return ("ptr", 1)
    if kind == "flag":
        if e in ("true", "false"):
            return ("flag", e == "true")
        raise TErr("flag assigned a non-literal: %r" % expr)
    if kind == "num":
        if re.match(r"-?\d+$", e):
            return ("num", int(e))
        if e in ("~0u", "~0", "~0U", "~0ul", "~0UL"):
            return ("num", -1)
        m = re.match(r"e[A-Z]\w*$", e)
        if m:
            return ("num", 0)   # first enumerator by convention (eEscapeURLsDefault / eOmitMETATagDefault); config only
        raise TErr("num assigned a non-literal: %r" % expr)
    raise TErr("assignment to member of kind %s: %r" % (kind, expr))


def parse_block(M, tag, text, guard, out, funcs, depth=0):
    """Append abstract statements for the C++ statements in `text` (body of a member function of class `tag`)."""
    if depth > 6:
        raise TErr("inlining too deep")
    for st in split_top(text, ";,"):
        parse_stmt(M, tag, st, guard, out, funcs, depth)


def strip_braces(s):
    s = s.strip()
    if s.startswith("{") and s.endswith("}"):
        return s[1:-1]
    return s


def parse_stmt(M, tag, st, guard, out, funcs, depth):
    st = st.strip()
    if not st or st == "{}" or st == "{ }":
        return
    if st.startswith("assert(") or st.startswith("assert (") or st.startswith("using "):
        return
    if st.startswith("{"):
        parse_block(M, tag, strip_braces(st), guard, out, funcs, depth)
        return
    m = re.match(r"try\s*(\{.*\})$", st)
    if m:
        parse_block(M, tag, strip_braces(m.group(1)), guard, out, funcs, depth)
        return
    if re.match(r"catch\s*\(\s*\.\.\.\s*\)\s*\{\s*\}$", st):
        return
    # for_each(m_x.begin(), m_x.end(), <functor>)  -- destroys / returns the elements; no abstract effect
    m = re.match(r"for_each\s*\(\s*(m_\w+)\.begin\(\)\s*,\s*\1\.end\(\)\s*,.*\)$", st)
    if m:
        M.mid(tag, m.group(1))
        M.notes.append("%s.%s: for_each over elements (destroy/return) before clear" % (tag, m.group(1)))
        return
    # if (m_p != 0) { ... }
    m = re.match(r"if\s*\(\s*(m_\w+)\s*!=\s*0\s*\)\s*(\{.*\})$", st)
    if m:
        p = m.group(1)
        if guard is not None:
            raise TErr("nested guards are not modelled: " + st)
        if M.kind(tag, p) == "ref":
            raise TErr("guard on a reference: " + st)
        parse_block(M, tag, strip_braces(m.group(2)), M.mid(tag, p), out, funcs, depth)
        return
    # while(m_stack.empty() == false) { pop(); }
    m = re.match(r"while\s*\(\s*(m_\w+)\.empty\(\)\s*==\s*false\s*\)\s*\{\s*pop\(\)\s*;?\s*\}$", st)
    if m:
        if tag != "VS":
            raise TErr("pop loop outside VariablesStack: " + st)
        out.append({"guard": guard, "target": M.mid(tag, m.group(1)), "act": "popLoop",
                    "idx": M.mid(tag, "m_currentStackFrameIndex"), "src": st})
        return
    # transformer level: m_stylesheetExecutionContext->setX(0) / ->reset()
    m = re.match(r"(?:m_transformer\.)?m_stylesheetExecutionContext\s*->\s*(\w+)\s*\((.*)\)$", st)
    if m and tag in ("T", "ER"):
        meth, arg = m.group(1), m.group(2).strip()
        if meth == "reset" and arg == "":
            parse_block(M, "EC", funcs[("EC", "reset")], guard, out, funcs, depth + 1)
            return
        if ("EC", meth) in funcs and meth.startswith("set"):
            for (t2, n2) in funcs[("EC", meth)]:
                val = ("ptr", 0) if arg in ("0", "NULL", "nullptr") else ("ptr", 1)
                out.append({"guard": guard, "target": M.mid(t2, n2), "act": "set", "val": val, "src": st})
            return
    m = re.match(r"m_transformer\.reset\(\)$", st)
    if m and tag == "ER":
        parse_block(M, "T", funcs[("T", "reset")], guard, out, funcs, depth + 1)
        return
    # m_x.clear() / m_x.reset() / m_x.push_back(E) / m_x.pushContext()
    m = re.match(r"(m_\w+)\s*(\.|->)\s*(\w+)\s*\((.*)\)$", st)
    if m:
        name, arrow, meth, arg = m.group(1), m.group(2), m.group(3), m.group(4)
        if (tag, name) in NESTED and meth == "reset" and arrow == ".":
            t2 = NESTED[(tag, name)]
            parse_block(M, t2, funcs[(t2, "reset")], guard, out, funcs, depth + 1)
            return
        if (tag, name) in POINTS_TO and meth == "reset" and arrow == "->":
            t2 = POINTS_TO[(tag, name)]
            if guard != M.mid(tag, name):
                raise TErr("call through %s not guarded by a null test: %s" % (name, st))
            parse_block(M, t2, funcs[(t2, "reset")], guard, out, funcs, depth + 1)
            return
        k = M.kind(tag, name)
        mid = M.mid(tag, name)
        if k == "ref" or (k == "ptr" and arrow == "->"):
            # reset() of an external object the member merely refers to (per-call support objects)
            if meth != "reset":
                raise TErr("unrecognised call on external object: " + st)
            M.notes.append("%s.%s->reset(): external per-call object, not modelled" % (tag, name))
            return
        if meth == "clear" and arg.strip() == "" and k in ("seq", "obj"):
            out.append({"guard": guard, "target": mid, "act": "set", "val": ("seq", []), "src": st})
            return
        if meth == "reset" and arg.strip() == "":
            if k == "objstack":
                if funcs[("OSC", "zeroes")]:
                    out.append({"guard": guard, "target": mid, "act": "set", "val": ("seq", []), "src": st})
                else:
                    out.append({"guard": guard, "target": mid, "act": "keep", "src": st})
                return
            if k == "ptr":   # auto pointer
                out.append({"guard": guard, "target": mid, "act": "set", "val": ("ptr", 0), "src": st})
                return
            if k in ("seq", "obj"):
                out.append({"guard": guard, "target": mid, "act": "set", "val": ("seq", []), "src": st})
                return
        if meth == "push_back" and k == "seq":
            out.append({"guard": guard, "target": mid, "act": "push", "x": sym_value(arg), "src": st})
            return
        if meth == "pushContext" and k == "obj" and arg.strip() == "":
            out.append({"guard": guard, "target": mid, "act": "push", "x": 0, "src": st})
            return
        if meth == "reserve" and k in ("seq", "obj"):
            return   # capacity only
        if meth == "resize" and k == "seq" and tag == "T" and name == "m_errorMessage":
            out.append({"guard": guard, "target": mid, "act": "set", "val": ("seq", [0]), "src": st})
            return
        raise TErr("unrecognised member call in %s: %s" % (tag, st))
    # m_x = E
    m = re.match(r"(m_\w+)\s*=\s*(.+)$", st)
    if m:
        name, e = m.group(1), m.group(2)
        k = M.kind(tag, name)
        out.append({"guard": guard, "target": M.mid(tag, name), "act": "set", "val": lit_value(k, e), "src": st})
        return
    # own-class helper: cleanUpTransients() / clearXPathCache() / clearStylesheetParams()
    m = re.match(r"(\w+)\s*\(\s*\)$", st)
    if m and (tag, m.group(1)) in funcs:
        parse_block(M, tag, funcs[(tag, m.group(1))], guard, out, funcs, depth + 1)
        return
    raise TErr("unrecognised statement in %s: %r" % (tag, st))


def parse_setter(text, cls_hdr_text, name, what):
    body, line, _ = find_body(cls_hdr_text, r"\b%s\s*\([^)]*\)\s*(?=\{)" % name, what)
    return [re.sub(r"\s+", " ", x).strip() for x in split_top(body, ";")]


# ------------------------------------------------------------------------------------------------

def lean_val(v):
    k, x = v
    if k == "ptr":
        return "(.ptr %d)" % x
    if k == "flag":
        return "(.flag %s)" % ("true" if x else "false")
    if k == "num":
        return "(.num (%d))" % x
    if k == "seq":
        return "(.seq [%s])" % ", ".join(str(i) for i in x)
    raise TErr("bad value")


def lean_stmt(s):
    g = "none" if s["guard"] is None else "(some %d)" % s["guard"]
    if s["act"] == "set":
        a = "(.set %s)" % lean_val(s["val"])
    elif s["act"] == "push":
        a = "(.push %d)" % s["x"]
    elif s["act"] == "keep":
        a = ".keep"
    elif s["act"] == "popLoop":
        a = "(.popLoop %d)" % s["idx"]
    else:
        raise TErr("bad act")
    return "⟨%s, %d, %s⟩" % (g, s["target"], a)


def main():
    out_lean = os.path.join(common.GEN, "C06_Reset.lean")
    out_json = os.path.join(common.GEN, "C06_Reset.json")
    os.makedirs(common.GEN, exist_ok=True)
    cls_file = os.path.join(ROOT, "gen", "c06_members.json")
    classification = json.load(open(cls_file))["members"]

    # is the recursive-execution variant compiled?  (decides which #if branch the build takes)
    pd = open(os.path.join(common.build_dir("hooks"), "src", "xalanc", "Include", "PlatformDefinitions.hpp")).read()
    recursive = bool(re.search(r"^\s*#\s*define\s+XALAN_RECURSIVE_STYLESHEET_EXECUTION", pd, re.M)) or \
        bool(re.search(r"^\s*#\s*define\s+XALAN_RECURSIVE_STYLESHEET_EXECUTION", read("Include/PlatformDefinitions.hpp.in"), re.M))
    defined = {"XALAN_RECURSIVE_STYLESHEET_EXECUTION": recursive, "XALAN_USE_ICU": False,
               "XALAN_C_VERIF_HOOKS": False}
    if recursive:
        raise TErr("XALAN_RECURSIVE_STYLESHEET_EXECUTION is defined: the model covers the iterative engine only")

    # is the library built with the ICU bridge (then every transformer owns an ICU collation functor and an ICU
    # format-number functor, installed in its constructor)?
    global EXTRA_INCLUDES
    ninja = os.path.join(common.build_dir("hooks"), "build.ninja")
    uses_icu = os.path.exists(ninja) and "XALAN_USE_ICU" in open(ninja, errors="replace").read()
    if uses_icu:
        tsrc = strip_comments(read("XalanTransformer/XalanTransformer.cpp"))
        if not re.search(r"installCollationCompareFunctor\s*\(", tsrc) or not re.search(r"installFormatNumberFunctor\s*\(", tsrc) \
                or not re.search(r"ICUBridgeCollationCompareFunctor::create\s*\(\s*m_memoryManager\s*,\s*true\s*\)", tsrc):
            raise TErr("XalanTransformer no longer installs the caching ICU collation / format-number functors as modelled")
        for c in ICU_CLASSES:
            if c not in CLASSES:
                CLASSES.append(c)
        EXTRA_INCLUDES = ("#include <xalanc/ICUBridge/ICUBridgeCollationCompareFunctorImpl.hpp>\n"
                          "#include <xalanc/ICUBridge/ICUFormatNumberFunctor.hpp>\n")

    M = Model()
    names = [c[1] for c in CLASSES] + ["XPathExecutionContext", "ExecutionContext"]
    fields = clang_fields(sorted(set(names)))
    src = {}
    for tag, cname, hdr, cpp in CLASSES:
        src[tag] = (resolve_ifs(strip_comments(read(hdr)), defined), resolve_ifs(strip_comments(read(cpp)), defined), hdr, cpp)
        fl = list(fields[cname])
        for b in BASES.get(tag, []):
            fl += [(n, q, d) for (n, q, d) in fields[b]]
        for (n, q, d) in fl:
            if (tag, n) in NESTED:
                continue
            k = kind_of(q, d)
            mid = len(M.members)
            M.members.append({"id": mid, "tag": tag, "name": n, "type": q.replace("xalanc_1_12::", ""), "kind": k})
            M.index[(tag, n)] = mid
    for (tag, n), t2 in NESTED.items():
        if not any(f[0] == n for f in fields[dict((c[0], c[1]) for c in CLASSES)[tag]]):
            raise TErr("expected nested member %s.%s is gone" % (tag, n))

    # ---- function bodies
    funcs = {}
    where = {}

    def body(tag, fname, header_re, use_hdr=False):
        text = src[tag][0] if use_hdr else src[tag][1]
        b, line, init = find_body(text, header_re, "%s::%s" % (tag, fname))
        funcs[(tag, fname)] = b
        where["%s::%s" % (tag, fname)] = "%s:%d" % (src[tag][2] if use_hdr else src[tag][3], line)
        return b, init

    body("EC", "reset", r"\bStylesheetExecutionContextDefault::reset\s*\(\s*\)\s*")
    body("EC", "cleanUpTransients", r"\bStylesheetExecutionContextDefault::cleanUpTransients\s*\(\s*\)\s*")
    body("EC", "clearXPathCache", r"\bStylesheetExecutionContextDefault::clearXPathCache\s*\(\s*\)\s*")
    body("XP", "reset", r"\bXPathExecutionContextDefault::reset\s*\(\s*\)\s*")
    body("VS", "reset", r"\bVariablesStack::reset\s*\(\s*\)\s*")
    pop_body, _ = body("VS", "pop", r"\bVariablesStack::pop\s*\(\s*\)\s*")
    body("PR", "reset", r"\bXSLTEngineImpl::reset\s*\(\s*\)\s*")
    if len(re.findall(r"\breset\s*\(\s*\)\s*\{", src["CT"][0])) != 1:
        raise TErr("CountersTable.hpp: expected exactly one inline reset()")
    body("CT", "reset", r"\breset\s*\(\s*\)\s*(?=\{)", use_hdr=True)
    body("T", "reset", r"\bXalanTransformer::reset\s*\(\s*\)\s*")
    body("T", "clearStylesheetParams", r"\bclearStylesheetParams\s*\(\s*\)\s*(?=\{)", use_hdr=True)
    er_body, _ = body("T", "EnsureReset", r"\bXalanTransformer::EnsureReset::~EnsureReset\s*\(\s*\)\s*")
    dt_body, _ = body("T", "doTransform", r"\bXalanTransformer::doTransform\s*\([^)]*\)\s*")

    # VariablesStack::pop must be the form whose loop the Lean `popIdx` mirrors
    popn = re.sub(r"\s+", "", re.sub(r"assert\([^;]*\);", "", pop_body))
    if popn != "if(m_currentStackFrameIndex==m_stack.size()){--m_currentStackFrameIndex;}m_stack.pop_back();":
        raise TErr("VariablesStack::pop() no longer has the form modelled by popIdx: " + popn)

    # VariablesStack::push / setCurrentStackFrameIndex: the forms the hand model XalanModel/C06/VarStack.lean mirrors
    push_body, _, _ = find_body(src["VS"][1], r"\bVariablesStack::push\s*\(\s*const StackEntry&\s*theEntry\s*\)\s*", "VariablesStack::push")
    pn = re.sub(r"\s+", "", re.sub(r"assert\([^;]*\);", "", push_body))
    if not pn.startswith("if(m_currentStackFrameIndex==m_stack.size()){++m_currentStackFrameIndex;}m_stack.push_back(theEntry);"):
        raise TErr("VariablesStack::push() no longer has the form modelled by VarStack.step: " + pn[:160])
    if "m_currentStackFrameIndex" in pn[len("if(m_currentStackFrameIndex==m_stack.size()){++m_currentStackFrameIndex;}"):].replace("m_globalStackFrameIndex=m_currentStackFrameIndex", ""):
        raise TErr("VariablesStack::push() writes m_currentStackFrameIndex in a way that is not modelled")
    sc_body, _, _ = find_body(src["VS"][0], r"\bsetCurrentStackFrameIndex\s*\([^)]*\)\s*(?=\{)", "VariablesStack::setCurrentStackFrameIndex")
    scn = re.sub(r"\s+", "", re.sub(r"assert\([^;]*\);", "", sc_body))
    if scn != "if(currentStackFrameIndex==~0u){m_currentStackFrameIndex=size_type(m_stack.size());}else{m_currentStackFrameIndex=currentStackFrameIndex;}":
        raise TErr("VariablesStack::setCurrentStackFrameIndex() no longer has the modelled form: " + scn[:200])
    # no other function of VariablesStack assigns the index
    others = re.findall(r"(?<![=!<>])\b(?:\+\+|--)?m_currentStackFrameIndex\s*(?:=(?!=)|\+\+|--)|(?:\+\+|--)m_currentStackFrameIndex", src["VS"][1])
    if len(others) != 2:
        raise TErr("VariablesStack.cpp writes m_currentStackFrameIndex in %d places (modelled: push and pop)" % len(others))

    # XalanObjectStackCache::reset: does it give the in-use objects back (m_numObjectsOnStack = 0)?
    osc = strip_comments(read("Include/XalanObjectStackCache.hpp"))
    b, line, _ = find_body(osc, r"\breset\s*\(\s*\)\s*(?=\{)", "XalanObjectStackCache::reset")
    funcs[("OSC", "zeroes")] = bool(re.search(r"m_numObjectsOnStack\s*=\s*0\s*;", b))
    where["XalanObjectStackCache::reset"] = "Include/XalanObjectStackCache.hpp:%d" % line

    # setters (inline in the headers): which members does each assign?
    def setter_targets(tag, name):
        hdr = src[tag][0]
        b, line, _ = find_body(hdr, r"\b%s\s*\([^)]*\)\s*(?=\{)" % name, "%s::%s" % (tag, name))
        where["%s::%s" % (tag, name)] = "%s:%d" % (src[tag][2], line)
        res = []
        for st in split_top(b, ";"):
            m1 = re.match(r"(m_\w+)\s*=\s*\w+$", st)
            m2 = re.match(r"(m_\w+)\.(set\w+)\s*\(\s*\w+\s*\)$", st)
            if m1:
                M.mid(tag, m1.group(1))
                res.append((tag, m1.group(1)))
            elif m2 and (tag, m2.group(1)) in NESTED:
                res += setter_targets(NESTED[(tag, m2.group(1))], m2.group(2))
            else:
                raise TErr("unrecognised statement in setter %s::%s: %s" % (tag, name, st))
        return res
    for s in ("setXPathEnvSupport", "setDOMSupport", "setXObjectFactory", "setXSLTProcessor"):
        funcs[("EC", s)] = setter_targets("EC", s)

    # ---- statement lists
    ensure = []
    parse_block(M, "ER", er_body, None, ensure, funcs)

    # doTransform: the per-call installation
    dt = dt_body
    p_er = dt.find("EnsureReset")
    if p_er < 0:
        raise TErr("doTransform no longer declares an EnsureReset guard")
    m_er = re.search(r"const\s+EnsureReset\s+\w+\s*\(\s*\*this\s*\)\s*;", dt)
    if not m_er:
        raise TErr("doTransform: EnsureReset guard is not a named local constructed from *this")
    setup = []
    order_problems = []
    first_set = None
    for m in re.finditer(r"m_stylesheetExecutionContext\s*->\s*(set\w+)\s*\(([^;]*)\)\s*;", dt):
        meth, arg = m.group(1), m.group(2).strip()
        if meth == "setStylesheetRoot":
            continue
        if ("EC", meth) not in funcs:
            raise TErr("doTransform calls an unmodelled setter " + meth)
        if first_set is None:
            first_set = m.start()
        for (t2, n2) in funcs[("EC", meth)]:
            setup.append({"guard": None, "target": M.mid(t2, n2), "act": "set", "val": ("ptr", 1),
                          "src": "m_stylesheetExecutionContext->%s(%s)" % (meth, arg)})
    if first_set is None:
        raise TErr("doTransform installs no per-call objects any more")
    if not (m_er.start() < first_set):
        order_problems.append("EnsureReset is constructed after the first per-call object is installed")
    for local in ("theProcessor", "theXObjectFactory", "theXSLTProcessorEnvSupport", "theHelper"):
        md = re.search(r"\b%s\s*\(" % local, dt)
        if not md:
            raise TErr("doTransform: local %s not found" % local)
        if md.start() > m_er.start():
            order_problems.append("%s is constructed after the EnsureReset guard (destroyed before the guard runs)" % local)
    # every statement that can leave doTransform between the first installation and the end is inside the scope of the guard:
    # the guard is declared at the top level of the try block
    try_m = re.search(r"\btry\s*\{", dt)
    if not try_m or not (try_m.start() < m_er.start()):
        raise TErr("doTransform: try block not found before the guard")
    depth = 0
    for c in dt[try_m.end():m_er.start()]:
        depth += (c == "{") - (c == "}")
    if depth != 0:
        order_problems.append("EnsureReset guard is declared in a nested block (scope ends before the transformation)")
    # the error message is cleared before the try block
    m_em = re.search(r"m_errorMessage\.resize\(\s*1\s*,\s*'\\0'\s*\)\s*;", dt) or \
        re.search(r"m_errorMessage\.clear\(\s*\)\s*;\s*m_errorMessage\.push_back\(\s*(?:'\\0'|0)\s*\)\s*;", dt)
    if not m_em or m_em.start() > try_m.start():
        raise TErr("doTransform no longer clears m_errorMessage before the try block")
    setup.insert(0, {"guard": None, "target": M.mid("T", "m_errorMessage"), "act": "set", "val": ("seq", [0]),
                     "src": "m_errorMessage := \"\\0\" (before the try block)"})
    # setStylesheetRoot (StylesheetExecutionContextDefault): what it assigns
    sr, line, _ = find_body(src["EC"][1], r"\bStylesheetExecutionContextDefault::setStylesheetRoot\s*\([^)]*\)\s*", "EC::setStylesheetRoot")
    where["EC::setStylesheetRoot"] = "%s:%d" % (src["EC"][3], line)
    root_assigns = re.findall(r"^\s*(m_\w+)\s*=", sr, re.M)
    for n in root_assigns:
        k = M.kind("EC", n)
        setup.append({"guard": None, "target": M.mid("EC", n), "act": "set",
                      "val": ("ptr", 1) if k == "ptr" else ("flag", False) if k == "flag" else ("num", 0),
                      "src": "setStylesheetRoot: %s = <of the stylesheet>" % n})

    # sticky members must not be written by doTransform / reset (text check; the statement lists are checked in Lean)
    sticky_written = []
    for (tag, n), mid in M.index.items():
        role = classification.get("%s.%s" % (tag, n), {}).get("class")
        if tag == "T" and role in ("sticky", "config"):
            for fn in ("doTransform", "reset", "EnsureReset"):
                t = funcs[("T", fn)]
                if re.search(r"\b%s\s*(=[^=]|\.\s*(clear|erase|insert|push_back|pop_back|resize|swap|assign|reserve)\b|\[)" % n, t):
                    if n == "m_errorMessage":
                        continue
                    sticky_written.append("%s.%s in %s" % (tag, n, fn))

    # setStylesheetParam: does setting one representation clear the other?
    tcpp = src["T"][1]
    b1, _, _ = find_body(tcpp, r"XalanTransformer::setStylesheetParam\s*\(\s*const XalanDOMString&\s*qname,\s*const XalanDOMString&\s*expression\)\s*", "setStylesheetParam(expr)")
    b2, _, _ = find_body(tcpp, r"XalanTransformer::setStylesheetParam\s*\(\s*const XalanDOMString&\s*qname,\s*XObjectPtr\s*object\)\s*", "setStylesheetParam(object)")
    if not re.search(r"\.\s*m_expression\s*=\s*expression\s*;", b1) or not re.search(r"\.\s*m_value\s*=\s*object\s*;", b2) \
            or "m_params" not in b1 or "m_params" not in b2:
        raise TErr("setStylesheetParam bodies no longer have the modelled form")
    clears1 = bool(re.search(r"m_value\s*(=\s*XObjectPtr\s*\(\s*\)|\.release\s*\(\s*\))|=\s*XalanParamHolder", b1))
    clears2 = bool(re.search(r"m_expression\s*(\.\s*(clear|erase)\s*\(|=\s*XalanDOMString)|=\s*XalanParamHolder", b2))
    param_set_clears_other = clears1 and clears2
    # how doTransform chooses between the two
    if not re.search(r"if\s*\(\s*theExpression\.length\(\)\s*>\s*0\s*\)", dt):
        raise TErr("doTransform no longer chooses expression-over-object by theExpression.length() > 0")
    if not re.search(r"theProcessor\.clearStylesheetParams\(\)\s*;", dt):
        raise TErr("doTransform no longer clears the processor's params before pushing m_params")

    # ---- fresh values from the constructors the transformer uses
    fresh = {}

    def ctor(tag, cname, pick):
        text = src[tag][1]
        cands = [m for m in re.finditer(r"\b%s::%s\s*\(" % (cname, cname), text)]
        chosen = None
        for m in cands:
            # parameter list
            j = m.end()
            d = 1
            while j < len(text) and d:
                d += (text[j] == "(") - (text[j] == ")")
                j += 1
            params = text[m.end():j - 1]
            if pick(params):
                chosen = (m.start(), j)
                break
        if chosen is None:
            raise TErr("constructor of %s used by XalanTransformer not found" % cname)
        b, line, init = find_body(text[chosen[0]:], r"\b%s::%s\s*\((?:[^()]|\([^()]*\))*\)\s*" % (cname, cname), cname + " ctor")
        where["%s::%s" % (tag, cname)] = "%s:%d" % (src[tag][3], text.count("\n", 0, chosen[0]) + 1)
        inits = {}
        for it in split_top(init.lstrip(" :\n"), ","):
            mm = re.match(r"(\w+)\s*\((.*)\)$", it.strip(), re.S)
            if mm:
                inits[mm.group(1)] = mm.group(2).strip()
        for mem in M.members:
            if mem["tag"] != tag:
                continue
            n, k = mem["name"], mem["kind"]
            if n not in inits:
                if k in ("seq", "obj", "objstack"):
                    fresh[mem["id"]] = ("seq", [])
                elif k == "ref":
                    fresh[mem["id"]] = ("ptr", 1)
                else:
                    fresh[mem["id"]] = None   # not initialised by this constructor (base class / uninitialised)
                continue
            e = inits[n]
            if k in ("seq", "obj", "objstack"):
                fresh[mem["id"]] = ("seq", [0]) if (tag == "T" and n == "m_errorMessage") else ("seq", [])
            elif k == "ref":
                fresh[mem["id"]] = ("ptr", 1)
            elif k == "ptr":
                fresh[mem["id"]] = ("ptr", 0) if e in ("", "0", "NULL", "nullptr", "thePrefixResolver") else ("ptr", 1)
            else:
                fresh[mem["id"]] = lit_value(k, e)
        body_stmts = []
        parse_block(M, tag, b, None, body_stmts, funcs)
        for s in body_stmts:
            if s["act"] == "push":
                k, l = fresh[s["target"]]
                fresh[s["target"]] = ("seq", l + [s["x"]])
            elif s["act"] == "set":
                fresh[s["target"]] = s["val"]
        return inits

    ctor("T", "XalanTransformer", lambda p: "MemoryManager" in p)
    ctor("EC", "StylesheetExecutionContextDefault", lambda p: "XSLTEngineImpl" not in p and "theCurrentNode" in p)
    ctor("XP", "XPathExecutionContextDefault", lambda p: "XPathEnvSupport" not in p and "theCurrentNode" in p)
    ctor("VS", "VariablesStack", lambda p: True)
    ctor("PR", "XSLTEngineImpl", lambda p: True)
    ctor("SO", "NodeSorter", lambda p: True)
    # CountersTable: inline constructor in the header
    if not re.search(r"CountersTable\s*\(\s*MemoryManager&\s*theManager\s*,\s*unsigned long\s+theSize\s*=\s*0\s*\)\s*:\s*m_countersVector\s*\(\s*theManager\s*\)\s*,\s*m_newFound\s*\(\s*theManager\s*\)", src["CT"][0]):
        raise TErr("CountersTable constructor no longer has the modelled form")
    for mem in M.members:
        if mem["tag"] in ("CT", "CF", "FN"):
            fresh[mem["id"]] = {"ptr": ("ptr", 1), "ref": ("ptr", 1), "flag": ("flag", True), "num": ("num", 0)}.get(mem["kind"], ("seq", []))
    # defaults of create(): theCurrentNode = 0, theContextNodeList = 0, thePrefixResolver = 0
    for tag in ("EC", "XP"):
        hdr = src[tag][0]
        for a in ("theCurrentNode", "theContextNodeList", "thePrefixResolver"):
            if not re.search(r"\b%s\s*=\s*0" % a, hdr):
                raise TErr("%s: default argument %s = 0 not found in create()" % (tag, a))
    if not re.search(r"m_stylesheetExecutionContext\s*\(\s*StylesheetExecutionContextDefault::create\s*\(\s*m_memoryManager\s*\)\s*\)", src["T"][1]):
        raise TErr("XalanTransformer no longer creates its execution context with create(m_memoryManager)")
    # inherited members: initialised by the base constructors
    base_inits = {"m_xobjectFactory": ("ptr", 0), "m_hasPreserveOrStripConditions": ("flag", False), "m_memoryManager": ("ptr", 1)}
    ectx = strip_comments(read("PlatformSupport/ExecutionContext.cpp"))
    if not re.search(r"m_hasPreserveOrStripConditions\s*\(\s*false\s*\)", ectx):
        raise TErr("ExecutionContext no longer initialises m_hasPreserveOrStripConditions(false)")
    for mem in M.members:
        if fresh.get(mem["id"]) is None:
            if mem["name"] in base_inits and mem["tag"] in ("EC", "XP"):
                fresh[mem["id"]] = base_inits[mem["name"]]
            else:
                # a member its constructor leaves uninitialised: give it a value of its kind and record it
                M.notes.append("%s.%s is not initialised by the constructor" % (mem["tag"], mem["name"]))
                fresh[mem["id"]] = {"ptr": ("ptr", 0), "flag": ("flag", False), "num": ("num", 0)}.get(mem["kind"], ("seq", []))

    # ---- members restored by scope guards in the interpreter (not by reset): every site that mutates one must hold a
    # CollectionClearGuard on it, declared before the first mutation, in the same block
    def all_sources():
        res = []
        for base, _, files in os.walk(SRC):
            for f in sorted(files):
                if f.endswith((".cpp", ".hpp")):
                    rel = os.path.relpath(os.path.join(base, f), SRC)
                    res.append((rel, resolve_ifs(strip_comments(read(rel)), defined)))
        return sorted(res)

    def block_after(text, pos):
        """text from pos to the end of the innermost block that contains pos"""
        d, k = 0, pos
        while k < len(text):
            if text[k] == "{":
                d += 1
            elif text[k] == "}":
                d -= 1
                if d < 0:
                    break
            k += 1
        return text[pos:k]

    def guarded_before_first_mutation(region, var):
        mm = re.search(r"\b%s\s*(?:\.|->)\s*%s\s*\(|\b%s\s*\[[^\]]*\]\s*=(?!=)|\b%s\s*=(?!=)" % (var, MUTATORS, var, var), region)
        mg = re.search(r"CollectionClearGuard\s*<[^;>]*>\s+\w+\s*\(\s*%s\s*\)\s*;" % var, region)
        if mm is None:
            return None            # read-only use
        return mg is not None and mg.start() < mm.start()

    guard_sites = []     # (member id, site, ok)
    guarded_members = [(t, n) for (t, n) in M.index if classification.get("%s.%s" % (t, n), {}).get("class") == "guarded"]
    sources_all = None
    for (t, n) in sorted(guarded_members):
        mid = M.index[(t, n)]
        cname = dict((c[0], c[1]) for c in CLASSES)[t]
        cpp = src[t][1]
        found = 0
        # (a) member functions of the owning class
        for mf in re.finditer(r"\b%s::(~?\w+)\s*\(" % cname, cpp):
            try:
                b, line, _ = find_body(cpp[mf.start():], r"\b%s::~?\w+\s*\((?:[^()]|\([^()]*\))*\)\s*(?:const\s*)?" % cname, "x")
            except TErr:
                continue
            if mf.group(1) in (cname, "~" + cname):
                continue
            ok = guarded_before_first_mutation(b, n)
            if ok is None:
                continue
            found += 1
            guard_sites.append((mid, "%s:%d %s::%s" % (src[t][3], cpp.count("\n", 0, mf.start()) + 1, cname, mf.group(1)), ok))
        # (b) users of an accessor that hands out a mutable reference
        for acc in GUARD_ACCESSORS.get((t, n), []):
            if sources_all is None:
                sources_all = all_sources()
            nacc = 0
            for rel, text in sources_all:
                for mu in re.finditer(r"(const\s+)?[\w:]+\s*&\s*(\w+)\s*=\s*[^;{}]*\b%s\s*\(\s*\)\s*;" % acc, text):
                    nacc += 1
                    if mu.group(1):
                        continue       # const reference: cannot mutate
                    ok = guarded_before_first_mutation(block_after(text, mu.end()), mu.group(2))
                    if ok is None:
                        continue
                    found += 1
                    guard_sites.append((mid, "%s:%d via %s()" % (rel, text.count("\n", 0, mu.start()) + 1, acc), ok))
                # any other use of the accessor (not bound to a named reference) cannot be followed: count it as unguarded
                for mu in re.finditer(r"\b%s\s*\(\s*\)\s*(?:\.|->)\s*%s\s*\(" % (acc, MUTATORS), text):
                    found += 1
                    guard_sites.append((mid, "%s:%d direct %s().mutate" % (rel, text.count("\n", 0, mu.start()) + 1, acc), False))
            if nacc == 0:
                raise TErr("no user of the accessor %s() found: the way %s.%s is handed out has changed" % (acc, t, n))
        # (c) a helper class that reaches the member through a reference to the owner (NodeSortKeyCompare: m_sorter.m_x):
        # the helper must only be constructed in a block that already holds the guard
        helper = {"SO": "NodeSortKeyCompare"}.get(t)
        if helper and re.search(r"\.\s*%s\b" % n, cpp):
            ncons = 0
            for rel, text in ([(src[t][3], cpp)]):
                for mu in re.finditer(r"\b%s\s+\w+\s*\(" % helper, text):
                    # the enclosing block, from its start
                    d, k = 0, mu.start()
                    while k > 0:
                        k -= 1
                        if text[k] == "}":
                            d += 1
                        elif text[k] == "{":
                            if d == 0:
                                break
                            d -= 1
                    before = text[k:mu.start()]
                    ok = bool(re.search(r"CollectionClearGuard\s*<[^;>]*>\s+\w+\s*\(\s*%s\s*\)\s*;" % n, before))
                    ncons += 1
                    found += 1
                    guard_sites.append((mid, "%s:%d construction of %s (reaches %s through its owner reference)" % (
                        rel, text.count("\n", 0, mu.start()) + 1, helper, n), ok))
            if sources_all is None:
                sources_all = all_sources()
            for rel, text in sources_all:
                if rel not in (src[t][3], src[t][2]) and re.search(r"\b%s\b" % helper, text):
                    guard_sites.append((mid, "%s: %s used outside its owner" % (rel, helper), False))
        if found == 0:
            raise TErr("member %s.%s is classified `guarded` but no site mutating it was found" % (t, n))

    # the scratch QName: every user must assign it before reading it
    scratch_sites = []
    if ("XP", "m_scratchQName") in M.index:
        if sources_all is None:
            sources_all = all_sources()
        for rel, text in sources_all:
            if not rel.startswith(("XPath/XPathExecutionContextDefault", "XSLT/StylesheetExecutionContextDefault")):
                if re.search(r"\bgetScratchQName\s*\(", text) and "XPathExecutionContextDefault" in text:
                    scratch_sites.append(("%s: use outside the two execution contexts" % rel, False))
                continue
            for mu in re.finditer(r"XalanQNameByValue\s*&\s*(\w+)\s*=\s*[^;]*\bgetScratchQName\s*\(\s*\)\s*;", text):
                rest = text[mu.end():].lstrip()
                ok = bool(re.match(r"%s\s*\.\s*set\s*\(" % mu.group(1), rest))
                scratch_sites.append(("%s:%d" % (rel, text.count("\n", 0, mu.start()) + 1), ok))
            # direct uses of the member other than in the accessor / constructors
            for mu in re.finditer(r"\bm_scratchQName\b", text):
                ctxt = text[max(0, mu.start() - 80):mu.end() + 40]
                if re.search(r"return\s+m_scratchQName\s*;", ctxt) or re.search(r"m_scratchQName\s*\(", ctxt) or re.search(r"XalanQNameByValue\s+m_scratchQName\s*;", ctxt):
                    continue
                # a read right after the set in the same function (elementAvailable(m_scratchQName)) is fine when a set precedes it
                before = text[max(0, mu.start() - 400):mu.start()]
                ok = bool(re.search(r"\.\s*set\s*\([^;]*;\s*(return\s+)?\w*\s*\(?\s*$", before)) or bool(re.search(r"\.\s*set\s*\(", before.split("{")[-1]))
                scratch_sites.append(("%s:%d direct" % (rel, text.count("\n", 0, mu.start()) + 1), ok))
        if not scratch_sites:
            raise TErr("no user of getScratchQName() found")

    # enumeration of the RAII helper classes of the two abstract execution contexts, the context methods their
    # constructor/destructor call, and the members those methods touch (informational + one obligation below)
    guard_classes = []
    for rel, own in (("XSLT/StylesheetExecutionContext.hpp", "EC"), ("XPath/XPathExecutionContext.hpp", "XP")):
        text = resolve_ifs(strip_comments(read(rel)), defined)
        for mc in re.finditer(r"\bclass\s+(\w*(?:Guard|PushAndPop|SetAndRestore|BorrowReturn|GetCached|GetAndRelease|PushPop)\w*)\b[^;{]*\{", text):
            body = block_after(text, mc.end())
            calls = sorted(set(re.findall(r"(?:m_\w*[cC]ontext\w*|theExecutionContext|executionContext)\s*(?:\.|->)\s*(\w+)\s*\(", body)))
            members = set()
            for meth in calls:
                for t2 in ("EC", "XP"):
                    cn = dict((c[0], c[1]) for c in CLASSES)[t2]
                    mm2 = re.search(r"\b%s::%s\s*\(" % (cn, meth), src[t2][1])
                    if not mm2:
                        continue
                    try:
                        b2, _, _ = find_body(src[t2][1][mm2.start():], r"\b%s::%s\s*\((?:[^()]|\([^()]*\))*\)\s*(?:const\s*)?" % (cn, meth), "x")
                    except TErr:
                        continue
                    for mem in set(re.findall(r"\b(m_\w+)\b", b2)):
                        if (t2, mem) in M.index:
                            members.add("%s.%s" % (t2, mem))
                        elif (t2, mem) in NESTED:
                            members.add("%s.*" % NESTED[(t2, mem)])
            guard_classes.append({"class": mc.group(1), "file": rel, "calls": calls, "members": sorted(members)})
    if len(guard_classes) < 8:
        raise TErr("only %d RAII helper classes found in the execution context headers" % len(guard_classes))

    # ---- caches whose entries carry mutable state (ICU collators / decimal formats kept for the transformer's life):
    # every use must set, unconditionally, every piece of that state it depends on
    stateful_sites = []
    if uses_icu:
        cf = src["CF"][1]
        nset = 0
        for mf in re.finditer(r"\bICUBridgeCollationCompareFunctorImpl::(\w+)\s*\(", cf):
            try:
                b, line, _ = find_body(cf[mf.start():], r"\bICUBridgeCollationCompareFunctorImpl::\w+\s*\((?:[^()]|\([^()]*\))*\)\s*(?:const\s*)?", "x")
            except TErr:
                continue
            for ms in re.finditer(r"\.\s*(setAttribute|setStrength)\s*\(\s*(\w*)", b):
                nset += 1
                depth = b.count("{", 0, ms.start()) - b.count("}", 0, ms.start())
                mcmp = re.search(r"\.\s*compare\s*\(", b)
                ok = depth == 0 and (mcmp is None or ms.start() < mcmp.start())
                stateful_sites.append(("ICUBridge/ICUBridgeCollationCompareFunctorImpl.cpp:%d %s: %s(%s) unconditional before compare" % (
                    cf.count("\n", 0, mf.start()) + 1 + b.count("\n", 0, ms.start()), mf.group(1), ms.group(1), ms.group(2)), ok))
            if mf.group(1) == "doCompareCached":
                calls = re.findall(r"\bdoCompare\s*\(((?:[^()]|\([^()]*\))*)\)", b)
                ok = bool(calls) and all(len(split_top(c, ",")) == 4 for c in calls)
                stateful_sites.append(("ICUBridgeCollationCompareFunctorImpl::doCompareCached: cached collators are compared only through the overload that sets the case order", ok))
        if nset == 0:
            stateful_sites.append(("ICUBridgeCollationCompareFunctorImpl: no setAttribute at all although xsl:sort case-order is passed in", False))
        # the default collator is never configured after its creation
        for mu in re.finditer(r"m_defaultCollator\s*(?:->|\.)\s*(set\w+)", cf):
            stateful_sites.append(("ICUBridgeCollationCompareFunctorImpl: m_defaultCollator->%s after creation" % mu.group(1), False))
        fn = src["FN"][1]
        b, line, _ = find_body(fn, r"\bICUFormatNumberFunctor::doICUFormat\s*\((?:[^()]|\([^()]*\))*\)\s*(?:const\s*)?", "ICUFormatNumberFunctor::doICUFormat")
        ma = re.search(r"->\s*applyPattern\s*\(", b)
        mfmt = re.search(r"->\s*format\s*\(", b)
        ok = bool(ma and mfmt and ma.start() < mfmt.start() and b.count("{", 0, ma.start()) == b.count("}", 0, ma.start()))
        stateful_sites.append(("ICUBridge/ICUFormatNumberFunctor.cpp:%d doICUFormat: applyPattern unconditional before format" % line, ok))
        nfmt = len(re.findall(r"->\s*format\s*\(", fn))
        stateful_sites.append(("ICUFormatNumberFunctor: the only format() call is the one in doICUFormat", nfmt == 1))

    # ---- pooled / re-used objects: every data member holds per-use data unless allow-listed, and must be assigned by one of
    # the re-initialisers that the borrowing site calls
    spec_all = json.load(open(cls_file))
    pooled_spec = spec_all.get("pooled", [])
    key_spec = spec_all.get("cache_keys", [])
    extra_names = set()
    for ps in pooled_spec:
        extra_names.add(ps["class"])
        extra_names.update(ps.get("bases", []))
    for ks in key_spec:
        extra_names.add(ks["key_class"])
    extra_fields = clang_fields(sorted(extra_names)) if extra_names else {}
    ecpp = src["EC"][1]

    def fn_bodies(text, cname, fname):
        """bodies of every definition of fname (member of cname out of line, or inline) in text"""
        res = []
        for mm in re.finditer(r"(?:\b%s::)?(?<![\w~])%s\s*\(" % (cname, re.escape(fname)), text):
            k = mm.end()
            dpt = 1
            while k < len(text) and dpt:
                dpt += (text[k] == "(") - (text[k] == ")")
                k += 1
            rest = text[k:k + 4000]
            m2 = re.match(r"\s*(?:const\s*)?(?::[^{;]*)?\{", rest)
            if not m2 or ";" in rest[:m2.end()].split("{")[0].replace(":", "") and False:
                continue
            st = k + m2.end() - 1
            dpt, j = 0, st
            while j < len(text):
                if text[j] == "{":
                    dpt += 1
                elif text[j] == "}":
                    dpt -= 1
                    if dpt == 0:
                        break
                j += 1
            res.append((text[st + 1:j], text[k:st]))
        return res

    def assigns(body, mem):
        return bool(re.search(r"\b%s\s*=(?!=)|\b%s\s*(?:\.|->)\s*(?:clear|erase|assign|resize|swap|setString)\s*\(" % (mem, mem), body))

    reinit_sites = []     # (what, ok)
    pooled_lean = []      # (class, [(member, assigned)], allow)
    for ps in pooled_spec:
        cname = ps["class"]
        texts = [(f_, resolve_ifs(strip_comments(read(f_)), defined)) for f_ in ps["files"] + ps.get("reinit_files", [])]
        members = [n_ for (n_, _, _) in extra_fields[cname]]
        for b_ in ps.get("bases", []):
            members += [n_ for (n_, _, _) in extra_fields[b_]]
        # the borrowing site calls every re-initialiser
        site_bodies = fn_bodies(ecpp, "StylesheetExecutionContextDefault", ps["site"])
        if not site_bodies:
            raise TErr("pooled %s: borrowing site %s not found" % (cname, ps["site"]))
        sb = site_bodies[0][0]
        for fn_ in ps["reinit"]:
            reinit_sites.append(("%s: %s() is called by %s" % (cname, fn_, ps["site"]), bool(re.search(r"(?:\.|->)\s*%s\s*\(" % fn_, sb))))
        bodies = {}
        for fn_ in ps["reinit"]:
            bl = []
            for f_, t_ in texts:
                for cn_ in [cname] + ps.get("bases", []) + ["FormatterToTextDOMString"]:
                    bl += [b for (b, _) in fn_bodies(t_, cn_, fn_)]
            if not bl:
                raise TErr("pooled %s: re-initialiser %s() not found" % (cname, fn_))
            bodies[fn_] = "\n".join(bl)
        rows = []
        for mem in members:
            if mem in ps.get("allow", {}):
                al = ps["allow"][mem]
                ok = True
                if "writers" in al:
                    # assigned only in constructors and the listed functions
                    for f_, t_ in texts:
                        for mm in re.finditer(r"\b%s\s*=(?!=)" % mem, t_):
                            # enclosing function name: nearest preceding "name(" at brace depth 0 -- approximated by the last
                            # "Class::name(" or inline "name(" before the position
                            pre = t_[:mm.start()]
                            heads = re.findall(r"(?:\b\w+::)?(~?\w+)\s*\([^;{}]*\)\s*(?:const\s*)?(?::[^{;]*)?\{", pre)
                            fn_ = heads[-1] if heads else "?"
                            if fn_ not in al["writers"] and fn_ not in [cname] + ps.get("bases", []) and fn_ not in ("if", "for", "while", "switch", "else", "catch", "try", "do"):
                                ok = False
                                reinit_sites.append(("%s.%s (allow-listed) is assigned in %s()" % (cname, mem, fn_), False))
                rows.append((mem, None))
                reinit_sites.append(("%s.%s allow-listed: %s" % (cname, mem, al["why"][:80]), ok))
                continue
            where_ = [fn_ for fn_ in ps["reinit"] if assigns(bodies[fn_], mem)]
            rows.append((mem, bool(where_)))
            reinit_sites.append(("%s.%s is assigned by %s" % (cname, mem, "/".join(where_) if where_ else "NO re-initialiser"), bool(where_)))
        pooled_lean.append((cname, rows))

    # ---- scratch objects: every data member assigned on every path of the (re-)initialising entry function that does not throw
    def stmts_merged(block):
        items = split_top(block, ";")
        out = []
        for it in items:
            if re.match(r"else\b", it) and out:
                out[-1] = out[-1] + " " + it
            else:
                out.append(it)
        return out

    def split_if_chain(st):
        """'if (c) {..} else if (d) {..} else {..}' -> list of branch bodies, and whether a final else exists"""
        branches, has_else, rest = [], False, st.strip()
        while True:
            m = re.match(r"if\s*\(", rest)
            if not m:
                break
            k, dpt = m.end(), 1
            while k < len(rest) and dpt:
                dpt += (rest[k] == "(") - (rest[k] == ")")
                k += 1
            body = rest[k:].lstrip()
            if body.startswith("{"):
                dpt, j = 0, 0
                while j < len(body):
                    dpt += (body[j] == "{") - (body[j] == "}")
                    if dpt == 0:
                        break
                    j += 1
                branches.append(body[1:j])
                rest = body[j + 1:].lstrip()
            else:
                branches.append(body)
                rest = ""
            m2 = re.match(r"else\b\s*", rest)
            if not m2:
                break
            rest = rest[m2.end():]
            if not rest.startswith("if"):
                rest = rest.strip()
                branches.append(rest[1:-1] if rest.startswith("{") and rest.endswith("}") else rest)
                has_else = True
                break
        return branches, has_else

    def all_paths_assign(block, mem):
        for st in stmts_merged(block):
            st = st.strip()
            if re.match(r"if\s*\(", st):
                branches, has_else = split_if_chain(st)
                if has_else and all(all_paths_assign(b, mem) for b in branches):
                    return True
                continue
            if re.match(r"(throwException|throw)\b", st):
                return True           # this path ends in an exception
            if re.match(r"%s\s*=(?!=)|%s\s*\.\s*(clear|assign|erase|swap)\s*\(" % (mem, mem), st) and "reserve" not in st.split("(")[0]:
                return True
        return False

    scratch_path_sites = []
    for sp_ in spec_all.get("scratch", []):
        sc = sp_["class"]
        sfields = [n_ for (n_, _, _) in clang_fields([sc])[sc]]
        stext = "\n".join(resolve_ifs(strip_comments(read(f_)), defined) for f_ in sp_["files"])
        for ent in sp_["entry"]:
            bl = fn_bodies(stext, sc, ent)
            if not bl:
                raise TErr("scratch %s: entry function %s not found" % (sc, ent))
            for mem in sfields:
                scratch_path_sites.append(("%s.%s is assigned on every non-throwing path of %s()" % (sc, mem, ent),
                                           all(all_paths_assign(b, mem) for (b, _) in bl)))
        # every set() overload that takes a resolver goes through the entry function
        for (b, hd) in fn_bodies(stext, sc, "set"):
            if "Resolver" in stext[max(0, stext.find(b) - 600):stext.find(b)] or "resolvePrefix" in b:
                scratch_path_sites.append(("%s::set(…PrefixResolver…) calls %s()" % (sc, sp_["entry"][0]), "resolvePrefix" in b or "initialize" in b))

    # ---- caches that outlive a transformation: the key type must carry every input
    key_sites = []
    for ks in key_spec:
        kc = ks["key_class"]
        ktexts = "\n".join(resolve_ifs(strip_comments(read(f_)), defined) for f_ in ks["files"])
        mems = [n_ for (n_, _, _) in extra_fields[kc]]
        b_as = fn_bodies(ktexts, kc, "operator=")
        b_eq = fn_bodies(ktexts, kc, "operator==")
        copy = [hd for (b, hd) in fn_bodies(ktexts, kc, kc) if True]
        copy_init = "\n".join(h for h in copy if "theSource." in h or "theRHS." in h or "other." in h)
        if not b_as or not b_eq or not copy_init:
            raise TErr("cache key %s: operator=, operator== or the copy constructor not found" % kc)
        for mem in mems:
            key_sites.append(("%s.%s copied by operator=" % (kc, mem), bool(re.search(r"\b%s\s*=\s*\w+\.%s\b" % (mem, mem), b_as[0][0]))))
            key_sites.append(("%s.%s compared by operator==" % (kc, mem), bool(re.search(r"\b%s\s*==\s*\w+\.%s\b" % (mem, mem), b_eq[0][0]))))
            key_sites.append(("%s.%s copied by the copy constructor" % (kc, mem), bool(re.search(r"\b%s\s*\(\s*\w+\.%s\b" % (mem, mem), copy_init))))
    if uses_icu:
        fnh = resolve_ifs(strip_comments(read("ICUBridge/ICUFormatNumberFunctor.hpp")), defined)
        key_sites.append(("ICUFormatNumberFunctor: the cache is searched with XalanDecimalFormatSymbols::operator== on the whole key",
                          bool(re.search(r"theStruct\.m_DFS\s*==\s*\(?\s*\*\s*m_DFS", fnh))))
        key_sites.append(("ICUFormatNumberFunctor::cacheDecimalFormat files the formatter under a copy of the whole key",
                          bool(re.search(r"\.m_DFS\s*=\s*theDFS\s*;", src["FN"][1]))))
        cfh = resolve_ifs(strip_comments(read("ICUBridge/ICUBridgeCollationCompareFunctorImpl.hpp")), defined)
        key_sites.append(("ICUBridgeCollationCompareFunctorImpl: the collator cache is searched by the locale name (the only input of createCollator)",
                          bool(re.search(r"equals\s*\(\s*theStruct\.m_locale\s*,\s*m_locale\s*\)", cfh))))

    # ---- configuration setters: the container operation each one performs.  Reference semantics = last write wins per key,
    # removal removes: a map setter must assign (`m[k] = v` / find-and-replace), never `insert` (XalanMap::insert keeps the old
    # entry); a scalar setter must assign unconditionally
    setter_ops = []
    for tag in ("T", "EC"):
        cname = dict((c[0], c[1]) for c in CLASSES)[tag]
        both = src[tag][0] + "\n" + src[tag][1]
        for mem in M.members:
            if mem["tag"] != tag:
                continue
            role = classification.get("%s.%s" % (tag, mem["name"]), {}).get("class")
            if role not in ("sticky", "config"):
                continue
            n = mem["name"]
            is_map = "Map" in mem["type"]
            nwriters = 0
            for mm in re.finditer(r"(?:\b%s::(\w+)|(?<![\w~:>.])(\w+))\s*\(" % cname, both):
                fname = mm.group(1) or mm.group(2)
                if fname in (cname, "if", "for", "while", "switch", "catch", "return", "assert", "sizeof") or fname.startswith("~"):
                    continue
                k = mm.end(); dpt = 1
                while k < len(both) and dpt:
                    dpt += (both[k] == "(") - (both[k] == ")")
                    k += 1
                m2 = re.match(r"\s*(?:const\s*)?\{", both[k:k + 40])
                if not m2:
                    continue
                st = k + m2.end() - 1
                dpt, j = 0, st
                while j < len(both):
                    if both[j] == "{":
                        dpt += 1
                    elif both[j] == "}":
                        dpt -= 1
                        if dpt == 0:
                            break
                    j += 1
                b = both[st + 1:j]
                if not re.search(r"\b%s\b" % n, b):
                    continue
                if is_map:
                    for mo in re.finditer(r"\b%s\s*\.\s*(insert|erase|clear)\s*\(|\b%s\s*\[[^\]]*\]\s*(?:\.\s*\w+\s*)?=(?!=)|=\s*\n?\s*%s\s*\[" % (n, n, n), b):
                        opk = mo.group(1) or "assign-through-operator[]"
                        nwriters += 1
                        setter_ops.append(("%s.%s: %s() %s" % (tag, n, fname, opk), opk != "insert"))
                elif mem["kind"] in ("flag", "ptr", "num") or mem["type"].endswith("XalanDOMString"):
                    for mo in re.finditer(r"\b%s\s*=(?!=)\s*([^;]*);" % n, b):
                        nwriters += 1
                        depth0 = b.count("{", 0, mo.start()) == b.count("}", 0, mo.start())
                        if not depth0 and mo.group(1).strip() == "0":
                            continue        # a setter clearing the alternative representation (entity resolver pair)
                        # a setter that only translates an enum in a switch assigns a local and then stores it unconditionally
                        if fname.startswith(("set", "install", "uninstall")):
                            setter_ops.append(("%s.%s: %s() assigns %s" % (tag, n, fname, "unconditionally" if depth0 else "under a condition"), depth0 or fname.startswith(("install", "uninstall"))))
            if is_map and nwriters == 0:
                setter_ops.append(("%s.%s: no function writes this map any more" % (tag, n), False))

    # the function tables behind installExternalFunctionLocal / ...Global (per-call copy of m_functions; process-wide table)
    envcpp = resolve_ifs(strip_comments(read("XPath/XPathEnvSupportDefault.cpp")), defined)
    ub, _, _ = find_body(envcpp, r"\bXPathEnvSupportDefault::updateFunctionTable\s*\((?:[^()]|\([^()]*\))*\)\s*", "XPathEnvSupportDefault::updateFunctionTable")
    setter_ops.append(("XPathEnvSupportDefault::updateFunctionTable: an existing entry is replaced ((*j).second = clone) or erased", 
                       bool(re.search(r"\(\*j\)\.second\s*=\s*(function->clone|theClone\s*;)", ub)) and bool(re.search(r"\.erase\s*\(\s*j\s*\)", ub))))
    setter_ops.append(("XPathEnvSupportDefault::updateFunctionTable: never uses insert()", not re.search(r"\.\s*insert\s*\(", ub)))
    for fn_, arg in (("installExternalFunctionGlobal", "&function"), ("uninstallExternalFunctionGlobal", "0"),
                     ("installExternalFunctionLocal", "&function"), ("uninstallExternalFunctionLocal", "0")):
        fb, _, _ = find_body(envcpp, r"\bXPathEnvSupportDefault::%s\s*\((?:[^()]|\([^()]*\))*\)\s*" % fn_, fn_)
        setter_ops.append(("XPathEnvSupportDefault::%s goes through updateFunctionTable(…, %s)" % (fn_, arg),
                           bool(re.search(r"updateFunctionTable\s*\([^;]*,\s*%s\s*\)" % re.escape(arg), fb))))

    # ---- classification
    roles = {}
    unclassified = []
    for mem in M.members:
        key = "%s.%s" % (mem["tag"], mem["name"])
        c = classification.get(key)
        if c is None:
            unclassified.append(key)
            roles[mem["id"]] = "unclassified"
        else:
            roles[mem["id"]] = c["class"]
            if mem["kind"] == "objstack" and c["class"] == "cache" and funcs[("OSC", "zeroes")]:
                # XalanObjectStackCache::reset() zeroes m_numObjectsOnStack (proposed/C06-objstack-reset.diff applied):
                # the member is restored by reset like every other stack, so it is held to the transient standard
                roles[mem["id"]] = "transient"
    # members declared unused: no mention outside the declaration and the constructor init lists
    for key, c in classification.items():
        if not c.get("unused"):
            continue
        tag, name = key.split(".", 1)
        if tag not in src or (tag, name) not in M.index:
            continue
        hdr, cpp = src[tag][0], src[tag][1]
        in_hdr = len(re.findall(r"\b%s\b" % name, hdr))
        in_cpp = len(re.findall(r"\b%s\b" % name, cpp))
        in_init = len(re.findall(r"^\s*%s\s*\(" % name, cpp, re.M))
        if in_hdr != 1 or in_cpp != in_init:
            raise TErr("%s is classified as unused but is mentioned %d time(s) in the header and %d time(s) outside init lists" % (
                key, in_hdr, in_cpp - in_init))
    restored = ("transient", "percall", "guarded", "percall-object", "const")
    guard_class_problems = []
    for gc in guard_classes:
        for key in gc["members"]:
            if key.endswith(".*"):
                continue
            tag, name = key.split(".", 1)
            r_ = roles[M.index[(tag, name)]]
            # config/sticky members are read, not written, by these helpers (formatter / collation functors); the scratch QName has its own obligation
            if r_ not in restored and r_ not in ("config", "sticky") and key != "XP.m_scratchQName":
                guard_class_problems.append("%s touches %s (%s)" % (gc["class"], key, r_))
    stale = [k for k in classification if tuple(k.split(".", 1)) not in M.index]

    ROLE_CTOR = {"transient": ".transient", "percall": ".perCall", "sticky": ".sticky", "config": ".config",
                 "cache": ".cache", "percall-object": ".perCallObject", "const": ".const", "guarded": ".guarded",
                 "unclassified": ".unclassified"}
    for r in roles.values():
        if r not in ROLE_CTOR:
            raise TErr("unknown class %r in gen/c06_members.json" % r)

    L = []
    L.append("/- GENERATED by translate/c06_reset.py from %s -- do not edit. -/" % REPO)
    L.append("import XalanModel.C06.Stmt")
    L.append("namespace XalanModel.Generated.C06")
    L.append("open XalanModel.C06")
    L.append("")
    L.append("/-- (qualified member name, role) in member-id order -/")
    L.append("def memberNames : List String := [")
    L.append(",\n".join('  "%s.%s"' % (m["tag"], m["name"]) for m in M.members))
    L.append("]")
    L.append("def roles : List Role := [")
    L.append(",\n".join("  %s" % ROLE_CTOR[roles[m["id"]]] for m in M.members))
    L.append("]")
    L.append("def kinds : List Kind := [")
    L.append(",\n".join("  .%s" % m["kind"] for m in M.members))
    L.append("]")
    L.append("/-- value of every member right after construction of a XalanTransformer -/")
    L.append("def freshVals : List Val := [")
    L.append(",\n".join("  %s" % lean_val(fresh[m["id"]]) for m in M.members))
    L.append("]")
    L.append("/-- XalanTransformer::EnsureReset::~EnsureReset(), fully inlined, in source order -/")
    L.append("def ensureReset : List Stmt := [")
    L.append(",\n".join("  %s   -- %s" % (lean_stmt(s), s["src"][:70]) if False else "  %s" % lean_stmt(s) for s in ensure))
    L.append("]")
    L.append("/-- what doTransform installs in the execution context before the transformation starts -/")
    L.append("def setup : List Stmt := [")
    L.append(",\n".join("  %s" % lean_stmt(s) for s in setup))
    L.append("]")
    L.append("def unclassified : List String := [%s]" % ", ".join('"%s"' % u for u in unclassified))
    L.append("def stickyWrittenByTransform : List String := [%s]" % ", ".join('"%s"' % u for u in sticky_written))
    L.append("def guardOrderProblems : List String := [%s]" % ", ".join('"%s"' % u for u in order_problems))
    L.append("/-- XalanObjectStackCache::reset() gives the objects in use back (m_numObjectsOnStack = 0)? -/")
    L.append("def objStackResetZeroesDepth : Bool := %s" % ("true" if funcs[("OSC", "zeroes")] else "false"))
    L.append("/-- setStylesheetParam(k, expression) drops a stored object for k and vice versa? -/")
    L.append("def paramSetClearsOther : Bool := %s" % ("true" if param_set_clears_other else "false"))
    L.append("/-- every site that mutates a member restored by scope guards: (member id, where, guard declared before the first mutation) -/")
    L.append("def guardSites : List (Nat × String × Bool) := [")
    L.append(",\n".join('  (%d, "%s", %s)' % (m_, w_, "true" if ok_ else "false") for (m_, w_, ok_) in guard_sites))
    L.append("]")
    L.append("/-- every user of the scratch QName: (where, assigns it before reading) -/")
    L.append("def scratchSites : List (String × Bool) := [")
    L.append(",\n".join('  ("%s", %s)' % (w_, "true" if ok_ else "false") for (w_, ok_) in scratch_sites))
    L.append("]")
    L.append("/-- pooled objects: (what, holds) -- every data member is assigned by a re-initialiser the borrowing site calls, or allow-listed -/")
    L.append("def reinitSites : List (String × Bool) := [")
    L.append(",\n".join('  ("%s", %s)' % (w_.replace('"', "'").replace("\\", ""), "true" if ok_ else "false") for (w_, ok_) in reinit_sites))
    L.append("]")
    L.append("/-- per pooled class: the re-initialisation as a statement list over its own members (member i of the class = id i;")
    L.append("    allow-listed members have no statement), and the ids of the members holding per-use data -/")
    L.append("def pooledReinit : List (String × List Stmt × List Nat) := [")
    rows_ = []
    for (cn_, rws) in pooled_lean:
        st_ = ", ".join("⟨none, %d, .set (.seq [])⟩" % i for i, (_, a_) in enumerate(rws) if a_)
        ids_ = ", ".join(str(i) for i, (_, a_) in enumerate(rws) if a_ is not None)
        rows_.append('  ("%s", [%s], [%s])' % (cn_, st_, ids_))
    L.append(",\n".join(rows_))
    L.append("]")
    L.append("/-- scratch objects of the execution contexts: (what, holds) -- NOT part of a theorem while the defect in resolvePrefix is")
    L.append("    unrepaired in /repo; the check turns a false entry into an obligation keyed to the known finding -/")
    L.append("def scratchPathSites : List (String × Bool) := [")
    L.append(",\n".join('  ("%s", %s)' % (w_.replace('"', "'"), "true" if ok_ else "false") for (w_, ok_) in scratch_path_sites))
    L.append("]")
    L.append("def scratchQNameClearsOnUndeclared : Bool := %s" % ("true" if all(ok_ for (_, ok_) in scratch_path_sites) else "false"))
    L.append("/-- configuration setters and the container operation each performs: (what, compatible with last-write-wins) -/")
    L.append("def setterOps : List (String × Bool) := [")
    L.append(",\n".join('  ("%s", %s)' % (w_.replace('"', "'"), "true" if ok_ else "false") for (w_, ok_) in setter_ops))
    L.append("]")
    L.append("/-- key types of caches that outlive a transformation: (what, holds) -/")
    L.append("def cacheKeySites : List (String × Bool) := [")
    L.append(",\n".join('  ("%s", %s)' % (w_.replace('"', "'"), "true" if ok_ else "false") for (w_, ok_) in key_sites))
    L.append("]")
    L.append("/-- uses of cached objects that carry mutable state: (what, the state is set unconditionally before the use) -/")
    L.append("def statefulCacheSites : List (String × Bool) := [")
    L.append(",\n".join('  ("%s", %s)' % (w_.replace('"', "'"), "true" if ok_ else "false") for (w_, ok_) in stateful_sites))
    L.append("]")
    L.append("def usesICU : Bool := %s" % ("true" if uses_icu else "false"))
    L.append("def guardClassProblems : List String := [%s]" % ", ".join('"%s"' % u for u in guard_class_problems))
    L.append("def vsStack : Nat := %d" % M.mid("VS", "m_stack"))
    L.append("def vsIndex : Nat := %d" % M.mid("VS", "m_currentStackFrameIndex"))
    L.append("end XalanModel.Generated.C06")
    txt = "\n".join(L) + "\n"
    old = open(out_lean).read() if os.path.exists(out_lean) else None
    if old != txt:
        with open(out_lean, "w") as f:
            f.write(txt)
    side = {
        "repo": REPO,
        "members": [dict(m, role=roles[m["id"]], fresh=fresh[m["id"]]) for m in M.members],
        "ensureReset": ensure, "setup": setup, "where": where, "notes": sorted(set(M.notes)),
        "unclassified": unclassified, "stale_classification_entries": stale,
        "sticky_written": sticky_written, "order_problems": order_problems,
        "objStackResetZeroesDepth": funcs[("OSC", "zeroes")], "paramSetClearsOther": param_set_clears_other,
        "guard_sites": guard_sites, "scratch_sites": scratch_sites, "guard_classes": guard_classes,
        "guard_class_problems": guard_class_problems, "stateful_cache_sites": stateful_sites, "reinit_sites": reinit_sites, "setter_ops": setter_ops, "scratch_path_sites": scratch_path_sites, "cache_key_sites": key_sites, "uses_icu": uses_icu,
    }
    with open(out_json, "w") as f:
        json.dump(side, f, indent=1)
    print("c06_reset: %d members, %d reset statements, %d set-up statements, unclassified=%d, stale=%d" % (
        len(M.members), len(ensure), len(setup), len(unclassified), len(stale)))
    for u in unclassified:
        print("  unclassified member:", u)
    return 0


if __name__ == "__main__":
    try:
        sys.exit(main())
    except TErr as e:
        print("c06_reset: TRANSLATION FAILED: %s" % e)
        sys.exit(1)
