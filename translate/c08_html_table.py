#!/usr/bin/env python3
"""C08 translator: XalanHTMLElementsProperties.cpp (s_elementProperties) + the eFlags enum of the header
-> lean/XalanModel/Generated/C08_HtmlTable.lean and a JSON sidecar (.cache/c08_html_table.json) used by the
HTML reader of checks/c08.py.  Fails (exit 1) when the expected constructs cannot be parsed."""
import json
import os
import re
import sys

HERE = os.path.dirname(os.path.abspath(__file__))
sys.path.insert(0, os.path.dirname(HERE))
from vlib import common  # noqa: E402

SRC = os.path.join(common.REPO, "src/xalanc/XMLSupport/XalanHTMLElementsProperties.cpp")
HDR = os.path.join(common.REPO, "src/xalanc/XMLSupport/XalanHTMLElementsProperties.hpp")

CHAR_NAMES = {"charHyphenMinus": "-", "charLowLine": "_"}


def strip_comments(t):
    t = re.sub(r"/\*.*?\*/", " ", t, flags=re.S)
    return re.sub(r"//[^\n]*", " ", t)


def char_of(tok):
    tok = tok.strip()
    m = re.fullmatch(r"XalanUnicode::charLetter_([A-Za-z])", tok)
    if m:
        return m.group(1)
    m = re.fullmatch(r"XalanUnicode::charDigit_([0-9])", tok)
    if m:
        return m.group(1)
    m = re.fullmatch(r"XalanUnicode::(\w+)", tok)
    if m and m.group(1) in CHAR_NAMES:
        return CHAR_NAMES[m.group(1)]
    raise ValueError("unknown character constant %r" % tok)


def parse_braces(t, i):
    """t[i] == '{' -> (nested list, index after the matching '}'); leaves are stripped strings"""
    assert t[i] == "{"
    i += 1
    items, cur = [], ""
    while True:
        c = t[i]
        if c == "{":
            sub, i = parse_braces(t, i)
            items.append(sub)
            cur = ""
        elif c == "}":
            if cur.strip():
                items.append(cur.strip())
            return items, i + 1
        elif c == ",":
            if cur.strip():
                items.append(cur.strip())
            cur = ""
            i += 1
        else:
            cur += c
            i += 1


def name_of(lst):
    if not isinstance(lst, list) or not lst or lst[-1] != "0":
        raise ValueError("name array not 0-terminated: %r" % (lst,))
    return "".join(char_of(x) for x in lst[:-1])


def flags_of(expr, enum, prefix="ElemDesc::"):
    expr = expr.strip()
    if expr == "0":
        return 0
    v = 0
    for part in expr.split("|"):
        p = part.strip()
        if not p.startswith(prefix):
            raise ValueError("unexpected flag expression %r" % expr)
        v |= enum[p[len(prefix):]]
    return v


def main():
    hdr = strip_comments(open(HDR, encoding="utf-8", errors="replace").read())
    m = re.search(r"enum\s+eFlags\s*\{(.*?)\}", hdr, re.S)
    if not m:
        print("eFlags enum not found"); return 1
    enum_elem, enum_attr = {}, {}
    for name, sh in re.findall(r"(\w+)\s*=\s*\(\s*1\s*<<\s*(\d+)\s*\)", m.group(1)):
        (enum_attr if name.startswith("ATTR") else enum_elem)[name] = 1 << int(sh)
    need = ["EMPTY", "BLOCK", "RAW", "WHITESPACESENSITIVE", "HEADELEM", "STYLEELEM", "SCRIPTELEM"]
    for n in need:
        if n not in enum_elem:
            print("flag %s missing from eFlags" % n); return 1
    for n in ("ATTRURL", "ATTREMPTY"):
        if n not in enum_attr:
            print("flag %s missing from eFlags" % n); return 1
    src = strip_comments(open(SRC, encoding="utf-8", errors="replace").read())
    m = re.search(r"s_elementProperties\s*\[\s*\]\s*=\s*\{", src)
    if not m:
        print("s_elementProperties not found"); return 1
    table, _ = parse_braces(src, m.end() - 1)
    enum_all = dict(enum_elem); enum_all.update(enum_attr)
    entries = []
    for e in table:
        if not (isinstance(e, list) and len(e) == 3):
            print("unexpected entry shape: %r" % (e,)); return 1
        name = name_of(e[0])
        fl = flags_of(e[1], enum_elem)
        attrs = []
        for a in e[2]:
            if not (isinstance(a, list) and len(a) == 2):
                print("unexpected attribute entry %r" % (a,)); return 1
            an = name_of(a[0])
            af = flags_of(a[1], enum_attr)
            if an == "":
                break
            attrs.append((an, af))
        entries.append((name, fl, attrs))
    if not entries or entries[-1][0] != "":
        print("last entry is not the dummy entry"); return 1
    dummy = entries[-1]
    entries = entries[:-1]
    if len(entries) < 50:
        print("suspiciously small table (%d)" % len(entries)); return 1

    # the named-entity table of FormatterToHTML.cpp
    fth = strip_comments(open(os.path.join(common.REPO, "src/xalanc/XMLSupport/FormatterToHTML.cpp"), encoding="utf-8", errors="replace").read())
    m = re.search(r"FormatterToHTML::s_entities\s*\[\s*\]\s*=\s*\{", fth)
    if not m:
        print("s_entities not found"); return 1
    # entries between "#if 0" and "#endif" are compiled out; any other directive inside the table is not understood
    end = fth.index("};", m.end())
    body = re.sub(r"^[ \t]*#if[ \t]+0[ \t]*$.*?^[ \t]*#endif[ \t]*$", "", fth[m.end() - 1:end + 1], flags=re.S | re.M)
    if re.search(r"^[ \t]*#", body, re.M):
        print("preprocessor directive other than '#if 0' inside s_entities"); return 1
    etab, _ = parse_braces(body, 0)
    ents = []
    for e in etab:
        if not (isinstance(e, list) and len(e) == 3 and isinstance(e[2], list)):
            print("unexpected entity entry %r" % (e,)); return 1
        code, ln, nm = int(e[0]), int(e[1]), name_of(e[2])
        if len(nm) != ln:
            print("entity %d: length field %d, name %r" % (code, ln, nm)); return 1
        ents.append((code, nm))
    if len(ents) < 150:
        print("suspiciously small entity table (%d)" % len(ents)); return 1

    def lstr(x):
        return '"' + x + '"'
    out = []
    out.append("/- GENERATED by translate/c08_html_table.py from src/xalanc/XMLSupport/XalanHTMLElementsProperties.{cpp,hpp} — do not edit -/")
    out.append("namespace XalanModel.Generated.C08")
    for k in need:
        out.append("def flag%s : Nat := %d" % (k, enum_elem[k]))
    out.append("def flagATTRURL : Nat := %d" % enum_attr["ATTRURL"])
    out.append("def flagATTREMPTY : Nat := %d" % enum_attr["ATTREMPTY"])
    out.append("/-- (element name, flags, [(attribute name, flags)]) in source order; names are upper case ASCII, given as code points -/")
    out.append("def htmlTable : List (List Nat × Nat × List (List Nat × Nat)) := [")
    rows = []

    def codes(x):
        return "[" + ", ".join(str(ord(ch)) for ch in x) + "]"
    for name, fl, attrs in entries:
        rows.append("  (/- %s -/ %s, %d, [%s])" % (name, codes(name), fl, ", ".join("(/- %s -/ %s, %d)" % (a, codes(a), f) for a, f in attrs)))
    out.append(",\n".join(rows))
    out.append("]")
    out.append("/-- flags of the dummy entry returned for unknown element names -/")
    out.append("def htmlDummyFlags : Nat := %d" % dummy[1])
    out.append("/-- FormatterToHTML::s_entities in source order: (code point, entity name as code points) -/")
    out.append("def htmlEntities : List (Nat × List Nat) := [")
    out.append(",\n".join("  (%d, /- %s -/ %s)" % (c, nm, codes(nm)) for c, nm in ents))
    out.append("]")
    out.append("end XalanModel.Generated.C08")
    os.makedirs(common.GEN, exist_ok=True)
    p = os.path.join(common.GEN, "C08_HtmlTable.lean")
    txt = "\n".join(out) + "\n"
    if not os.path.exists(p) or open(p).read() != txt:
        open(p, "w").write(txt)
    os.makedirs(common.CACHE, exist_ok=True)
    json.dump({"flags": enum_elem, "attrflags": enum_attr, "dummy": dummy[1],
               "table": [{"name": n, "flags": f, "attrs": a} for n, f, a in entries],
               "source": [SRC, HDR]},
              open(os.path.join(common.CACHE, "c08_html_table.json"), "w"), indent=0)
    print("c08_html_table: %d elements, dummy flags %d, %d entities" % (len(entries), dummy[1], len(ents)))
    return 0


if __name__ == "__main__":
    sys.exit(main())
