#!/usr/bin/env python3
"""C13 translator: inventory of the places where the library asks `shouldStripSourceNode`.

Scans /repo's working tree (src/xalanc/**/*.cpp, *.hpp) for *calls* of shouldStripSourceNode (declarations and
definitions are recognised by their `const XalanText&` parameter and skipped) and writes
lean/XalanModel/Generated/C13_Sites.lean:  a list of (file, enclosing function signature, statement text).
Props/C13.lean proves that this list is exactly the list of observation paths the model accounts for
(`XalanModel.C13.expectedSites`), so removing, adding or re-wording a call makes a named theorem fail.
Exit status != 0 when the expected construct cannot be found at all.
"""
import os
import re
import sys

HERE = os.path.dirname(os.path.abspath(__file__))
ROOT = os.path.dirname(HERE)
sys.path.insert(0, ROOT)
from vlib import common  # noqa: E402

SRC = os.path.join(common.REPO, "src", "xalanc")
HEADER = re.compile(r"^\s*([A-Za-z_~][\w:~<>]*)\((.*)$")
KEYWORDS = {"if", "while", "for", "switch", "return", "assert", "catch", "sizeof"}


def norm(s):
    return re.sub(r"\s+", " ", s).strip()


def signature(lines, i):
    """nearest preceding `name(` line that starts a function *definition* (its parameter list is followed by `{`,
    `const {` or a constructor initialiser `:`), with the parameter list up to the closing parenthesis"""
    j = i
    while j >= 0:
        m = HEADER.match(lines[j])
        if (m and m.group(1).split("::")[-1] not in KEYWORDS and not lines[j].rstrip().endswith(";")
                and (m.group(2).strip() == "" or m.group(2).lstrip().startswith("const "))):
            txt = ""
            k = j
            depth = 0
            done = False
            while k < len(lines) and not done:
                for pos, ch in enumerate(lines[k]):
                    txt += ch
                    if ch == "(":
                        depth += 1
                    elif ch == ")":
                        depth -= 1
                        if depth == 0:
                            rest = (lines[k][pos + 1:] + " " + " ".join(lines[k + 1:k + 4])).strip()
                            rest = re.sub(r"^(const|throw\s*\(\s*\)|XALAN_\w+)\s*", "", rest).strip()
                            if rest.startswith("{") or rest.startswith(":"):
                                return norm(txt)
                            done = True
                            break
                txt += " "
                k += 1
        j -= 1
    return "?"


def statement(lines, i):
    prev = lines[i - 1].rstrip() if i > 0 else ""
    cur = lines[i]
    if prev and not prev.rstrip().endswith((";", "{", "}")) and not prev.strip().startswith("//") and "assert" not in prev:
        return norm(prev + " " + cur)
    return norm(cur)


def body_of(path, header_re):
    """text of the first function whose header matches header_re (brace matched), whitespace-normalised"""
    txt = open(path, encoding="utf-8", errors="replace").read()
    m = re.search(header_re, txt)
    if not m:
        return None
    i = txt.find("{", m.end())
    if i < 0:
        return None
    depth, j = 0, i
    while j < len(txt):
        if txt[j] == "{":
            depth += 1
        elif txt[j] == "}":
            depth -= 1
            if depth == 0:
                return norm(re.sub(r"//[^\n]*", "", txt[i:j + 1]))
        j += 1
    return None


def fact(body, rx):
    if body is None:
        return "?function-not-found"
    ms = re.findall(rx, body)
    if len(ms) != 1:
        return "?%d-matches" % len(ms)
    return norm(ms[0] if isinstance(ms[0], str) else ms[0][0])


def facts():
    """the statements of the ordering/decision code the Lean model transcribes"""
    sty = os.path.join(SRC, "XSLT", "Stylesheet.cpp")
    styh = os.path.join(SRC, "XSLT", "Stylesheet.hpp")
    root = os.path.join(SRC, "XSLT", "StylesheetRoot.cpp")
    rooth = os.path.join(SRC, "XSLT", "StylesheetRoot.hpp")
    add = body_of(sty, r"Stylesheet::addWhitespaceElement\(")
    post = body_of(sty, r"Stylesheet::postConstruction\(")
    imp = body_of(styh, r"\baddImport\(Stylesheet\*")
    internal = body_of(root, r"StylesheetRoot::internalShouldStripSourceNode\(")
    should = body_of(rooth, r"\bshouldStripSourceNode\(const XalanText&")
    walk = body_of(root, r"\nisXMLSpacePreserved\(const XalanNode\*")

    def wfact(rx):
        return "absent" if walk is None else fact(walk, rx)
    return [
        ("addWhitespaceElement.compare", fact(add, r"(if \(theMatchScore [<>=!]+ \(\*i\)\.getMatchScore\(\)\))")),
        ("addWhitespaceElement.insert", fact(add, r"(m_whitespaceElements\.insert\([^;]*\);)")),
        ("addImport.insert", fact(imp, r"(m_imports\.insert\([^;]*\);)")),
        ("postConstruction.merge", fact(post, r"(m_whitespaceElements\.insert\([^;]*\);)")),
        ("postConstruction.mergeLoopStart", fact(post, r"(StylesheetVectorType::iterator i = m_imports\.\w+\(\);)")),
        ("internalShouldStrip.firstMatch", fact(internal, r"(if \(theTester\(\*theElement\) != XPath::eMatchScoreNone\) \{ return [^;]*; \})")),
        ("internalShouldStrip.parentKind", fact(internal, r"(if \(parent->getNodeType\(\) == XalanNode::\w+\))")),
        ("internalShouldStrip.noParent", fact(internal, r"(if \(parent == 0\) return \w+;)")),
        ("internalShouldStrip.default", fact(internal, r"\} (return \w+;) \}$")),
        # the xml:space walk (XSLT 3.4, third bullet); "absent" on a tree without it (known finding C13-xml-space-preserve-ignored)
        ("xmlSpace.loop", wfact(r"(while \(theElement != 0 && theElement->getNodeType\(\) == XalanNode::ELEMENT_NODE\))")),
        ("xmlSpace.lookup", wfact(r"(theAttributes->getNamedItem\(Constants::\w+\);)")),
        ("xmlSpace.decide", wfact(r"(if \(theSpaceAttribute != 0\) \{ return equals\( theSpaceAttribute->getNodeValue\(\), Constants::\w+\); \})")),
        ("xmlSpace.ascend", wfact(r"(theElement = theElement->getParentNode\(\);)")),
        ("xmlSpace.default", wfact(r"\} (return \w+;) \}$")),
        ("shouldStrip.guard", fact(should, r"(if \(hasPreserveOrStripSpaceElements\(\) == true && theNode\.isWhitespace\(\) == true\) \{ return internalShouldStripSourceNode\(theNode\); \} return false;)")),
    ]


VALUE_FUNCS = r"\b(getNodeData|getChildData|getChildrenData|doGetNodeData)\s*\("
SKIP_DIRS = ("Deprecated", "TestXPath", "TestXSLT", "Harness", "XalanExe", "XalanExtensions", "XalanEXSLT")


def call_text(txt, i):
    """text of the call starting at index i (the function name) up to the matching ')'"""
    j = txt.find("(", i)
    depth, k = 0, j
    while k < len(txt):
        if txt[k] == "(":
            depth += 1
        elif txt[k] == ")":
            depth -= 1
            if depth == 0:
                return txt[i:k + 1], txt[j + 1:k]
        k += 1
    return txt[i:], ""


def split_args(a):
    out, depth, cur = [], 0, ""
    for ch in a:
        if ch in "([":
            depth += 1
        elif ch in ")]":
            depth -= 1
        if ch == "," and depth == 0:
            out.append(cur.strip())
            cur = ""
        else:
            cur += ch
    if cur.strip():
        out.append(cur.strip())
    return out


def value_sites():
    """every call that computes a node's string value or walks its children for it: DOMServices::getNodeData and, inside
    DOMServices itself, getChildData / getChildrenData / doGetNodeData — with whether the call hands on an execution
    context (the strip-aware overload) or not.  (file, enclosing function, call, "ctx" | "noctx")"""
    res = []
    for base, dirs, files in sorted(os.walk(SRC)):
        if any(d in base.split(os.sep) for d in SKIP_DIRS):
            continue
        for f in sorted(files):
            if not f.endswith((".cpp", ".hpp")):
                continue
            p = os.path.join(base, f)
            raw = open(p, encoding="utf-8", errors="replace").read()
            txt = re.sub(r"//[^\n]*", lambda m: " " * len(m.group(0)), raw)      # keep offsets
            lines = txt.split("\n")
            starts = [0]
            for ln in lines:
                starts.append(starts[-1] + len(ln) + 1)
            inside = f.startswith("DOMServices.")
            rx = VALUE_FUNCS if inside else r"\bgetNodeData\s*\("
            for m in re.finditer(rx, txt):
                call, args = call_text(txt, m.start())
                al = split_args(args)
                if not al:
                    continue
                if re.match(r"^(const\s+)?(Xalan\w+|ExecutionContext|FormatterListener|XalanDOMString)\s*[&*]\s*\w*$", norm(al[0])):
                    continue                          # declaration / definition, not a call
                # line index of the call
                li = 0
                lo, hi = 0, len(starts) - 1
                while lo < hi:
                    mid = (lo + hi + 1) // 2
                    if starts[mid] <= m.start():
                        lo = mid
                    else:
                        hi = mid - 1
                li = lo
                aware = any(re.search(r"[cC]ontext", a) for a in al[1:])
                text = norm(call)
                if inside:
                    # the branch the call sits in (the fast-path wrappers test hasPreserveOrStripSpaceConditions())
                    for back in range(1, 5):
                        g = lines[li - back].strip() if li - back >= 0 else ""
                        if g.startswith("if") or g.startswith("else"):
                            text = norm(g) + " : " + text
                            break
                        if g.endswith(")") and not g.startswith("{") and lines[li - back - 1].strip().startswith(("static", "inline")):
                            break
                res.append((os.path.relpath(p, SRC), signature(lines, li), text, "ctx" if aware else "noctx"))
    return res


def context_forwarding():
    """StylesheetExecutionContextDefault owns an inner XPathExecutionContextDefault that never strips
    (`shouldStripSourceNode` returns false there).  Every statement that touches the inner context is listed with
    its method: services (node stack, caches, prefix resolver, document registry, number formatting, availability tests)
    may be delegated; anything that lets code observe nodes must be handed `*this`."""
    p = os.path.join(SRC, "XSLT", "StylesheetExecutionContextDefault.cpp")
    raw = open(p, encoding="utf-8", errors="replace").read()
    txt = re.sub(r"//[^\n]*", lambda m: " " * len(m.group(0)), raw)
    lines = txt.split("\n")
    res = []
    i = 0
    while i < len(lines):
        if "m_xpathExecutionContextDefault" in lines[i] and "m_xpathExecutionContextDefault(" not in lines[i]:
            # the whole statement
            j = i
            stmt = lines[i]
            while ";" not in lines[j] and j + 1 < len(lines):
                j += 1
                stmt += " " + lines[j]
            name = "?"
            for k in range(i, -1, -1):
                mm = re.match(r"^(StylesheetExecutionContextDefault::[\w~]+)\s*\(", lines[k])
                if mm:
                    name = mm.group(1)
                    break
            res.append((name, norm(stmt)))
            i = j + 1
        else:
            i += 1
    inner = os.path.join(SRC, "XPath", "XPathExecutionContextDefault.cpp")
    b = body_of(inner, r"XPathExecutionContextDefault::shouldStripSourceNode\(")
    res.append(("XPathExecutionContextDefault::shouldStripSourceNode", b if b is not None else "?function-not-found"))
    return res


def lean_str(s):
    return '"' + s.replace("\\", "\\\\").replace('"', '\\"') + '"'


def main():
    sites = []
    for base, _, files in sorted(os.walk(SRC)):
        for f in sorted(files):
            if not f.endswith((".cpp", ".hpp")):
                continue
            p = os.path.join(base, f)
            lines = open(p, encoding="utf-8", errors="replace").read().split("\n")
            for i, ln in enumerate(lines):
                if "shouldStripSourceNode" not in ln or ln.strip().startswith(("//", "*", "/*")):
                    continue
                m = re.search(r"shouldStripSourceNode\s*\(([^)]*)", ln)
                if not m:
                    continue
                if m.group(1).lstrip().startswith("const XalanText&"):
                    continue            # declaration or definition
                rel = os.path.relpath(p, SRC)
                sites.append((rel, signature(lines, i), statement(lines, i)))
    if not sites:
        print("c13_sites: no call of shouldStripSourceNode found under %s" % SRC)
        return 1
    sites.sort()
    out = ["/- GENERATED by translate/c13_sites.py from %s — do not edit -/" % SRC,
           "namespace XalanModel.Generated.C13_Sites",
           "",
           "/-- (file, enclosing function, statement) of every call of `shouldStripSourceNode` -/",
           "def sites : List (String × String × String) := ["]
    out.append(",\n".join("  (%s,\n   %s,\n   %s)" % tuple(lean_str(x) for x in s) for s in sites))
    out += ["]", "",
            "/-- the statements of addWhitespaceElement / addImport / postConstruction / internalShouldStripSourceNode /",
            "shouldStripSourceNode that fix ordering and decision (whitespace-normalised source text) -/",
            "def facts : List (String × String) := ["]
    fs = facts()
    out.append(",\n".join("  (%s,\n   %s)" % (lean_str(a), lean_str(b)) for a, b in fs))
    vs = sorted(value_sites())
    outside = [v for v in vs if not v[0].startswith("DOMSupport/DOMServices.")]
    funnel = [v for v in vs if v[0].startswith("DOMSupport/DOMServices.") and "ExecutionContext&" in v[1]]
    out += ["]", "",
            "/-- (file, enclosing function, call, ctx|noctx): every call of DOMServices::getNodeData outside DOMServices — the",
            "places that compute a node's string value (key(), id(), string(), normalize-space(), string-length(), sum(),",
            "value-of, sort keys, key tables, node-set conversions …) and whether they hand on the execution context -/",
            "def valueSitesOutside : List (String × String × String × String) := ["]
    out.append(",\n".join("  (%s, %s,\n   %s, %s)" % tuple(lean_str(x) for x in v) for v in outside))
    out += ["]", "",
            "/-- the same inside DOMServices, for the functions that receive an execution context (the strip-aware funnel):",
            "getNodeData / getChildData / getChildrenData / doGetNodeData calls and whether they hand the context on -/",
            "def valueSitesFunnel : List (String × String × String × String) := ["]
    out.append(",\n".join("  (%s, %s,\n   %s, %s)" % tuple(lean_str(x) for x in v) for v in funnel))
    cf = context_forwarding()
    out += ["]", "",
            "/-- (method of StylesheetExecutionContextDefault, statement) for every statement that touches the inner, never",
            "stripping XPathExecutionContextDefault, plus that inner context's shouldStripSourceNode -/",
            "def contextForwarding : List (String × String) := ["]
    out.append(",\n".join("  (%s,\n   %s)" % (lean_str(a), lean_str(b)) for a, b in cf))
    out += ["]", "", "end XalanModel.Generated.C13_Sites", ""]
    os.makedirs(common.GEN, exist_ok=True)
    with open(os.path.join(common.GEN, "C13_Sites.lean"), "w", encoding="utf-8") as h:
        h.write("\n".join(out))
    print("c13_sites: %d call sites, %d facts (%d not found), %d string-value sites (%d without context)" % (
        len(sites), len(fs), sum(1 for _, b in fs if b.startswith("?")), len(outside) + len(funnel), sum(1 for v in outside + funnel if v[3] == "noctx")))
    return 0


if __name__ == "__main__":
    sys.exit(main())
