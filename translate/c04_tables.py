#!/usr/bin/env python3
"""C04 translator: regenerates lean/XalanModel/Generated/C04_Tables.lean from /repo's current source.

Extracted (regex over the source text, constants resolved through XalanUnicode.hpp):
  * XalanXMLSerializerBase.hpp: enum eNone/eAttr/eBoth/eForb/eCRFb
  * XalanXMLSerializerBase.cpp: CharFunctor1_0/1_1 s_lastSpecial and s_specialChars (missing trailing
    initialisers are zero, as in C++), every UTF8::/UTF16:: string constant
  * XalanXMLSerializerBase.hpp: the comparison operators used by attribute()/content()/isForbidden()/
    isCharRefForbidden()/range() of both functors
  * XalanUTF8Writer.hpp / XalanUTF16Writer.hpp / XalanOtherEncodingWriter.hpp: kBufferSize
  * XalanOutputStream.hpp: eDefaultBufferSize
  * the bulk entry write(const value_type*, size_type) of XalanUTF8Writer / XalanUTF16Writer, token by token: the three
    regimes (longer than the buffer: [flushBuffer();] direct m_writer.write; else flush when it does not fit, copy) -
    whether flushBuffer() precedes the direct write is emitted as bulkFlushUTF8 / bulkFlushUTF16; flushBuffer() itself;
    XalanOtherEncodingWriter::write(const XalanDOMChar*, size_type): the unit-by-unit loop or the loop over the positional
    write with the character-reference functor (otherBulkPairAware); no direct path to the stream in either form;
    XalanOutputStream::write(const XalanDOMChar*, size_type): flush when the run does not fit, direct write only with an
    empty buffer (bulkFlushStream); XalanOutputStream::flushBuffer(bool) token by token, its hold-back condition term
    by term (streamHoldBack), isLeadingSurrogate (isLeadUnit)
  * FormatterListener.cpp s_piTarget / s_piData (the raw-text marker PI); XalanXMLSerializerBase::processingInstruction /
    characters / cdata token by token: whether m_nextIsRaw is cleared when it is honoured (rawResetCharacters / rawResetCData)
  * XalanTranscodingServices::getMaximumCharacterValue(encoding): the chain of exact name comparisons -> maxCharTable,
    maxCharDefault; firstUnrepresentable (from Python's codecs) for the repertoire theorem
  * XalanOutputStream::canTranscodeTo: the transcoder object that answers (m_transcoder = the one that writes the
    document, or m_probeTranscoder = a second one made by setOutputEncoding and never used by transcode())
  * FormatterToXMLUnicode.hpp, writeCDATAChars: the look-ahead guard of the "]]>" test (as an unsigned
    64-bit expression), which constant is written when `outsideCDATA == true` in that branch, whether the
    section is re-opened at the end of the function; writeCDATA: the condition of the final close.
A construct that cannot be found makes the translator fail (= obligation broken).
"""
import json
import os
import re
import sys

ROOT = os.path.dirname(os.path.dirname(os.path.abspath(__file__)))
REPO = os.environ.get("VERIF_REPO", "/repo")
OUT = os.path.join(ROOT, "lean", "XalanModel", "Generated", "C04_Tables.lean")
SRC = os.path.join(REPO, "src", "xalanc")


def die(msg):
    print("c04_tables: cannot translate: " + msg)
    sys.exit(1)


def read(rel):
    p = os.path.join(SRC, rel)
    try:
        return open(p, encoding="utf-8", errors="replace").read()
    except OSError as e:
        die(str(e))


def strip_comments(s):
    s = re.sub(r"/\*.*?\*/", " ", s, flags=re.S)
    return re.sub(r"//[^\n]*", " ", s)


def main():
    uni = strip_comments(read("PlatformSupport/XalanUnicode.hpp"))
    consts = {m.group(1): int(m.group(2), 0) for m in
              re.finditer(r"static\s+const\s+XalanDOMChar\s+(char\w+)\s*=\s*(0x[0-9A-Fa-f]+|\d+)\s*;", uni)}
    if len(consts) < 100:
        die("XalanUnicode constants not found")

    hpp = strip_comments(read("XMLSupport/XalanXMLSerializerBase.hpp"))
    cpp = strip_comments(read("XMLSupport/XalanXMLSerializerBase.cpp"))

    enum = {}
    for name in ("eNone", "eAttr", "eBoth", "eForb", "eCRFb"):
        m = re.search(r"\b%s\s*=\s*(\d+)u?\b" % name, hpp)
        if not m:
            die("enum value %s not found" % name)
        enum[name] = int(m.group(1))

    tables = {}
    for fn in ("CharFunctor1_0", "CharFunctor1_1"):
        m = re.search(r"%s::s_lastSpecial\s*=\s*(0x[0-9a-fA-F]+|\d+)u?\s*;" % fn, cpp)
        if not m:
            die("%s::s_lastSpecial not found" % fn)
        last = int(m.group(1), 0)
        m = re.search(r"%s::s_specialChars\s*\[\s*s_lastSpecial\s*\+\s*1\s*\]\s*=\s*\{(.*?)\}\s*;" % fn, cpp, re.S)
        if not m:
            die("%s::s_specialChars not found" % fn)
        items = [x.strip() for x in m.group(1).split(",") if x.strip()]
        vals = []
        for it in items:
            if it in enum:
                vals.append(enum[it])
            elif re.fullmatch(r"\d+u?", it):
                vals.append(int(it.rstrip("u")))
            else:
                die("unknown table entry %r in %s" % (it, fn))
        if len(vals) > last + 1:
            die("%s has more initialisers than entries" % fn)
        vals += [0] * (last + 1 - len(vals))      # C++ zero-initialises the rest
        tables[fn] = (last, vals)

    # predicate operators of the functors
    preds = {}
    for fn in ("CharFunctor1_0", "CharFunctor1_1"):
        m = re.search(r"class\s+\w*\s*%s\s*\{(.*?)\n\s*private:" % fn, hpp, re.S)
        if not m:
            die("class %s not found" % fn)
        body = m.group(1)
        for meth in ("attribute", "content", "isForbidden", "isCharRefForbidden"):
            mm = re.search(r"\b%s\s*\(\s*XalanDOMChar\s+theChar\s*\)\s*const\s*\{\s*return\s+theChar\s*>\s*s_lastSpecial\s*\?\s*false\s*:\s*"
                           r"s_specialChars\s*\[\s*theChar\s*\]\s*(>|==|>=|<|!=)\s*(\w+)\s*;" % meth, body)
            if not mm or mm.group(2) not in enum:
                die("%s::%s has an unexpected form" % (fn, meth))
            preds[(fn, meth)] = (mm.group(1), enum[mm.group(2)])
        mm = re.search(r"\brange\s*\(\s*XalanDOMChar\s+theChar\s*\)\s*const\s*\{\s*(?:assert\s*\([^;]*\)\s*;)?\s*return\s+theChar\s*>\s*s_lastSpecial\s*;", body)
        if not mm:
            die("%s::range has an unexpected form" % fn)

    # string constants
    strings = {}
    for cls in ("UTF8", "UTF16"):
        for m in re.finditer(r"XalanXMLSerializerBase::%s::(s_\w+)\s*\[\s*\]\s*=\s*\{(.*?)\}\s*;" % cls, cpp, re.S):
            vals = []
            for it in [x.strip() for x in m.group(2).split(",") if x.strip()]:
                mm = re.fullmatch(r"(?:char|XalanDOMChar)\s*\(\s*(?:XalanUnicode::(\w+)|(\d+))\s*\)|XalanUnicode::(\w+)", it)
                if not mm:
                    die("string constant %s::%s: cannot read %r" % (cls, m.group(1), it))
                nm = mm.group(1) or mm.group(3)
                if nm:
                    if nm not in consts:
                        die("unknown XalanUnicode::%s" % nm)
                    vals.append(consts[nm])
                else:
                    vals.append(int(mm.group(2)))
            if not vals or vals[-1] != 0:
                die("string constant %s::%s is not NUL-terminated" % (cls, m.group(1)))
            strings[(cls, m.group(1))] = vals[:-1]
    need = ["s_cdataOpenString", "s_cdataCloseString", "s_lessThanEntityString", "s_greaterThanEntityString",
            "s_ampersandEntityString", "s_quoteEntityString", "s_xmlHeaderStartString", "s_xmlHeaderEncodingString",
            "s_xmlHeaderEndString", "s_defaultVersionString"]
    for cls in ("UTF8", "UTF16"):
        for n in need:
            if (cls, n) not in strings:
                die("string constant %s::%s not found" % (cls, n))

    # buffer sizes
    sizes = {}
    for tag, rel in (("utf8", "XMLSupport/XalanUTF8Writer.hpp"), ("utf16", "XMLSupport/XalanUTF16Writer.hpp"),
                     ("other", "XMLSupport/XalanOtherEncodingWriter.hpp")):
        m = re.search(r"\bkBufferSize\s*=\s*(\d+)u?\b", strip_comments(read(rel)))
        if not m:
            die("kBufferSize not found in " + rel)
        sizes[tag] = int(m.group(1))
    m = re.search(r"\beDefaultBufferSize\s*=\s*(\d+)u?\b", strip_comments(read("PlatformSupport/XalanOutputStream.hpp")))
    if not m:
        die("eDefaultBufferSize not found")
    sizes["stream"] = int(m.group(1))

    # XalanOutputStream::transcode: initial size of the destination, as a multiple of the source length
    xos = strip_comments(read("PlatformSupport/XalanOutputStream.cpp"))
    m = re.search(r"size_type\s+theDestinationSize\s*=\s*theBufferLength\s*\*\s*(\d+)\s*;", xos)
    if not m:
        die("XalanOutputStream::transcode: initial theDestinationSize has an unexpected form")
    sizes["transcode_factor"] = int(m.group(1))

    # the bulk entry write(const value_type*, size_type) of the writers: three regimes
    #   longer than the buffer: [flushBuffer();] m_writer.write(theChars, 0, theLength)   <- the flush is read as a flag
    #   else: if (m_bufferRemaining < theLength) flushBuffer(); copy; m_bufferRemaining -= theLength
    bulk_flush = {}
    for tag, rel, limit in (("utf8", "XMLSupport/XalanUTF8Writer.hpp", r"(?:sizeof\s*\(\s*m_buffer\s*\)|kBufferSize)"),
                            ("utf16", "XMLSupport/XalanUTF16Writer.hpp", r"kBufferSize")):
        src = strip_comments(read(rel))
        m = re.search(r"void\s+write\s*\(\s*const\s+value_type\s*\*\s*theChars\s*,\s*size_type\s+theLength\s*\)\s*\{(.*?)\n    \}\n", src, re.S)
        if not m:
            die("%s: write(const value_type*, size_type) not found" % rel)
        body = m.group(1)
        if "#if" in body:
            mm = re.search(r"#if\s+!defined\s*\(\s*XALAN_DEBUG\s*\)(.*?)#else(.*?)#endif", body, re.S)
            if not mm or re.sub(r"\s+", "", mm.group(2)) != "for(size_typei=0;i<theLength;++i){write(theChars[i]);}":
                die("%s: write(const value_type*, size_type): unexpected preprocessor structure" % rel)
            body = mm.group(1)
        b = re.sub(r"\s+", " ", body).strip()
        mm = re.fullmatch(r"if \(theLength > " + limit + r"\) \{ (flushBuffer\(\); )?m_writer\.write\(theChars, 0, theLength\); \} else \{ "
                          r"if \(m_bufferRemaining < theLength\) \{ flushBuffer\(\); \} "
                          r"for ?\(size_type i = 0; i < theLength; \+\+i\) \{ \*m_bufferPosition = theChars\[i\]; \+\+m_bufferPosition; \} "
                          r"m_bufferRemaining -= theLength; \}", b)
        if not mm:
            die("%s: write(const value_type*, size_type) has an unexpected form: %s" % (rel, b[:300]))
        bulk_flush[tag] = mm.group(1) is not None
        if tag == "utf8" and not re.search(r"\bvalue_type\s+m_buffer\s*\[\s*kBufferSize\s*\]", src):
            die("XalanUTF8Writer: m_buffer is not value_type[kBufferSize] (sizeof(m_buffer) is read as kBufferSize)")
        if not re.search(r"flushBuffer\s*\(\s*\)\s*\{\s*m_writer\.write\s*\(\s*m_buffer\s*,\s*0\s*,\s*m_bufferPosition\s*-\s*m_buffer\s*\)\s*;\s*"
                         r"m_bufferPosition\s*=\s*m_buffer\s*;\s*m_bufferRemaining\s*=\s*kBufferSize\s*;\s*\}", src):
            die("%s: flushBuffer has an unexpected form" % rel)
    # XalanOtherEncodingWriter has no bulk path: write(const XalanDOMChar*, size_type) goes unit by unit
    oth = strip_comments(read("XMLSupport/XalanOtherEncodingWriter.hpp"))
    m = re.search(r"void\s+write\s*\(\s*const\s+XalanDOMChar\s*\*\s*theChars\s*,\s*size_type\s+theLength\s*\)\s*\{(.*?)\n    \}\n", oth, re.S)
    ob = re.sub(r"\s+", "", m.group(1)) if m else ""
    if ob == "for(size_typei=0;i<theLength;++i){write(theChars[i]);}":
        other_bulk_pair_aware = False          # each UTF-16 unit by itself: a pair becomes two failure-handler references
    elif ob == "for(size_typei=0;i<theLength;++i){i=write(theChars,i,theLength,m_charRefFunctor);}":
        other_bulk_pair_aware = True           # the positional write decodes the pair first
    else:
        die("XalanOtherEncodingWriter::write(const XalanDOMChar*, size_type) is neither the unit-by-unit loop nor the "
            "loop over the positional write: " + ob[:200])
    if not re.search(r"flushBuffer\s*\(\s*\)\s*\{\s*m_writer\.write\s*\(\s*m_buffer\s*,\s*0\s*,\s*m_bufferPosition\s*-\s*m_buffer\s*\)\s*;\s*"
                     r"m_bufferPosition\s*=\s*m_buffer\s*;\s*m_bufferRemaining\s*=\s*kBufferSize\s*;\s*\}", oth):
        die("XalanOtherEncodingWriter::flushBuffer has an unexpected form")
    # XalanOutputStream::write(const XalanDOMChar*, size_type) and flushBuffer(bool), token by token
    m = re.search(r"XalanOutputStream::write\s*\(\s*const\s+XalanDOMChar\s*\*\s*theBuffer\s*,\s*size_type\s+theBufferLength\s*\)\s*\{(.*?)\n\}\n", xos, re.S)
    if not m:
        die("XalanOutputStream::write(const XalanDOMChar*, size_type) not found")
    b = re.sub(r"\s+", " ", m.group(1)).strip()
    mm = re.fullmatch(r"assert\(theBuffer != 0\); (if \(theBufferLength \+ m_buffer\.size\(\) > m_bufferSize\) \{ flushBuffer\(true\); \} )?"
                      r"if \(theBufferLength > m_bufferSize &&( m_buffer\.empty\(\) == true &&)? \(m_writeAsUTF16 == true \|\| "
                      r"isLeadingSurrogate\(theBuffer\[theBufferLength - 1\]\) == false\)\) \{ doWrite\(theBuffer, theBufferLength\); \} else \{ "
                      r"m_buffer\.insert\(m_buffer\.end\(\), theBuffer, theBuffer \+ theBufferLength\); "
                      r"if \(theBufferLength > m_bufferSize\) \{ flushBuffer\(true\); \} \}", b)
    if not mm:
        die("XalanOutputStream::write(const XalanDOMChar*, size_type) has an unexpected form: " + b[:400])
    # ordered iff the direct write happens only with an empty buffer (the guard); the flush in front makes the buffer
    # empty (up to a held-back surrogate half, which then takes the buffered path)
    bulk_flush["stream"] = mm.group(2) is not None
    stream_flush_first = mm.group(1) is not None
    if not stream_flush_first:
        die("XalanOutputStream::write: the flush of a buffer that cannot take the run is missing")
    m = re.search(r"XalanOutputStream::flushBuffer\s*\(\s*bool\s+fHoldBackSurrogate\s*\)\s*\{(.*?)\n\}\n", xos, re.S)
    if not m:
        die("XalanOutputStream::flushBuffer(bool) not found")
    b = re.sub(r"\s+", " ", m.group(1)).strip()
    mm = re.fullmatch(r"if \(m_buffer\.empty\(\) == false\) \{ assert\(size_type\(m_buffer\.size\(\)\) == m_buffer\.size\(\)\); "
                      r"const XalanDOMChar theLast = m_buffer\.back\(\); const bool fHoldBack = (.*?); "
                      r"const size_type theLength = size_type\(m_buffer\.size\(\)\) - \(fHoldBack == true \? 1 : 0\); "
                      r"\{ CollectionClearGuard<BufferType> theGuard\(m_buffer\); if \(theLength != 0\) \{ doWrite\(&\*m_buffer\.begin\(\), theLength\); \} \} "
                      r"if \(fHoldBack == true\) \{ m_buffer\.push_back\(theLast\); \} \}", b)
    if not mm:
        die("XalanOutputStream::flushBuffer(bool) has an unexpected form: " + b[:500])
    atoms = [a.strip() for a in mm.group(1).split("&&")]
    ATOM = {"fHoldBackSurrogate == true": "hold", "m_writeAsUTF16 == false": "!asUTF16", "isLeadingSurrogate(theLast) == true": "isLeadUnit last"}
    hold_terms = []
    for a in atoms:
        if a in ATOM:
            hold_terms.append(ATOM[a])
            continue
        m2 = re.fullmatch(r"m_buffer\.size\(\) (<=|<|>=|>|==|!=) m_bufferSize", a)
        if m2:
            hold_terms.append("decide (bufLen %s cap)" % {"<=": "≤", "<": "<", ">=": "≥", ">": ">", "==": "=", "!=": "≠"}[m2.group(1)])
            continue
        die("XalanOutputStream::flushBuffer(bool): unknown term in the hold-back condition: " + a)
    xos_hpp = strip_comments(read("PlatformSupport/XalanOutputStream.hpp"))
    m2 = re.search(r"isLeadingSurrogate\s*\(\s*XalanDOMChar\s+theChar\s*\)\s*\{\s*return\s+theChar\s*>=\s*(0x[0-9A-Fa-f]+)u?\s*&&\s*theChar\s*<=\s*(0x[0-9A-Fa-f]+)u?\s*;", xos_hpp)
    if not m2:
        die("XalanOutputStream::isLeadingSurrogate has an unexpected form")
    lead_lo, lead_hi = int(m2.group(1), 16), int(m2.group(2), 16)

    # XalanOutputStream::canTranscodeTo: which transcoder object answers?  (the object that transcodes the document:
    # a stateful converter loses its shift state; or a second one made for the purpose)
    m = re.search(r"XalanOutputStream::canTranscodeTo\s*\(\s*XalanUnicodeChar\s+theChar\s*\)\s*const\s*\{\s*if\s*\(\s*(m_\w+)\s*!=\s*0\s*\)\s*\{\s*"
                  r"return\s+(m_\w+)->canTranscodeTo\s*\(\s*theChar\s*\)\s*;", xos)
    if not m or m.group(1) != m.group(2):
        die("XalanOutputStream::canTranscodeTo has an unexpected form")
    if m.group(1) == "m_transcoder":
        probe_own = False
    elif m.group(1) == "m_probeTranscoder":
        if not re.search(r"m_probeTranscoder\s*=\s*XalanTranscodingServices::makeNewTranscoder\s*\(", xos) or \
           re.search(r"m_probeTranscoder\s*->\s*transcode\s*\(", xos) or \
           not re.search(r"m_transcoder\s*->\s*transcode\s*\(", xos):
            die("XalanOutputStream: m_probeTranscoder is not a separate transcoder used for canTranscodeTo only")
        probe_own = True
    else:
        die("XalanOutputStream::canTranscodeTo asks an unknown object: " + m.group(1))

    # ---- the raw-text marker PI and m_nextIsRaw (XalanXMLSerializerBase::processingInstruction / characters / cdata)
    def dom_string(src, qualified):
        mm = re.search(re.escape(qualified) + r"\s*\[\s*\]\s*=\s*\{(.*?)\}\s*;", src, re.S)
        if not mm:
            die("string constant %s not found" % qualified)
        vals = []
        for it in [x.strip() for x in mm.group(1).split(",") if x.strip()]:
            m2 = re.fullmatch(r"XalanUnicode::(\w+)|(\d+)", it)
            if not m2:
                die("%s: cannot read %r" % (qualified, it))
            vals.append(consts[m2.group(1)] if m2.group(1) else int(m2.group(2)))
        if not vals or vals[-1] != 0:
            die("%s is not zero-terminated" % qualified)
        return vals[:-1]
    fl_cpp = strip_comments(read("PlatformSupport/FormatterListener.cpp"))
    marker_target = dom_string(fl_cpp, "FormatterListener::s_piTarget")
    marker_data = dom_string(fl_cpp, "FormatterListener::s_piData")
    def body_of(name, args):
        mm = re.search(r"XalanXMLSerializerBase::%s\s*\(%s\)\s*\{(.*?)\n\}\n" % (name, args), cpp, re.S)
        if not mm:
            die("XalanXMLSerializerBase::%s not found" % name)
        return re.sub(r"\s+", " ", mm.group(1)).strip()
    b = body_of("processingInstruction", r"[^)]*")
    if b != ("if(equals(target, length(target), s_piTarget, s_piTargetLength) == true && equals(data, length(data), s_piData, s_piDataLength) == true) "
             "{ m_nextIsRaw = true; } else { writeProcessingInstruction(target, data); }"):
        die("XalanXMLSerializerBase::processingInstruction has an unexpected form: " + b[:300])
    raw_reset = {}
    for fn, plain in (("characters", "writeCharacters"), ("cdata", "writeCDATA")):
        b = body_of(fn, r"[^)]*")
        mm = re.fullmatch(r"if ?\(length != 0\) \{ if ?\(m_nextIsRaw(?: == true)?\) \{ (m_nextIsRaw = false; )?charactersRaw\((?:chars|ch), length\); \} "
                          r"else \{ %s\((?:chars|ch), length\); \} \}" % plain, b)
        if not mm:
            die("XalanXMLSerializerBase::%s has an unexpected form: %s" % (fn, b[:300]))
        raw_reset[fn] = mm.group(1) is not None

    # ---- XalanTranscodingServices::getMaximumCharacterValue(encoding): exact (case-insensitive) name -> value, default
    xts = strip_comments(read("PlatformSupport/XalanTranscodingServices.cpp"))
    mm = re.search(r"XalanTranscodingServices::getMaximumCharacterValue\s*\(\s*const\s+XalanDOMString\s*&\s*theEncoding\s*\)\s*\{(.*?)\n\}\n", xts, re.S)
    if not mm:
        die("getMaximumCharacterValue(encoding) not found")
    b = re.sub(r"\s+", " ", mm.group(1)).strip()
    max_char_table = []
    pos = 0
    branch = re.compile(r"(?:else )?if \(((?:compareIgnoreCaseASCII\(theEncoding, s_\w+\) == 0(?: \|\| )?)+)\) \{ return static_cast<XalanDOMChar>\((0x[0-9A-Fa-f]+)u?\); \} ")
    while True:
        m2 = branch.match(b, pos)
        if not m2:
            break
        for nm in re.findall(r"compareIgnoreCaseASCII\(theEncoding, (s_\w+)\) == 0", m2.group(1)):
            max_char_table.append(("".join(chr(c) for c in dom_string(xts, "XalanTranscodingServices::" + nm)), int(m2.group(2), 16)))
        pos = m2.end()
    m2 = re.fullmatch(r"else \{ return static_cast<XalanDOMChar>\((0x[0-9A-Fa-f]+)u?\); \}", b[pos:])
    if not m2 or not max_char_table:
        die("getMaximumCharacterValue(encoding): not a chain of exact name comparisons with a default: " + b[pos:pos + 300])
    max_char_default = int(m2.group(1), 16)
    # repertoire: for each encoding the first scalar value (surrogates skipped) that an independent codec cannot encode
    REPERTOIRE = [("US-ASCII", "ascii"), ("UTF-8", "utf_8"), ("UTF-16", "utf_16_le"), ("UTF-16LE", "utf_16_le"), ("UTF-16BE", "utf_16_be"),
                  ("UTF-32", "utf_32_le"), ("SHIFT_JIS", "shift_jis"), ("KOI8-R", "koi8_r")] + \
                 [("ISO-8859-%d" % n, "iso8859_%d" % n) for n in (1, 2, 3, 4, 5, 6, 7, 8, 9, 10, 11, 13, 14, 15, 16)] + \
                 [("WINDOWS-125%d" % n, "cp125%d" % n) for n in range(0, 9)]
    first_gap = []
    for nm, codec in REPERTOIRE:
        c = 0
        while c < 0x110000:
            if not (0xD800 <= c <= 0xDFFF):
                try:
                    chr(c).encode(codec, "strict")
                except UnicodeError:
                    break
            c += 1
        first_gap.append((nm, c))

    # CDATA logic of FormatterToXMLUnicode
    uni_hpp = strip_comments(read("XMLSupport/FormatterToXMLUnicode.hpp"))
    m = re.search(r"\bvoid\s+writeCDATAChars\s*\(([^)]*)\)\s*\{(.*?)\n    \}\n", uni_hpp, re.S)
    if not m:
        die("writeCDATAChars not found")
    body = m.group(2)
    g = re.search(r"theChar\s*==\s*XalanUnicode::charRightSquareBracket\s*&&\s*(.*?)\s*&&\s*XalanUnicode::charRightSquareBracket\s*==\s*chars\s*\[\s*i\s*\+\s*1\s*\]\s*&&\s*"
                  r"XalanUnicode::charGreaterThanSign\s*==\s*chars\s*\[\s*i\s*\+\s*2\s*\]", body, re.S)
    if not g:
        die("writeCDATAChars: ']]>' test has an unexpected form")
    guard = re.sub(r"\s+", " ", g.group(1).strip())
    # unsigned 64-bit (size_type) arithmetic as written
    W = "18446744073709551616"
    forms = {
        r"i - length > (\d+)": lambda k: "decide ((i + %s - length) %% %s > %s)" % (W, W, k),
        r"length - i > (\d+)": lambda k: "decide ((length + %s - i) %% %s > %s)" % (W, W, k),
        r"i \+ (\d+) < length": lambda k: "decide ((i + %s) %% %s < length)" % (k, W),
        r"length > i \+ (\d+)": lambda k: "decide (length > (i + %s) %% %s)" % (k, W),
        r"i < length - (\d+)": lambda k: "decide (i < (length + %s - %s) %% %s)" % (W, k, W),
    }
    lean_guard = None
    for pat, f in forms.items():
        mm = re.fullmatch(pat, guard)
        if mm:
            lean_guard = f(mm.group(1))
    if lean_guard is None:
        die("writeCDATAChars: look-ahead guard %r is not one of the forms this translator understands" % guard)
    after = body[g.end():]
    b = re.search(r"\{\s*if\s*\(\s*outsideCDATA\s*==\s*true\s*\)\s*\{\s*m_writer\.write\s*\(\s*m_constants\.(s_cdata\w+String)\s*,", after)
    if not b or b.group(1) not in ("s_cdataCloseString", "s_cdataOpenString"):
        die("writeCDATAChars: 'outsideCDATA == true' branch of the ']]>' case has an unexpected form")
    bracket_outside_writes_open = b.group(1) == "s_cdataOpenString"
    # tail of the function after the while loop
    tail = body[body.rfind("++i;"):]
    reopen_at_end = bool(re.search(r"if\s*\(\s*outsideCDATA\s*==\s*true\s*\)\s*\{\s*m_writer\.write\s*\(\s*m_constants\.s_cdataOpenString", tail))
    if not reopen_at_end and "outsideCDATA" in tail:
        die("writeCDATAChars: tail after the loop has an unexpected form")
    m = re.search(r"\bvoid\s+writeCDATA\s*\(([^)]*)\)\s*\{(.*?)\n    \}\n", uni_hpp, re.S)
    if not m:
        die("writeCDATA not found")
    wc = m.group(2)
    c = re.search(r"writeCDATAChars\s*\(\s*chars\s*,\s*length\s*,\s*outsideCDATA\s*\)\s*;\s*(if\s*\(\s*outsideCDATA\s*==\s*false\s*\)\s*\{)?\s*m_writer\.write\s*\(\s*m_constants\.s_cdataCloseString", wc)
    if not c:
        die("writeCDATA: final close has an unexpected form")
    close_only_if_inside = c.group(1) is not None

    # ---- optional repairs (each must be in one of its two known forms)
    m = re.search(r"\bwriteNormalizedChar\s*\(\s*XalanDOMChar\s+ch\s*,(.*?)\n    \}\n", uni_hpp, re.S)
    if not m:
        die("writeNormalizedChar not found")
    nb = m.group(1)
    if re.search(r"start\s*=\s*m_writer\.writeLiteral\s*\(\s*chars\s*,\s*start\s*,\s*length\s*\)", nb):
        fix_norm_literal = True
        other = strip_comments(read("XMLSupport/XalanOtherEncodingWriter.hpp"))
        if not re.search(r"writeLiteral\s*\([^)]*\)\s*\{\s*return\s+write\s*\(\s*chars\s*,\s*start\s*,\s*length\s*,\s*m_exceptionFunctor\s*\)\s*;", other):
            die("XalanOtherEncodingWriter::writeLiteral has an unexpected form")
        for rel in ("XMLSupport/XalanUTF8Writer.hpp", "XMLSupport/XalanUTF16Writer.hpp"):
            if not re.search(r"writeLiteral\s*\([^)]*\)\s*\{\s*return\s+write\s*\(\s*chars\s*,\s*start\s*,\s*length\s*\)\s*;", strip_comments(read(rel))):
                die(rel + ": writeLiteral has an unexpected form")
    elif re.search(r"start\s*=\s*m_writer\.write\s*\(\s*chars\s*,\s*start\s*,\s*length\s*\)", nb):
        fix_norm_literal = False
    else:
        die("writeNormalizedChar: the write call has an unexpected form")
    n_check = len(re.findall(r"\bthrowIfNotACharacter\s*\(\s*(?:ch|theChar)\s*\)\s*;", uni_hpp))
    if re.search(r"\bvoid\s+throwIfNotCharacters\s*\(", uni_hpp):
        n_check -= 1          # the call inside throwIfNotCharacters (r8; its own shape is checked below)
    if n_check == 0:
        fix_reject = False
    elif n_check == 3 and re.search(
            r"throwIfNotACharacter\s*\(\s*XalanDOMChar\s+ch\s*\)\s*\{\s*if\s*\(\s*isUTF16LowSurrogate\s*\(\s*ch\s*\)\s*==\s*true\s*\)\s*\{\s*"
            r"throwInvalidUTF16SurrogateException\s*\([^;]*;\s*\}\s*else\s+if\s*\(\s*ch\s*==\s*0\s*\|\|\s*ch\s*>=\s*0xFFFEu\s*\)\s*\{\s*throwInvalidXMLCharacterException", uni_hpp) \
            and re.search(r"throwIfNotACharacter\s*\(\s*ch\s*\)\s*;\s*if\s*\(\s*XMLVersion\s*==\s*XML_VERSION_1_1\s*&&\s*XalanUnicode::charLSEP\s*==\s*ch", uni_hpp) \
            and re.search(r"throwIfNotACharacter\s*\(\s*ch\s*\)\s*;\s*start\s*=\s*m_writer\.write", nb) \
            and re.search(r"throwIfNotACharacter\s*\(\s*theChar\s*\)\s*;\s*i\s*=\s*m_writer\.writeCDATAChar", body):
        fix_reject = True
    else:
        die("throwIfNotACharacter: unexpected definition or call sites (%d calls)" % n_check)
    if re.search(r"XalanUnicode::charCR\s*==\s*theChar\s*\|\|\s*\(\s*XMLVersion\s*==\s*XML_VERSION_1_1\s*&&\s*\(\s*m_charPredicate\.isCharRefForbidden\s*\(\s*theChar\s*\)\s*\|\|\s*"
                 r"XalanUnicode::charNEL\s*==\s*theChar\s*\|\|\s*XalanUnicode::charLSEP\s*==\s*theChar\s*\)\s*\)\s*\)\s*\{\s*if\s*\(\s*outsideCDATA\s*==\s*false\s*\)\s*\{\s*m_writer\.write\s*\(\s*"
                 r"m_constants\.s_cdataCloseString[^;]*;\s*\}\s*writeNumericCharacterReference\s*\(\s*theChar\s*\)\s*;\s*if\s*\(\s*outsideCDATA\s*==\s*false\s*\)\s*\{\s*m_writer\.write\s*\(\s*m_constants\.s_cdataOpenString", body):
        fix_cdata_ref = True
    elif "charCR" in body or "charNEL" in body:
        die("writeCDATAChars: CR/NEL handling has an unexpected form")
    else:
        fix_cdata_ref = False
    # r8: throwIfNotCharacters in front of the bulk writes (writeName, charactersRaw, writeDoctypeDecl)
    has_def = re.search(r"void\s+throwIfNotCharacters\s*\(\s*const\s+XalanDOMChar\s*\*\s*chars\s*,\s*size_type\s+length\s*\)\s*\{(.*?)\n    \}\n", uni_hpp, re.S)
    n_calls = len(re.findall(r"\bthrowIfNotCharacters\s*\(", uni_hpp)) - (1 if has_def else 0)
    if not has_def and n_calls == 0:
        fix_bulk_check = False
    elif has_def:
        body_c = re.sub(r"\s+", " ", has_def.group(1)).strip()
        want = ("for (size_type i = 0; i < length; ++i) { const XalanDOMChar ch = chars[i]; if (isUTF16HighSurrogate(ch) == true) { "
                "if (i + 1 >= length || isUTF16LowSurrogate(chars[i + 1]) == false) { throwInvalidUTF16SurrogateException( ch, "
                "i + 1 >= length ? XalanDOMChar(0) : chars[i + 1], getMemoryManager()); } ++i; } else { throwIfNotACharacter(ch); } }")
        sites = [r"writeName\s*\(\s*const\s+XalanDOMChar\s*\*\s*theChars\s*\)\s*\{\s*assert\s*\([^;]*;\s*throwIfNotCharacters\s*\(\s*theChars\s*,\s*length\s*\(\s*theChars\s*\)\s*\)\s*;\s*m_writer\.writeNameChar",
                 r"charactersRaw\s*\([^)]*\)\s*\{\s*throwIfNotCharacters\s*\(\s*chars\s*,\s*length\s*\)\s*;\s*writeParentTagEnd",
                 r"writeDoctypeDecl\s*\(\s*const\s+XalanDOMChar\s*\*\s*name\s*\)\s*\{\s*throwIfNotCharacters\s*\(\s*name\s*,\s*length\s*\(\s*name\s*\)\s*\)\s*;"]
        if body_c != want or n_calls != 3 or not all(re.search(x, uni_hpp) for x in sites) or not fix_reject:
            die("throwIfNotCharacters: unexpected definition or call sites (%d calls): %s" % (n_calls, body_c[:300]))
        fix_bulk_check = True
    else:
        die("throwIfNotCharacters is called but not defined")
    u16 = strip_comments(read("XMLSupport/XalanUTF16Writer.hpp"))
    m = re.search(r"size_type\s+write\s*\(\s*const\s+value_type\s+chars\[\]\s*,\s*size_type\s+start\s*,\s*size_type\s*(?:/\*length\*/|length)?\s*\)\s*\{(.*?)\n    \}\n", u16, re.S)
    if not m:
        die("XalanUTF16Writer::write(chars, start, length) not found")
    wb = re.sub(r"\s+", " ", m.group(1)).strip()
    if wb == "write(chars[start]); return start;":
        fix_utf16_pairs = False
    elif re.fullmatch(r"const XalanDOMChar ch = chars\[start\]; if \(isUTF16HighSurrogate\(ch\) == false\) \{ write\(ch\); \} else if \(start \+ 1 >= length\) \{ "
                      r"throwInvalidUTF16SurrogateException\( ch, 0, getMemoryManager\(\)\); \} else \{ decodeUTF16SurrogatePair\( ch, chars\[start \+ 1\], getMemoryManager\(\)\); "
                      r"write\(ch\); write\(chars\[\+\+start\]\); \} return start;", wb):
        fix_utf16_pairs = True
        if not re.search(r"writeCDATAChar\s*\([^)]*\)\s*\{\s*assert\s*\([^;]*;\s*return\s+write\s*\(\s*chars\s*,\s*start\s*,\s*length\s*\)\s*;", u16):
            die("XalanUTF16Writer::writeCDATAChar has an unexpected form")
    else:
        die("XalanUTF16Writer::write(chars, start, length) has an unexpected form: " + wb[:200])

    def lst(v):
        return "[" + ", ".join(str(x) for x in v) + "]"

    def op(o, k):
        return {">": "decide (v > %d)", "==": "decide (v = %d)", ">=": "decide (v ≥ %d)", "<": "decide (v < %d)", "!=": "decide (v ≠ %d)"}[o] % k

    L = []
    L.append("/- GENERATED by translate/c04_tables.py from %s — do not edit. -/" % "src/xalanc/XMLSupport + PlatformSupport")
    L.append("namespace XalanModel.Generated.C04")
    L.append("")
    for k, v in enum.items():
        L.append("def %s : Nat := %d" % (k, v))
    for fn, tag in (("CharFunctor1_0", "V10"), ("CharFunctor1_1", "V11")):
        last, vals = tables[fn]
        L.append("")
        L.append("def lastSpecial%s : Nat := %d" % (tag, last))
        L.append("def specialChars%s : List Nat :=\n  %s" % (tag, lst(vals)))
        for meth in ("attribute", "content", "isForbidden", "isCharRefForbidden"):
            o, k = preds[(fn, meth)]
            L.append("/-- `%s::%s`'s test on the table value (`s_specialChars[theChar] %s %d`) -/" % (fn, meth, o, k))
            L.append("def %sTest%s (v : Nat) : Bool := %s" % (meth, tag, op(o, k)))
    L.append("")
    for (cls, n), v in sorted(strings.items()):
        L.append("def %s_%s : List Nat := %s" % (cls, n, lst(v)))
    L.append("")
    L.append("def kBufferSizeUTF8 : Nat := %d" % sizes["utf8"])
    L.append("def kBufferSizeUTF16 : Nat := %d" % sizes["utf16"])
    L.append("def kBufferSizeOther : Nat := %d" % sizes["other"])
    L.append("def streamBufferSize : Nat := %d" % sizes["stream"])
    L.append("/-- the bulk `write(chars, n)` of the writer calls `flushBuffer()` before it hands a run longer than the buffer directly downstream -/")
    L.append("def bulkFlushUTF8 : Bool := %s" % ("true" if bulk_flush["utf8"] else "false"))
    L.append("def bulkFlushUTF16 : Bool := %s" % ("true" if bulk_flush["utf16"] else "false"))
    L.append("/-- `XalanOutputStream::write(const XalanDOMChar*, n)` writes a long run directly only when its buffer is empty -/")
    L.append("def bulkFlushStream : Bool := %s" % ("true" if bulk_flush["stream"] else "false"))
    L.append("/-- `XalanOtherEncodingWriter::write(const XalanDOMChar*, n)` goes through the positional write (a surrogate pair is one character) -/")
    L.append("def otherBulkPairAware : Bool := %s" % ("true" if other_bulk_pair_aware else "false"))
    L.append("/-- `XalanOutputStream::isLeadingSurrogate` -/")
    L.append("def isLeadUnit (u : Nat) : Bool := decide (%d ≤ u) && decide (u ≤ %d)" % (lead_lo, lead_hi))
    L.append("/-- `fHoldBack` of `XalanOutputStream::flushBuffer(bool)`, term by term as written -/")
    L.append("def streamHoldBack (hold asUTF16 : Bool) (last bufLen cap : Nat) : Bool := %s" % " && ".join(hold_terms))
    L.append("/-- the marker PI (`FormatterListener::s_piTarget / s_piData`) that makes the next text node unescaped -/")
    L.append("def rawMarkerTarget : List Nat := %s" % lst(marker_target))
    L.append("def rawMarkerData : List Nat := %s" % lst(marker_data))
    L.append("/-- `characters()` / `cdata()` of XalanXMLSerializerBase clear `m_nextIsRaw` when they honour it -/")
    L.append("def rawResetCharacters : Bool := %s" % ("true" if raw_reset["characters"] else "false"))
    L.append("def rawResetCData : Bool := %s" % ("true" if raw_reset["cdata"] else "false"))
    L.append("/-- `XalanTranscodingServices::getMaximumCharacterValue(encoding)`: names compared exactly (ASCII case-insensitive) -/")
    L.append("def maxCharTable : List (String × Nat) := [%s]" % ", ".join('("%s", %d)' % (n.upper(), v) for n, v in max_char_table))
    L.append("def maxCharDefault : Nat := %d" % max_char_default)
    L.append("/-- per encoding (upper-case name): the first scalar value an independent codec (Python) cannot encode -/")
    L.append("def firstUnrepresentable : List (String × Nat) := [%s]" % ", ".join('("%s", %d)' % (n, v) for n, v in first_gap))
    L.append("/-- `XalanOutputStream::canTranscodeTo` asks a transcoder of its own, not the one that transcodes the document -/")
    L.append("def probeOwnTranscoder : Bool := %s" % ("true" if probe_own else "false"))
    L.append("/-- XalanOutputStream::transcode: `theDestinationSize = theBufferLength * %d` -/" % sizes["transcode_factor"])
    L.append("def transcodeDestFactor : Nat := %d" % sizes["transcode_factor"])
    L.append("")
    L.append("/-- writeCDATAChars: the look-ahead guard `%s` in `size_type` (unsigned 64-bit) arithmetic -/" % guard)
    L.append("def cdataGuard (i length : Nat) : Bool := %s" % lean_guard)
    L.append("/-- writeCDATAChars, ']]>' case, `outsideCDATA == true`: the constant written is s_cdataOpenString -/")
    L.append("def cdataBracketOutsideWritesOpen : Bool := %s" % ("true" if bracket_outside_writes_open else "false"))
    L.append("/-- writeCDATAChars re-opens a section after the loop when `outsideCDATA == true` -/")
    L.append("def cdataReopenAtEnd : Bool := %s" % ("true" if reopen_at_end else "false"))
    L.append("/-- writeCDATA writes the final `]]>` only when `outsideCDATA == false` -/")
    L.append("def cdataCloseOnlyIfInside : Bool := %s" % ("true" if close_only_if_inside else "false"))
    L.append("/-- optional repairs found in the source (see XalanModel.C04.Fixes) -/")
    L.append("def fixNormLiteral : Bool := %s" % ("true" if fix_norm_literal else "false"))
    L.append("def fixCdataRef : Bool := %s" % ("true" if fix_cdata_ref else "false"))
    L.append("def fixRejectNonChar : Bool := %s" % ("true" if fix_reject else "false"))
    L.append("def fixUtf16Pairs : Bool := %s" % ("true" if fix_utf16_pairs else "false"))
    L.append("def fixBulkCheck : Bool := %s" % ("true" if fix_bulk_check else "false"))
    L.append("")
    L.append("end XalanModel.Generated.C04")
    txt = "\n".join(L) + "\n"
    os.makedirs(os.path.dirname(OUT), exist_ok=True)
    old = open(OUT).read() if os.path.exists(OUT) else None
    if old != txt:
        with open(OUT, "w") as f:
            f.write(txt)
    side = {"guard": guard, "bracket_outside_writes_open": bracket_outside_writes_open, "reopen_at_end": reopen_at_end,
            "close_only_if_inside": close_only_if_inside, "sizes": sizes,
            "fixes": {"normLiteral": fix_norm_literal, "cdataRef": fix_cdata_ref, "rejectNonChar": fix_reject, "utf16Pairs": fix_utf16_pairs},
            "lastSpecial": {k: v[0] for k, v in tables.items()}}
    print("c04_tables: ok " + json.dumps(side))


if __name__ == "__main__":
    main()
