#!/usr/bin/env python3
"""C02 translator: two structural facts of the anchored code that the Lean model is parametrised by, so that
the model follows the tree when the proposed fixes are applied:

* `unaryRecursesIntoUnary` : does XPathProcessorImpl::UnaryExpr() compile the operand of '-' with UnaryExpr()
                              (XPath 1.0 [27]) or with UnionExpr() (as found)?
* `identityShortcuts`      : do the six XObject comparison methods start with `if (this == &theRHS) return <const>`?

-> lean/XalanModel/Generated/C02_Flags.lean.  Any other shape (some methods with, some without; the functions not
found) is an error: the obligation "translate:c02_flags" then fails.
"""
import os
import re
import sys

HERE = os.path.dirname(os.path.abspath(__file__))
sys.path.insert(0, os.path.dirname(HERE))
from vlib import common  # noqa: E402


def body_of(src, header_re):
    m = re.search(header_re, src)
    if not m:
        return None
    i = src.index("{", m.end())
    depth = 0
    for j in range(i, len(src)):
        if src[j] == "{":
            depth += 1
        elif src[j] == "}":
            depth -= 1
            if depth == 0:
                return src[i:j + 1]
    return None


def strip_comments(s):
    s = re.sub(r"/\*.*?\*/", "", s, flags=re.S)
    return re.sub(r"//[^\n]*", "", s)


def main():
    proc = strip_comments(open(os.path.join(common.REPO, "src/xalanc/XPath/XPathProcessorImpl.cpp"), encoding="utf-8", errors="replace").read())
    xobj = strip_comments(open(os.path.join(common.REPO, "src/xalanc/XPath/XObject.cpp"), encoding="utf-8", errors="replace").read())
    b = body_of(proc, r"XPathProcessorImpl::UnaryExpr\s*\(\s*\)")
    if b is None:
        print("UnaryExpr() not found"); return 1
    calls_unary = re.search(r"\bUnaryExpr\s*\(\s*\)\s*;", b) is not None
    calls_union = re.search(r"\bUnionExpr\s*\(\s*\)\s*;", b) is not None
    if not calls_union:
        print("UnaryExpr() no longer calls UnionExpr(): unexpected shape"); return 1
    consts = {"equals": "true", "notEquals": "false", "lessThan": "false", "lessThanOrEquals": "false",
              "greaterThan": "false", "greaterThanOrEquals": "false"}
    have = []
    for name, const in consts.items():
        mb = body_of(xobj, r"XObject::%s\s*\(\s*const XObject&\s*theRHS\s*,\s*XPathExecutionContext&\s*executionContext\s*\)\s*const" % name)
        if mb is None:
            print("XObject::%s not found" % name); return 1
        m = re.match(r"\{\s*if\s*\(\s*this\s*==\s*&theRHS\s*\)\s*\{\s*return\s+(\w+)\s*;", mb)
        if m:
            if m.group(1) != const:
                print("XObject::%s: identity shortcut returns %s (model expects %s)" % (name, m.group(1), const)); return 1
            have.append(True)
        else:
            have.append(False)
    if any(have) and not all(have):
        print("identity shortcut present in some comparison methods only: %r" % dict(zip(consts, have))); return 1
    xpath = strip_comments(open(os.path.join(common.REPO, "src/xalanc/XPath/XPath.cpp"), encoding="utf-8", errors="replace").read())
    pb = body_of(xpath, r"XPath::predicates\s*\(")
    if pb is None or "clearNulls" not in pb:
        print("XPath::predicates not found / reshaped"); return 1
    resets = re.search(r"pushContextNodeList|popContextNodeList|ContextNodeListPushAndPop|clearCachedPosition|resetCachedPosition", pb) is not None
    dbl = strip_comments(open(os.path.join(common.REPO, "src/xalanc/PlatformSupport/DoubleSupport.cpp"), encoding="utf-8", errors="replace").read())
    mb = body_of(dbl, r"DoubleSupport::modulus\s*\(")
    db = body_of(dbl, r"DoubleSupport::divide\s*\(")
    if mb is None or db is None:
        print("DoubleSupport::modulus / divide not found"); return 1
    mod_fmod = re.search(r"\bfmod\s*\(", mb) is not None
    if not mod_fmod and not (re.search(r"long\(theLHS\)\s*%\s*long\(theRHS\)", mb) and "modf" in mb):
        print("DoubleSupport::modulus has neither the known shape nor fmod()"); return 1
    div_old = re.search(r"theLHS\s*>\s*0\.0L?\s*&&\s*isPositiveZero\s*\(\s*theRHS\s*\)", db) is not None
    div_new = re.search(r"\(\s*theLHS\s*>\s*0\.0L?\s*\)\s*==\s*isPositiveZero\s*\(\s*theRHS\s*\)", db) is not None
    if div_old == div_new:
        print("DoubleSupport::divide: zero-divisor branch has an unexpected shape"); return 1
    lb = body_of(proc, r"XPathProcessorImpl::LocationPath\s*\(\s*\)")
    if lb is None or "RelativeLocationPath" not in lb:
        print("LocationPath() not found / reshaped"); return 1
    requires_step = "ExpectedNodeTest" in lb
    eb = body_of(proc, r"XPathProcessorImpl::EqualityExpr\s*\(")
    rb = body_of(proc, r"XPathProcessorImpl::RelationalExpr\s*\(")
    tb = body_of(proc, r"XPathProcessorImpl::tokenize\s*\(")
    if eb is None or rb is None or tb is None:
        print("EqualityExpr / RelationalExpr / tokenize not found"); return 1
    old_eq = re.search(r"lookahead\s*\(\s*XalanUnicode::charEqualsSign\s*,\s*1\s*\)", eb) is not None
    new_eq = re.search(r"m_token\.length\(\)\s*==\s*2", eb) is not None
    old_rel = len(re.findall(r"tokenIs\s*\(\s*XalanUnicode::charEqualsSign\s*\)", rb)) == 2
    new_rel = len(re.findall(r"m_token\.length\(\)\s*==\s*2", rb)) == 2
    new_tok = re.search(r"pat\[theEnd\]\s*==\s*XalanUnicode::charEqualsSign", tb) is not None
    if not ((old_eq and old_rel and not new_tok and not new_eq and not new_rel) or (new_eq and new_rel and new_tok and not old_eq and not old_rel)):
        print("operator tokenization: EqualityExpr/RelationalExpr/tokenize are in a mixed or unknown state"); return 1
    compound = new_tok
    os.makedirs(common.GEN, exist_ok=True)
    out = os.path.join(common.GEN, "C02_Flags.lean")
    txt = ("/- GENERATED by translate/c02_flags.py from XPathProcessorImpl.cpp (UnaryExpr) and XObject.cpp (comparison methods). Do not edit. -/\n"
           "namespace XalanModel.Generated.C02\n\n"
           "/-- `UnaryExpr()` compiles the operand of `-` with `UnaryExpr()` (true) or `UnionExpr()` (false) -/\n"
           "def unaryRecursesIntoUnary : Bool := %s\n\n"
           "/-- the six `XObject` comparison methods answer from `this == &theRHS` first -/\n"
           "def identityShortcuts : Bool := %s\n\n"
           "/-- `XPath::predicates` invalidates the cached `position()` between successive predicates of one step -/\n"
           "def predicatesResetPositionCache : Bool := %s\n\n"
           "/-- `DoubleSupport::modulus` is `fmod` (true) or the long-remainder / modf code (false) -/\n"
           "def modulusIsFmod : Bool := %s\n\n"
           "/-- `DoubleSupport::divide` by zero: +Infinity iff dividend and zero have the same sign (true), or only for a positive dividend and +0 (false) -/\n"
           "def divideSignAware : Bool := %s\n\n"
           "/-- `LocationPath()` reports an error when a relative path has no step (empty token or `)`) -/\n"
           "def locationPathRequiresStep : Bool := %s\n\n"
           "/-- `!=`, `<=`, `>=` are single tokens (emitted only when the two characters are adjacent) -/\n"
           "def compoundOperatorTokens : Bool := %s\n\n"
           "end XalanModel.Generated.C02\n") % ("true" if calls_unary else "false", "true" if all(have) else "false", "true" if resets else "false",
                                                   "true" if mod_fmod else "false", "true" if div_new else "false", "true" if requires_step else "false", "true" if compound else "false")
    if not os.path.exists(out) or open(out).read() != txt:
        open(out, "w").write(txt)
    print("C02_Flags.lean: unaryRecursesIntoUnary=%s identityShortcuts=%s" % (calls_unary, all(have)))
    return 0


if __name__ == "__main__":
    sys.exit(main())
