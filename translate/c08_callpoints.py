#!/usr/bin/env python3
"""C08 translator: for every event handler of FormatterToXMLUnicode.hpp, the ordered list of calls that touch
the indent handler / the element stack; plus the normalised bodies of XalanIndentWriter.hpp and
XalanDummyIndentWriter.hpp members -> lean/XalanModel/Generated/C08_CallPoints.lean.
Exit 1 when a function or an unknown indent-handler call cannot be translated."""
import os
import re
import sys

HERE = os.path.dirname(os.path.abspath(__file__))
sys.path.insert(0, os.path.dirname(HERE))
from vlib import common  # noqa: E402

XMLS = os.path.join(common.REPO, "src/xalanc/XMLSupport")
FNS = ["endDocument", "startElement", "endElement", "charactersRaw", "entityReference", "comment",
       "writeXMLHeader", "writeProcessingInstruction", "writeCharacters", "writeCDATA", "writeParentTagEnd"]
PLAIN = {"generateDoctypeDecl": "generateDoctypeDecl", "writeParentTagEnd": "writeParentTagEnd",
         "markParentForChildren": "markParentForChildren", "openElementForChildren": "openElementForChildren",
         "childNodesWereAdded": "childNodesWereAdded", "getNeedToOutputDoctypeDecl": "getNeedToOutputDoctypeDecl"}
HANDLER0 = {"indent": "indent", "increaseIndent": "increaseIndent", "decreaseIndent": "decreaseIndent",
            "pop_preserve": "popPreserve", "push_preserve": "pushPreserve", "outputLineSep": "outputLineSep"}
HANDLERB = {"setPreserve": "setPreserve", "setPrevText": "setPrevText", "setStartNewLine": "setStartNewLine"}
MEMBERS = ["indent", "increaseIndent", "decreaseIndent", "setStartNewLine", "outputLineSep", "setPrevText",
           "setPreserve", "pop_preserve", "push_preserve"]


def strip_comments(t):
    t = re.sub(r"/\*.*?\*/", " ", t, flags=re.S)
    return re.sub(r"//[^\n]*", " ", t)


def body_of(src, name):
    """body text of the (single) member function definition `name(...) {...}`"""
    hits = []
    for m in re.finditer(r"\b%s\s*\(" % re.escape(name), src):
        # find the closing parenthesis of the parameter list
        i, depth = m.end() - 1, 0
        while i < len(src):
            if src[i] == "(":
                depth += 1
            elif src[i] == ")":
                depth -= 1
                if depth == 0:
                    break
            i += 1
        j = i + 1
        rest = src[j:j + 40]
        mm = re.match(r"\s*(const\s*)?\{", rest)
        if not mm:
            continue
        k = j + mm.end() - 1
        depth, e = 0, k
        while e < len(src):
            if src[e] == "{":
                depth += 1
            elif src[e] == "}":
                depth -= 1
                if depth == 0:
                    break
            e += 1
        hits.append(src[k + 1:e])
    if len(hits) != 1:
        raise ValueError("expected exactly one definition of %s, found %d" % (name, len(hits)))
    return hits[0]


def calls_of(body):
    res = []
    pat = re.compile(r"m_indentHandler\s*\.\s*(\w+)\s*\(\s*(\w*)\s*\)|\b(%s)\s*\(" % "|".join(PLAIN))
    for m in pat.finditer(body):
        if m.group(1):
            f, a = m.group(1), m.group(2)
            if f in HANDLER0 and a == "":
                res.append("Call." + HANDLER0[f])
            elif f in HANDLERB and a in ("true", "false"):
                res.append("(Call.%s %s)" % (HANDLERB[f], a))
            else:
                raise ValueError("untranslatable indent-handler call %s(%s)" % (f, a))
        else:
            res.append("Call." + PLAIN[m.group(3)])
    return res


def norm(b):
    return re.sub(r"\s+", "", b)


def cpp_functions(text):
    """(class, function, body) for every out-of-line member definition `Class::function(...) {...}` of a .cpp file"""
    res = []
    for m in re.finditer(r"^(\w+)::(\w+)\s*\(", text, re.M):
        i, depth = m.end() - 1, 0
        while i < len(text):
            if text[i] == "(":
                depth += 1
            elif text[i] == ")":
                depth -= 1
                if depth == 0:
                    break
            i += 1
        j = i + 1
        # skip const and a constructor's initialiser list up to the opening brace
        k = text.find("{", j)
        semi = text.find(";", j)
        if k < 0 or (0 <= semi < k):
            continue
        depth, e = 0, k
        while e < len(text):
            if text[e] == "{":
                depth += 1
            elif text[e] == "}":
                depth -= 1
                if depth == 0:
                    break
            e += 1
        res.append((m.group(1), m.group(2), text[k + 1:e]))
    return res


def raw_flag_facts():
    """every function that tests m_nextIsRaw (a consumer) and whether it resets the flag in the tested branch; every
    function that sets it; the marker strings"""
    consumers, setters = [], []
    for fn in ("XalanXMLSerializerBase.cpp", "FormatterToXML.cpp", "FormatterToHTML.cpp", "FormatterToText.cpp"):
        text = strip_comments(open(os.path.join(XMLS, fn), encoding="utf-8", errors="replace").read())
        for cls, name, body in cpp_functions(text):
            b = norm(body)
            if "m_nextIsRaw" not in b:
                continue
            tests = list(re.finditer(r"if\(m_nextIsRaw(==true)?\)\{", b))
            if tests:
                ok = True
                for t in tests:
                    # the tested branch: up to its matching brace
                    depth, e = 0, t.end() - 1
                    while e < len(b):
                        if b[e] == "{":
                            depth += 1
                        elif b[e] == "}":
                            depth -= 1
                            if depth == 0:
                                break
                        e += 1
                    if "m_nextIsRaw=false;" not in b[t.end():e]:
                        ok = False
                consumers.append((cls, name, ok))
            if "m_nextIsRaw=true;" in b:
                setters.append((cls, name))
            rest = re.sub(r"if\(m_nextIsRaw(==true)?\)|m_nextIsRaw=(true|false);|m_nextIsRaw\(false\)", "", b)
            if "m_nextIsRaw" in rest:
                raise ValueError("%s::%s uses m_nextIsRaw in a way the translator does not understand" % (cls, name))
    fl = strip_comments(open(os.path.join(common.REPO, "src/xalanc/PlatformSupport/FormatterListener.cpp"), encoding="utf-8", errors="replace").read())
    marker = []
    for nm in ("s_piTarget", "s_piData"):
        m = re.search(r"FormatterListener::%s\s*\[\s*\]\s*=\s*\{([^}]*)\}" % nm, fl)
        if not m:
            raise ValueError("FormatterListener::%s not found" % nm)
        toks = [x.strip() for x in m.group(1).split(",") if x.strip()]
        if toks[-1] != "0":
            raise ValueError("%s is not 0-terminated" % nm)
        codes = []
        for t in toks[:-1]:
            mm = re.fullmatch(r"XalanUnicode::charLetter_([A-Za-z])", t)
            if not mm:
                raise ValueError("unexpected character constant %s in %s" % (t, nm))
            codes.append(ord(mm.group(1)))
        marker.append(codes)
    return consumers, setters, marker


def main():
    try:
        src = strip_comments(open(os.path.join(XMLS, "FormatterToXMLUnicode.hpp"), encoding="utf-8", errors="replace").read())
        iw = strip_comments(open(os.path.join(XMLS, "XalanIndentWriter.hpp"), encoding="utf-8", errors="replace").read())
        dw = strip_comments(open(os.path.join(XMLS, "XalanDummyIndentWriter.hpp"), encoding="utf-8", errors="replace").read())
        legacy = strip_comments(open(os.path.join(XMLS, "FormatterToXML.cpp"), encoding="utf-8", errors="replace").read())
        legacy_raw = norm(body_of(legacy, "charactersRaw"))
        if "m_ispreserve=true;" not in legacy_raw:
            raise ValueError("FormatterToXML::charactersRaw no longer sets m_ispreserve")
        wcc = norm(body_of(src, "writeCDATAChars"))
        reopen_before = "if(outsideCDATA==true){m_writer.write(m_constants.s_cdataOpenString,m_constants.s_cdataOpenStringLength);}m_writer.write(value_type(XalanUnicode::charRightSquareBracket));" in wcc
        close_before = "if(outsideCDATA==true){m_writer.write(m_constants.s_cdataCloseString,m_constants.s_cdataCloseStringLength);}m_writer.write(value_type(XalanUnicode::charRightSquareBracket));" in wcc
        trailing_open = wcc.endswith("if(outsideCDATA==true){m_writer.write(m_constants.s_cdataOpenString,m_constants.s_cdataOpenStringLength);}")
        if reopen_before and not trailing_open:
            cdata_repaired = True
        elif close_before and trailing_open:
            cdata_repaired = False
        else:
            raise ValueError("writeCDATAChars has neither the repaired nor the unrepaired shape the model knows")
        cdata_refs = "XalanUnicode::charCR==theChar||" in wcc and "writeNumericCharacterReference(theChar);" in wcc
        # the two character-class tables of XalanXMLSerializerBase.cpp
        base_cpp = strip_comments(open(os.path.join(XMLS, "XalanXMLSerializerBase.cpp"), encoding="utf-8", errors="replace").read())
        base_hpp = strip_comments(open(os.path.join(XMLS, "XalanXMLSerializerBase.hpp"), encoding="utf-8", errors="replace").read())
        enum = dict((k, int(v)) for k, v in re.findall(r"\b(eNone|eAttr|eBoth|eForb|eCRFb)\s*=\s*(\d+)u", base_hpp))
        if sorted(enum) != ["eAttr", "eBoth", "eCRFb", "eForb", "eNone"]:
            raise ValueError("character class enum of XalanXMLSerializerBase.hpp not found")
        tables = {}
        for ver in ("1_0", "1_1"):
            m = re.search(r"CharFunctor%s::s_specialChars\s*\[[^\]]*\]\s*=\s*\{([^}]*)\}" % ver, base_cpp)
            ml = re.search(r"CharFunctor%s::s_lastSpecial\s*=\s*(0x[0-9a-fA-F]+)u" % ver, base_cpp)
            if not m or not ml:
                raise ValueError("CharFunctor%s table not found" % ver)
            vals = [enum[x.strip()] for x in m.group(1).split(",") if x.strip()]
            size = int(ml.group(1), 16) + 1
            if len(vals) > size:
                raise ValueError("CharFunctor%s table has %d entries, s_lastSpecial says %d" % (ver, len(vals), size))
            vals += [0] * (size - len(vals))      # missing trailing initialisers are zero (eNone) in C++
            tables[ver] = vals
        ftt = strip_comments(open(os.path.join(XMLS, "FormatterToText.cpp"), encoding="utf-8", errors="replace").read())
        ftt_chars = norm(body_of(ftt, "characters"))
        if "chars[i]>m_maxCharacter" not in ftt_chars:
            raise ValueError("FormatterToText::characters no longer tests chars[i] > m_maxCharacter")
        text_reports = "canTranscodeTo(" in ftt_chars and "UnrepresentableCharacterException(" in ftt_chars
        raw_consumers, raw_setters, raw_marker = raw_flag_facts()
        # the loops over a run of UTF-16 code units in the writers: after a decoded surrogate pair the index must be
        # advanced past the low surrogate
        def member_body(text, signature_re):
            m = re.search(signature_re, text)
            if not m:
                raise ValueError("writer member %s not found" % signature_re)
            k = text.index("{", m.end())
            depth, e = 0, k
            while e < len(text):
                if text[e] == "{":
                    depth += 1
                elif text[e] == "}":
                    depth -= 1
                    if depth == 0:
                        break
                e += 1
            return norm(text[k + 1:e])
        u8 = strip_comments(open(os.path.join(XMLS, "XalanUTF8Writer.hpp"), encoding="utf-8", errors="replace").read())
        pair_then_inc = "decodeUTF16SurrogatePair(theChars[i],theChars[i+1],getMemoryManager()));++i;"
        pair_no_inc = "decodeUTF16SurrogatePair(theChars[i],theChars[i+1],getMemoryManager()));"
        facts_u8 = {}
        for key, sig in (("bulk", r"\bwrite\s*\(\s*const\s+XalanDOMChar\s*\*\s*theChars\s*,\s*size_type\s+theLength\s*\)"),
                         ("safe", r"\bwriteSafe\s*\(\s*const\s+XalanDOMChar\s*\*\s*theChars\s*,\s*size_type\s+theLength\s*\)")):
            b = member_body(u8, sig)
            b = b.replace("decodeUTF16SurrogatePair(ch,theChars[i+1]", "decodeUTF16SurrogatePair(theChars[i],theChars[i+1]")
            if "for(size_typei=0;i<theLength;++i)" not in b or pair_no_inc not in b:
                raise ValueError("XalanUTF8Writer %s loop has an unknown shape" % key)
            facts_u8[key] = pair_then_inc in b
        ow = strip_comments(open(os.path.join(XMLS, "XalanOtherEncodingWriter.hpp"), encoding="utf-8", errors="replace").read())
        ob = member_body(ow, r"\bwrite\s*\(\s*const\s+XalanDOMChar\s*\*\s*theChars\s*,\s*size_type\s+theLength\s*\)")
        if ob == "for(size_typei=0;i<theLength;++i){write(theChars[i]);}":
            other_bulk_pairs = False
        elif "m_charRefFunctor" in ob and "write(theChars[i])" not in ob:
            other_bulk_pairs = True
        else:
            raise ValueError("XalanOtherEncodingWriter::write(chars, n) has an unknown shape")
        # FormatterToHTML::cdata: the HTML output method has no CDATA sections
        fth = strip_comments(open(os.path.join(XMLS, "FormatterToHTML.cpp"), encoding="utf-8", errors="replace").read())
        hc = [norm(b) for c_, n_, b in cpp_functions(fth) if (c_, n_) == ("FormatterToHTML", "cdata")]
        if len(hc) != 1:
            raise ValueError("FormatterToHTML::cdata not found")
        if "FormatterToXML::cdata(" in hc[0] and "m_isScriptOrStyleElem" in hc[0]:
            html_cdata_is_text = False
        elif "characters(" in hc[0] and "FormatterToXML::cdata(" not in hc[0] and "m_isScriptOrStyleElem" not in hc[0]:
            html_cdata_is_text = True
        else:
            raise ValueError("FormatterToHTML::cdata has neither the repaired nor the unrepaired shape the check knows")
        # XSLTEngineImpl entry points that take (buffer, start, length)
        eng = strip_comments(open(os.path.join(common.REPO, "src/xalanc/XSLT/XSLTEngineImpl.cpp"), encoding="utf-8", errors="replace").read())
        eng_fns = [(n_, norm(b)) for c_, n_, b in cpp_functions(eng) if c_ == "XSLTEngineImpl"]

        def uses_start(fn):
            bodies = [b for n_, b in eng_fns if n_ == fn and ("->%s(ch" % fn) in b]
            if len(bodies) != 1:
                raise ValueError("XSLTEngineImpl::%s(ch, start, length) not found" % fn)
            if ("->%s(ch+start,length)" % fn) in bodies[0]:
                return True
            if ("->%s(ch,length)" % fn) in bodies[0]:
                return False
            raise ValueError("XSLTEngineImpl::%s(ch, start, length) has an unknown shape" % fn)
        eng_raw_start = uses_start("charactersRaw")
        eng_cdata_start = uses_start("cdata")
        eng_chars_start = uses_start("characters")
        if "m_indentHandler" not in src:
            raise ValueError("FormatterToXMLUnicode.hpp no longer has an m_indentHandler member")
        cps = [(f, calls_of(body_of(src, f))) for f in FNS]
        iwb = [(m, norm(body_of(iw, m))) for m in MEMBERS + ["shouldIndent"]]
        dwb = [(m, norm(body_of(dw, m))) for m in MEMBERS]
        # every other use of m_indentHandler must be inside one of the translated functions
        total = len(re.findall(r"m_indentHandler\s*\.", src))
        seen = sum(len(re.findall(r"m_indentHandler\s*\.", body_of(src, f))) for f in FNS)
        if total != seen:
            raise ValueError("m_indentHandler is used outside the translated functions (%d uses, %d translated)" % (total, seen))
    except (ValueError, OSError) as e:
        print("c08_callpoints: " + str(e))
        return 1
    d = dict(cps)
    cdata = "(Call.setPrevText true)" in d["writeCDATA"]
    raw = "(Call.setPrevText true)" in d["charactersRaw"]
    out = ["/- GENERATED by translate/c08_callpoints.py from src/xalanc/XMLSupport/{FormatterToXMLUnicode,XalanIndentWriter,XalanDummyIndentWriter}.hpp — do not edit -/",
           "import XalanModel.C08.CallPoints", "namespace XalanModel.Generated.C08", "open XalanModel.C08",
           "def callPoints : List (Fn × List Call) := ["]
    out.append(",\n".join("  (Fn.%s, [%s])" % (f, ", ".join(c)) for f, c in cps))
    out.append("]")
    esc = lambda x: x.replace("\\", "\\\\").replace('"', '\\"')
    out.append("def indentWriter : List (String × String) := [")
    out.append(",\n".join('  ("%s", "%s")' % (m, esc(b)) for m, b in iwb))
    out.append("]")
    out.append("def dummyWriter : List (String × String) := [")
    out.append(",\n".join('  ("%s", "%s")' % (m, esc(b)) for m, b in dwb))
    out.append("]")
    out.append("/-- does writeCDATA / charactersRaw tell the indent handler that text was written -/")
    out.append("def codeCfg : CodeCfg := { cdataSetsPrevText := %s, rawSetsPrevText := %s }" % (str(cdata).lower(), str(raw).lower()))
    out.append("/-- does the legacy FormatterToXML::charactersRaw (base of FormatterToHTML) set m_isprevtext -/")
    out.append("def legacyRawSetsPrevText : Bool := %s" % str("m_isprevtext=true;" in legacy_raw).lower())
    out.append("/-- writeCDATAChars: repaired shape (section re-opened before a `]]>` met outside, nothing written at the end) -/")
    out.append("def cdataCharsRepaired : Bool := %s" % str(cdata_repaired).lower())
    out.append("/-- writeCDATAChars leaves the section to write CR (and, in XML 1.1, NEL, LSEP and the restricted characters) as a reference -/")
    out.append("def cdataRefsLineEnds : Bool := %s" % str(cdata_refs).lower())
    out.append("/-- character classes (eNone 0, eAttr 1, eBoth 2, eForb 4, eCRFb 5) of CharFunctor1_0 / CharFunctor1_1, index = code point -/")
    out.append("def classEnum : List (String × Nat) := [%s]" % ", ".join('("%s", %d)' % (k, enum[k]) for k in ["eNone", "eAttr", "eBoth", "eForb", "eCRFb"]))
    out.append("def charTable10 : List Nat := [%s]" % ", ".join(map(str, tables["1_0"])))
    out.append("def charTable11 : List Nat := [%s]" % ", ".join(map(str, tables["1_1"])))
    out.append("/-- FormatterToText::characters asks the stream whether a character can be transcoded and raises UnrepresentableCharacterException -/")
    out.append("def textReportsUnrepresentable : Bool := %s" % str(text_reports).lower())
    out.append("/-- every function that tests m_nextIsRaw: (class, function, resets the flag in the tested branch) -/")
    out.append("def rawFlagConsumers : List (String × String × Bool) := [%s]" % ", ".join('("%s", "%s", %s)' % (a, b, str(c).lower()) for a, b, c in raw_consumers))
    out.append("/-- every function that sets m_nextIsRaw -/")
    out.append("def rawFlagSetters : List (String × String) := [%s]" % ", ".join('("%s", "%s")' % (a, b) for a, b in raw_setters))
    out.append("/-- FormatterListener::s_piTarget / s_piData -/")
    out.append("def rawMarkerTargetSrc : List Nat := %s" % raw_marker[0])
    out.append("def rawMarkerDataSrc : List Nat := %s" % raw_marker[1])
    out.append("/-- XalanUTF8Writer: `++i` follows the write of a decoded surrogate pair in write(chars, n) / writeSafe -/")
    out.append("def utf8BulkAdvances : Bool := %s" % str(facts_u8["bulk"]).lower())
    out.append("def utf8SafeAdvances : Bool := %s" % str(facts_u8["safe"]).lower())
    out.append("/-- XalanOtherEncodingWriter::write(chars, n) treats a surrogate pair as one character -/")
    out.append("def otherBulkPairs : Bool := %s" % str(other_bulk_pairs).lower())
    out.append("/-- FormatterToHTML::cdata writes its characters as text (escaped, raw only inside script/style) -/")
    out.append("def htmlCdataIsText : Bool := %s" % str(html_cdata_is_text).lower())
    out.append("/-- XSLTEngineImpl::charactersRaw / cdata / characters (ch, start, length) pass ch + start to the listener -/")
    out.append("def engineRawUsesStart : Bool := %s" % str(eng_raw_start).lower())
    out.append("def engineCdataUsesStart : Bool := %s" % str(eng_cdata_start).lower())
    out.append("def engineCharactersUsesStart : Bool := %s" % str(eng_chars_start).lower())
    out.append("end XalanModel.Generated.C08")
    import json as _json
    os.makedirs(common.CACHE, exist_ok=True)
    _json.dump({"utf8BulkAdvances": facts_u8["bulk"], "utf8SafeAdvances": facts_u8["safe"], "otherBulkPairs": other_bulk_pairs,
                "htmlCdataIsText": html_cdata_is_text, "engineRawUsesStart": eng_raw_start,
                "engineCdataUsesStart": eng_cdata_start, "engineCharactersUsesStart": eng_chars_start},
               open(os.path.join(common.CACHE, "c08_facts.json"), "w"))
    txt = "\n".join(out) + "\n"
    os.makedirs(common.GEN, exist_ok=True)
    p = os.path.join(common.GEN, "C08_CallPoints.lean")
    if not os.path.exists(p) or open(p).read() != txt:
        open(p, "w").write(txt)
    print("c08_callpoints: %d functions, %d calls; cdataSetsPrevText=%s rawSetsPrevText=%s" % (
        len(cps), sum(len(c) for _, c in cps), cdata, raw))
    return 0


if __name__ == "__main__":
    sys.exit(main())
