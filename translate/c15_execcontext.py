#!/usr/bin/env python3
"""C15 translator: which node do the two `StylesheetExecutionContextDefault::getNodeSetByKey` overloads hand to
`StylesheetRoot::getNodeSetByKey` as the node whose document's key table is consulted?

  src/xalanc/XSLT/StylesheetExecutionContextDefault.cpp -> lean/XalanModel/Generated/C15_ExecContext.lean

    qnameUsesContext  : Bool   -- overload (XalanNode* context, const XalanQName&, …): first argument is `context`
    stringUsesContext : Bool   -- overload (XalanNode* context, const XalanDOMString& name, …) — taken by FunctionKey when
                               -- the key name contains a colon: first argument is `context`
    stringNameByValue : Bool   -- that overload resolves the prefixed name into a QName of its own (a local
                               -- XalanQNameByValue); `false` = into the execution context's shared scratch QName
                               -- (`getScratchQName()`), handed on by reference, which use/match expressions evaluated
                               -- while the table is built can overwrite
  (`false` = it passes `getCurrentNode()`, the XSLT current node, instead.)

Also checks the dispatch in FunctionKey.cpp `getNodeSet` that the model transcribes: a name with a colon goes to the
string-name overload, any other name to the QName overload through `XalanQNameByReference`.
Anything else in those places = translator failure (obligation `translate:c15_execcontext` broken).
"""
import json
import os
import re
import sys

HERE = os.path.dirname(os.path.abspath(__file__))
ROOT = os.path.dirname(HERE)
REPO = os.environ.get("VERIF_REPO", "/repo")
SRC = os.path.join(REPO, "src/xalanc/XSLT/StylesheetExecutionContextDefault.cpp")
FK = os.path.join(REPO, "src/xalanc/XSLT/FunctionKey.cpp")
OUT = os.path.join(ROOT, "lean/XalanModel/Generated/C15_ExecContext.lean")


def strip_comments(s):
    s = re.sub(r"/\*.*?\*/", " ", s, flags=re.S)
    return re.sub(r"//[^\n]*", " ", s)


def body_after(s, pos):
    i = s.index("{", pos)
    depth = 0
    for j in range(i, len(s)):
        if s[j] == "{":
            depth += 1
        elif s[j] == "}":
            depth -= 1
            if depth == 0:
                return s[i + 1:j]
    raise ValueError("unbalanced braces")


def main():
    src = strip_comments(open(SRC, encoding="utf-8", errors="replace").read())
    found = {}
    for m in re.finditer(r"StylesheetExecutionContextDefault::getNodeSetByKey\s*\(([^)]*)\)", src):
        params = re.sub(r"\s+", " ", m.group(1))
        if not re.match(r" ?XalanNode\* context,", params):
            print("getNodeSetByKey overload with unexpected first parameter: " + params); return 1
        if "const XalanQName&" in params:
            kind = "qname"
        elif re.search(r"const XalanDOMString& name,", params):
            kind = "string"
        else:
            print("getNodeSetByKey overload not recognised: " + params); return 1
        body = re.sub(r"\s+", " ", body_after(src, m.end()))
        calls = re.findall(r"m_stylesheetRoot->getNodeSetByKey\( ?([^,]+?) ?,", body)
        if len(calls) != 1:
            print("%s overload: expected exactly one m_stylesheetRoot->getNodeSetByKey call, found %d" % (kind, len(calls))); return 1
        if kind == "string":
            qarg = re.findall(r"m_stylesheetRoot->getNodeSetByKey\( ?[^,]+?, ?([^,]+?) ?,", body)[0].strip()
            if re.search(r"XalanQNameByValue& %s = m_xpathExecutionContextDefault\.getScratchQName\(\);" % re.escape(qarg), body):
                found["byvalue"] = False
            elif re.search(r"(const )?XalanQNameByValue %s\( ?name, getMemoryManager\(\), resolver, locator ?\);" % re.escape(qarg), body) \
                    and "getScratchQName" not in body:
                found["byvalue"] = True
            else:
                print("string overload: cannot classify how the QName %r handed to StylesheetRoot is obtained" % qarg); return 1
        arg = calls[0].strip()
        if arg == "context":
            found[kind] = True
        elif arg in ("getCurrentNode()", "this->getCurrentNode()", "m_xpathExecutionContextDefault.getCurrentNode()"):
            found[kind] = False
        else:
            print("%s overload: cannot classify the key node argument %r" % (kind, arg)); return 1
    if set(found) != {"qname", "string", "byvalue"}:
        print("expected the two getNodeSetByKey overloads, found: %s" % sorted(found)); return 1

    fk = re.sub(r"\s+", " ", strip_comments(open(FK, encoding="utf-8", errors="replace").read()))
    shape = (r"if \(indexOf\(keyname, XalanUnicode::charColon\) < keyname\.length\(\)\) \{ executionContext\.getNodeSetByKey\( "
             r"context, keyname, ref, locator, theNodeRefList\); \} else \{ const XalanQNameByReference theQName\(keyname\); "
             r"executionContext\.getNodeSetByKey\( context, theQName, ref, locator, theNodeRefList\); \}")
    if not re.search(shape, fk):
        print("FunctionKey.cpp getNodeSet: the colon dispatch to the two overloads is not the expected one"); return 1

    os.makedirs(os.path.dirname(OUT), exist_ok=True)
    b = lambda x: "true" if x else "false"
    text = (
        "/- GENERATED by translate/c15_execcontext.py from src/xalanc/XSLT/StylesheetExecutionContextDefault.cpp — do not edit.\n"
        "   Which node's document the two getNodeSetByKey overloads consult: `true` = the XPath context node passed in,\n"
        "   `false` = getCurrentNode() (the XSLT current node). -/\n"
        "namespace XalanModel.Generated.C15_ExecContext\n\n"
        "def qnameUsesContext : Bool := %s\n\n"
        "def stringUsesContext : Bool := %s\n\n"
        "/-- the string-name overload resolves the prefixed key name into a QName of its own (`false`: into the shared\n"
        "scratch QName, kept by reference while the key table is built) -/\n"
        "def stringNameByValue : Bool := %s\n\n"
        "end XalanModel.Generated.C15_ExecContext\n") % (b(found["qname"]), b(found["string"]), b(found["byvalue"]))
    old = open(OUT).read() if os.path.exists(OUT) else None
    if old != text:
        with open(OUT, "w") as f:
            f.write(text)
    with open(OUT[:-5] + ".json", "w") as f:
        json.dump({"source": SRC, "qnameUsesContext": found["qname"], "stringUsesContext": found["string"],
                   "stringNameByValue": found["byvalue"]}, f)
    print("c15_execcontext: qnameUsesContext=%s stringUsesContext=%s stringNameByValue=%s" % (found["qname"], found["string"], found["byvalue"]))
    return 0


if __name__ == "__main__":
    sys.exit(main())
