#!/usr/bin/env python3
"""C11 translator 3: XToken's conversion members, the compiler's token invariants, and the static / virtual conversion
helpers the specialised entry points call -> lean/XalanModel/Generated/C11_Token.lean

Reads from the CURRENT working tree ($VERIF_REPO or /repo):
  src/xalanc/XPath/XToken.hpp / XToken.cpp     inline boolean()/num(), virtual boolean/num/str overloads, set()
  src/xalanc/XPath/XPathExpression.cpp          pushArgumentOnOpCodeMap(string): token number = DoubleSupport::toDouble(string)
  src/xalanc/XPath/XPathProcessorImpl.cpp       Number(): token string = NumberToDOMString(number)
  src/xalanc/XPath/XObject.hpp / XObject.cpp    static boolean/number/string overloads, s_trueString / s_falseString
  src/xalanc/XPath/XBoolean.cpp XNumberBase.cpp XNumber.cpp XStringBase.cpp XNodeSetBase.cpp   the virtual conversions
Every body is normalised (comments, asserts, white space removed) and mapped to a tag by exact match; anything else is `other:<line>`.
"""
import json
import os
import re
import sys

HERE = os.path.dirname(os.path.abspath(__file__))
ROOT = os.path.dirname(HERE)
REPO = os.environ.get("VERIF_REPO", "/repo")
CACHE = os.environ.get("VERIF_CACHE") or os.path.join(ROOT, ".cache")
OUT = os.path.join(ROOT, "lean", "XalanModel", "Generated", "C11_Token.lean")
XP = "src/xalanc/XPath/"


def die(msg):
    print("c11_token: " + msg)
    sys.exit(1)


def read(rel):
    p = os.path.join(REPO, rel)
    if not os.path.exists(p):
        die("missing source file " + p)
    src = open(p, encoding="utf-8", errors="replace").read()
    src = re.sub(r"/\*.*?\*/", lambda m: re.sub(r"[^\n]", " ", m.group(0)), src, flags=re.S)
    return re.sub(r"//[^\n]*", "", src)


def match_brace(src, i):
    depth = 0
    for j in range(i, len(src)):
        if src[j] == "{":
            depth += 1
        elif src[j] == "}":
            depth -= 1
            if depth == 0:
                return j
    die("unbalanced braces")


def nows(s):
    s = re.sub(r"\s+", "", s)
    return re.sub(r"assert\((?:[^()]|\([^()]*\))*\);", "", s)


def bodies(src, head_re):
    """[(params, normalised body, line)] of every definition whose head matches head_re + '(params) [const] {'"""
    res = []
    for m in re.finditer(head_re + r"\s*\(([^)]*)\)\s*(?:const)?\s*\{", src):
        lb = m.end() - 1
        rb = match_brace(src, lb)
        res.append((re.sub(r"\s+", " ", m.group(1)).strip(), nows(src[lb + 1:rb]), src.count("\n", 0, lb) + 1))
    return res


def sig(params):
    """parameter kinds: e=ExecutionContext, L=FormatterListener, f=member function, S=XalanDOMString&, s=const XalanDOMString&,
    d=double, b=bool, l=NodeRefListBase, n=XalanNode, m=MemoryManager"""
    out = ""
    for p in [x.strip() for x in params.split(",") if x.strip()]:
        if "XPathExecutionContext" in p: out += "e"
        elif "FormatterListener" in p: out += "L"
        elif "MemberFunctionPtr" in p: out += "f"
        elif re.search(r"const\s+XalanDOMString\s*&", p): out += "s"
        elif "XalanDOMString" in p: out += "S"
        elif "NodeRefListBase" in p: out += "l"
        elif "XalanNode" in p: out += "n"
        elif "MemoryManager" in p: out += "m"
        elif re.match(r"double\b", p): out += "d"
        elif re.match(r"bool\b", p): out += "b"
        else: out += "?"
    return out


TOK = {
    "returnm_isString==true?XObject::boolean(*m_stringValue):XObject::boolean(m_numberValue);": ".ite .boolOfStr .boolOfNum",
    "returnXObject::boolean(*m_stringValue);": ".boolOfStr",
    "returnXObject::boolean(m_numberValue);": ".boolOfNum",
    "returnm_numberValue;": ".numField",
    "return*m_stringValue;": ".strField",
    "string(*m_stringValue,formatterListener,function);": ".charsOfStr",
    "theBuffer.append(*m_stringValue);": ".appendStr",
}


def tok_set(body):
    parts = sorted(x for x in body.split(";") if x)
    if parts == sorted(["m_stringValue=&theString", "m_numberValue=theNumber", "m_isString=true"]):
        return ".setFields true"
    if parts == sorted(["m_stringValue=&theString", "m_numberValue=theNumber", "m_isString=false"]):
        return ".setFields false"
    return None


# static / virtual conversion helpers: (key, tag) by exact normalised body
CONV = {
    "return!DoubleSupport::isNaN(theNumber)&&!DoubleSupport::equal(theNumber,0.0);": "notNaN-and-notZero",
    "returntheString.length()==0?false:true;": "length-nonzero",
    "returntheNodeList.getLength()==0?false:true;": "length-nonzero",
    "returntheBool==true?s_trueString:s_falseString;": "true-false",
    "theString.append(theBool==true?s_trueString:s_falseString);": "append true-false",
    "if(theBool==true){(formatterListener.*function)(s_trueString.c_str(),s_trueString.length());}else{(formatterListener.*function)(s_falseString.c_str(),s_falseString.length());}": "event true-false",
    "NumberToDOMString(theNumber,theString);": "append NumberToDOMString",
    "DOMStringHelper::NumberToCharacters(theNumber,formatterListener,function);": "event NumberToCharacters",
    "if(theNodeList.getLength()>0){string(*theNodeList.item(0),theExecutionContext,theString);}": "append data(first node)",
    "if(theNodeList.getLength()>0){DOMServices::getNodeData(*theNodeList.item(0),theExecutionContext,formatterListener,function);}": "events data(first node)",
    "DOMServices::getNodeData(theNode,theExecutionContext,theString);": "append data(node)",
    "DOMServices::getNodeData(theNode,theExecutionContext,formatterListener,function);": "events data(node)",
    "constXalanDOMString::size_typetheLength=theString.length();if(theLength!=0){(formatterListener.*function)(theString.c_str(),static_cast<FormatterListener::size_type>(theLength));}": "event if nonempty",
    "returntheBoolean==true?1.0:0.0;": "one-zero",
    "returnDoubleSupport::toDouble(theString,theManager);": "toDouble",
    "constGetCachedStringtheGuard(executionContext);XalanDOMString&theString=theGuard.get();XObject::string(theNode,executionContext,theString);returnXObject::number(theString,executionContext.getMemoryManager());": "toDouble(data(node))",
    "if(theNodeList.getLength()==0){returnnumber(s_emptyString,executionContext.getMemoryManager());}else{returnnumber(executionContext,*theNodeList.item(0));}": "toDouble(data(first node)) or toDouble('')",
    # virtual conversions of the XObject classes
    "returnnumber(m_value);": "static number(value)",
    "returnm_value;": "value",
    "returnstring(m_value);": "static string(value)",
    "returnXObject::boolean(num(executionContext));": "static boolean(num())",
    "return!str(executionContext).empty();": "str() nonempty",
    "if(m_cachedNumberValue==0.0){m_cachedNumberValue=DoubleSupport::toDouble(str(executionContext),getMemoryManager());}returnm_cachedNumberValue;": "memo toDouble(str())",
    "returngetLength()>0?true:false;": "length-nonzero",
    "if(DoubleSupport::equal(m_cachedNumberValue,theBogusNumberValue)==true){m_cachedNumberValue=DoubleSupport::toDouble(str(executionContext),getMemoryManager());}returnm_cachedNumberValue;": "memo toDouble(str())",
    "if(m_cachedStringValue.empty()==true&&getLength()>0){constXalanNode*consttheNode=item(0);DOMServices::getNodeData(*theNode,executionContext,m_cachedStringValue);}returnm_cachedStringValue;": "memo data(first node)",
    "if(m_cachedStringValue.empty()==true){NumberToDOMString(m_value,m_cachedStringValue);}returnm_cachedStringValue;": "memo NumberToDOMString(value)",
}


def chars_of(src, name):
    m = re.search(r"static\s+const\s+XalanDOMChar\s+%s\[\]\s*=\s*\{([^}]*)\}" % name, src)
    if not m:
        die("character array %s not found" % name)
    out = []
    for it in [x.strip() for x in m.group(1).split(",") if x.strip()]:
        if it == "0":
            break
        mm = re.fullmatch(r"XalanUnicode::charLetter_(\w)", it)
        if not mm:
            die("%s: cannot read %r" % (name, it))
        out.append(ord(mm.group(1)))
    return out


def main():
    thpp, tcpp = read(XP + "XToken.hpp"), read(XP + "XToken.cpp")
    tok = {}
    cm = re.search(r"class\s+\w+\s+XToken\b[^;{]*\{", thpp)
    if not cm:
        die("class XToken not found")
    cbody = thpp[cm.end():match_brace(thpp, cm.end() - 1)]
    for params, body, line in bodies(cbody, r"(?<![\w:>.~])(boolean|num)"):
        pass
    for name, key in (("boolean", "booleanInline"), ("num", "numInline")):
        got = [b for b in bodies(cbody, r"(?<![\w:>.~])" + name) if sig(b[0]) == ""]
        if len(got) != 1:
            die("inline XToken::%s() not found" % name)
        tok[key] = (TOK.get(got[0][1], ".other %d" % got[0][2]), got[0][2])
    want = {("boolean", "e"): "booleanV", ("num", "e"): "numV", ("str", "e"): "strV", ("str", ""): "str0",
            ("str", "eLf"): "strCharsV", ("str", "Lf"): "strChars", ("str", "eS"): "strBufV", ("str", "S"): "strBuf"}
    for name in ("boolean", "num", "str"):
        for params, body, line in bodies(tcpp, r"\bXToken::" + name):
            k = want.get((name, sig(params)))
            if k:
                tok[k] = (TOK.get(body, ".other %d" % line), line)
    for params, body, line in bodies(tcpp, r"\bXToken::set"):
        k = {"sd": "setString", "ds": "setNumber"}.get(sig(params))
        if k:
            tok[k] = (tok_set(body) or ".other %d" % line, line)
    methods = ["booleanInline", "numInline", "booleanV", "numV", "strV", "str0", "strCharsV", "strChars", "strBufV", "strBuf",
               "setString", "setNumber"]
    for k in methods:
        if k not in tok:
            die("XToken member for %s not found" % k)

    # compiler invariants
    xe = read(XP + "XPathExpression.cpp")
    lit_ok = any(sig(p) == "s" and ".set(theToken,DoubleSupport::toDouble(theToken,getMemoryManager()));" in b
                 for p, b, _ in bodies(xe, r"\bXPathExpression::pushArgumentOnOpCodeMap"))
    num_set_ok = any(sig(p) == "ds" and ".set(theNumber,theString);" in b
                     for p, b, _ in bodies(xe, r"\bXPathExpression::pushArgumentOnOpCodeMap"))
    xp = read(XP + "XPathProcessorImpl.cpp")
    nb = bodies(xp, r"\bXPathProcessorImpl::Number")
    num_ok = bool(nb) and all(t in nb[0][1] for t in (
        "constdoublenum=DoubleSupport::toDouble(m_token,m_constructionContext->getMemoryManager());",
        "NumberToDOMString(num,theStringValue);",
        "m_expression->pushArgumentOnOpCodeMap(num,m_constructionContext->getPooledString(theStringValue));")) and num_set_ok
    lb = bodies(xp, r"\bXPathProcessorImpl::Literal")
    litsrc_ok = bool(lb) and "m_expression->pushArgumentOnOpCodeMap(m_constructionContext->getPooledString(m_token.c_str()+1,m_token.length()-2));" in lb[0][1]

    # static conversions (XObject.hpp inline, XObject.cpp) and the virtual ones
    ohpp, ocpp = read(XP + "XObject.hpp"), read(XP + "XObject.cpp")
    rows = []
    cm = re.search(r"class\s+\w+\s+XObject\b[^;{]*\{", ohpp)
    ob = ohpp[cm.end():match_brace(ohpp, cm.end() - 1)]
    for name in ("boolean", "string", "number"):
        for params, body, line in bodies(ob, r"static\s+[\w:&\s]+?\b" + name):
            if sig(params) in ("nS", "nLf", "lS", "lLf"):
                continue        # deprecated overloads without an execution context: not called by any entry point
            rows.append(("XObject::%s(%s)" % (name, sig(params)), CONV.get(body, "other:%d" % line)))
        for params, body, line in bodies(ocpp, r"\bXObject::" + name):
            rows.append(("XObject::%s(%s)" % (name, sig(params)), CONV.get(body, "other:%d" % line)))
    for cls, names in (("XBoolean", ("num", "boolean", "str")), ("XNumberBase", ("boolean",)), ("XNumber", ("num", "str")),
                       ("XStringBase", ("boolean", "num")), ("XNodeSetBase", ("boolean", "num", "str"))):
        src = read(XP + cls + ".cpp")
        for name in names:
            for params, body, line in bodies(src, r"\b%s::%s" % (cls, name)):
                if sig(params) == "e":
                    rows.append(("%s::%s(e)" % (cls, name), CONV.get(body, "other:%d" % line)))
    rows.sort()
    true_s, false_s = chars_of(ocpp, "s_true"), chars_of(ocpp, "s_false")

    L = ["/- GENERATED by translate/c11_token.py from %s -- do not edit -/" % REPO, "import XalanModel.C11.Syntax",
         "namespace XalanModel.Generated.C11", "open XalanModel.C11", "",
         "/-- normalised bodies of XToken's conversion members -/", "def tokenMethod : TMethod → TExpr"]
    for k in methods:
        L.append("  | .%s => %s  -- line %d" % (k, tok[k][0], tok[k][1]))
    L += ["", "/-- XPathExpression::pushArgumentOnOpCodeMap(string) stores DoubleSupport::toDouble(string) as the token's number,",
          "and XPathProcessorImpl::Literal passes the literal's text without its quotes -/",
          "def literalTokenNumIsToDouble : Bool := %s" % ("true" if lit_ok and litsrc_ok else "false"), "",
          "/-- XPathProcessorImpl::Number stores NumberToDOMString(toDouble(text)) as the token's string -/",
          "def numberTokenStrIsNumberToDOMString : Bool := %s" % ("true" if num_ok else "false"), "",
          "/-- static conversions of XObject and the virtual conversions of XBoolean/XNumber(Base)/XStringBase/XNodeSetBase -/",
          "def convRows : List (String × String) := ["]
    for i, (k, v) in enumerate(rows):
        L.append("  (\"%s\", \"%s\")%s" % (k, v, "," if i + 1 < len(rows) else ""))
    L += ["]", "", "def trueString : List Nat := %s" % true_s, "def falseString : List Nat := %s" % false_s, "",
          "end XalanModel.Generated.C11", ""]
    new = "\n".join(L)
    os.makedirs(os.path.dirname(OUT), exist_ok=True)
    if not os.path.exists(OUT) or open(OUT).read() != new:
        open(OUT, "w").write(new)
    os.makedirs(CACHE, exist_ok=True)
    json.dump({"token": tok, "rows": rows, "lit_ok": lit_ok and litsrc_ok, "num_ok": num_ok},
              open(os.path.join(CACHE, "c11_token.json"), "w"), indent=1)
    print("c11_token: token members %s; invariants lit=%s num=%s; %d conversion rows, unrecognised %d" % (
        {k: v[0] for k, v in tok.items()}, lit_ok and litsrc_ok, num_ok, len(rows), sum(1 for _, v in rows if v.startswith("other"))))
    return 0


if __name__ == "__main__":
    sys.exit(main())
