#!/usr/bin/env python3
"""C10 translator: regenerates lean/XalanModel/Generated/C10_Priority.lean from /repo's working tree.

Extracted (python3 + regex over the source text, comments stripped):
  * XPath.hpp   enum eMatchScore (order)  and  XPath::getMatchScoreValue  (score -> double)
  * XPath.hpp   enum TargetData::eTargetType (order)
  * XPath.cpp   XPath::getTargetData: for every kind of last step the (pseudo-name, default score, target type)
                it files the alternative under, and the "more than one step or a predicate => eMatchScoreOther" override
  * Stylesheet.cpp  Stylesheet::addTemplate: the if/else-if chain that routes a target string to the pattern lists,
                    the two addToTable calls of postConstruction, and the comparison operators of addToList
Any construct that cannot be found in the expected shape makes the translator exit 1 (= obligation broken).

Numeric codes used in the generated tables (fixed here, documented in the generated file):
  score   : position in enum eMatchScore (None=0 NodeTest=1 NSWild=2 QName=3 Other=4 on the pinned tree)
  ttype   : position in enum eTargetType (eAttribute=0 eElement=1 eAny=2 eOther=3), 9 = "no condition"
  pseudo  : TEXT=0 COMMENT=1 ROOT=2 PI=3 NODE=4 ANY=5 NAME=6 (NAME = an ordinary local name, the final else)
  list    : text=0 comment=1 root=2 pi=3 node=4 elementAny=5 attributeAny=6 elementTable[name]=7 attributeTable[name]=8
  laststep: function=0 fromRoot=1 comment=2 text=3 node=4 rootType=5 anyElement=6 piAny=7 piLiteral=8
            name(elem)=9 name(attr)=10 wild(elem)=11 wild(attr)=12 nsWild(elem)=13 nsWild(attr)=14 default=15
"""
import os
import re
import sys
from fractions import Fraction

HERE = os.path.dirname(os.path.abspath(__file__))
ROOT = os.path.dirname(HERE)
REPO = os.environ.get("VERIF_REPO", "/repo")
OUT = os.path.join(ROOT, "lean", "XalanModel", "Generated", "C10_Priority.lean")

PSEUDO = {"TEXT": 0, "COMMENT": 1, "ROOT": 2, "PI": 3, "NODE": 4, "ANY": 5}
LISTS = {"m_textPatternList": 0, "m_commentPatternList": 1, "m_rootPatternList": 2, "m_piPatternList": 3,
         "m_nodePatternList": 4, "m_elementAnyPatternList": 5, "m_attributeAnyPatternList": 6,
         "m_elementPatternTable[tempString]": 7, "m_attributePatternTable[tempString]": 8}


def die(msg):
    sys.stderr.write("c10_priority: cannot translate: %s\n" % msg)
    sys.exit(1)


def strip_comments(s):
    s = re.sub(r"/\*.*?\*/", " ", s, flags=re.S)
    s = re.sub(r"//[^\n]*", "", s)
    return s


def read(rel):
    p = os.path.join(REPO, rel)
    try:
        return strip_comments(open(p, encoding="utf-8", errors="replace").read())
    except OSError as e:
        die(str(e))


def body_of(src, header_re, what):
    """text of the brace-balanced block following the first match of header_re"""
    m = re.search(header_re, src)
    if not m:
        die("no " + what)
    i = src.find("{", m.end())
    if i < 0:
        die("no body for " + what)
    depth, j = 0, i
    while j < len(src):
        if src[j] == "{":
            depth += 1
        elif src[j] == "}":
            depth -= 1
            if depth == 0:
                return src[i + 1:j]
        j += 1
    die("unbalanced body for " + what)


def enum_order(src, name):
    m = re.search(r"enum\s+" + name + r"\s*\{([^}]*)\}", src)
    if not m:
        die("enum " + name)
    names = [x.strip().split("=")[0].strip() for x in m.group(1).split(",") if x.strip()]
    return {n: i for i, n in enumerate(names)}


def main():
    hpp = read("src/xalanc/XPath/XPath.hpp")
    cpp = read("src/xalanc/XPath/XPath.cpp")
    ss = read("src/xalanc/XSLT/Stylesheet.cpp")
    mpd = read("src/xalanc/XSLT/XalanMatchPatternData.cpp")

    score = enum_order(hpp, "eMatchScore")
    ttype = enum_order(hpp, "eTargetType")
    for n in ("eMatchScoreNone", "eMatchScoreNodeTest", "eMatchScoreNSWild", "eMatchScoreQName", "eMatchScoreOther"):
        if n not in score:
            die("enum eMatchScore lacks " + n)
    for n in ("eAttribute", "eElement", "eAny", "eOther"):
        if n not in ttype:
            die("enum eTargetType lacks " + n)

    # ---- getMatchScoreValue
    b = body_of(hpp, r"getMatchScoreValue\s*\(\s*eMatchScore\s+score\s*\)", "getMatchScoreValue")
    vals = {}
    neginf = None
    for m in re.finditer(r"case\s+(eMatchScore\w+)\s*:\s*return\s+([^;]+);", b):
        name, expr = m.group(1), m.group(2).strip()
        if "getNegativeInfinity" in expr:
            neginf = name
            continue
        try:
            f = Fraction(expr) * 100
        except (ValueError, ZeroDivisionError):
            die("getMatchScoreValue: unexpected return expression %r" % expr)
        if f.denominator != 1:
            die("getMatchScoreValue: %s is not a multiple of 0.01" % expr)
        vals[name] = int(f)
    if neginf != "eMatchScoreNone":
        die("getMatchScoreValue(eMatchScoreNone) is not negative infinity")
    if set(vals) != {"eMatchScoreNodeTest", "eMatchScoreNSWild", "eMatchScoreQName", "eMatchScoreOther"}:
        die("getMatchScoreValue: cases found: %s" % sorted(vals))

    # ---- getPriorityOrDefault
    b = body_of(mpd, r"XalanMatchPatternData::getPriorityOrDefault\s*\(\s*\)\s*const", "getPriorityOrDefault")
    flat = re.sub(r"\s+", " ", b)
    if re.search(r"isNegativeInfinity\(templatePriority\) == true\s*\)\s*\{\s*return XPath::getMatchScoreValue\(m_priority\);\s*\}\s*else\s*\{\s*return templatePriority;", flat):
        neg_inf_sentinel = True
    elif re.search(r"if \(m_template->hasPriority\(\) == false\) \{ return XPath::getMatchScoreValue\(m_priority\); \} else \{ return m_template->getPriority\(\); \}", flat):
        et0 = re.sub(r"\s+", " ", read("src/xalanc/XSLT/ElemTemplate.cpp"))
        if not re.search(r"m_priority = DoubleSupport::toDouble\(atts\.getValue\(i\), constructionContext\.getMemoryManager\(\)\); m_hasPriority = true;", et0) \
                or not re.search(r"m_hasPriority\(false\)", et0):
            die("ElemTemplate: m_hasPriority is not maintained as expected")
        neg_inf_sentinel = False
    else:
        die("getPriorityOrDefault has an unexpected shape")

    # ---- getTargetData
    b = body_of(cpp, r"XPath::getTargetData\s*\(\s*TargetDataVectorType\s*&\s*targetData\s*\)\s*const", "getTargetData")
    rows = {}

    def simple(label, code, src_text=b):
        m = re.search(r"case\s+XPathExpression::" + label + r"\s*:(.*?)break\s*;", src_text, flags=re.S)
        if not m:
            die("getTargetData: case " + label)
        t = m.group(1)
        if re.search(r"\bif\b|\bcase\b", t):
            die("getTargetData: case %s is no longer a plain assignment block" % label)
        mp = re.search(r"targetLocalName\s*=\s*PSEUDONAME_(\w+)\s*;", t)
        msc = re.search(r"score\s*=\s*(eMatchScore\w+)\s*;", t)
        mt = re.search(r"targetType\s*=\s*TargetData::(\w+)\s*;", t)
        if not mp or not msc or mp.group(1) not in PSEUDO or msc.group(1) not in score:
            die("getTargetData: case %s: assignments not found" % label)
        tt = mt.group(1) if mt else "eOther"
        rows[code] = (PSEUDO[mp.group(1)], score[msc.group(1)], ttype[tt])

    simple("eOP_FUNCTION", 0)
    simple("eFROM_ROOT", 1)
    simple("eNODETYPE_COMMENT", 2)
    simple("eNODETYPE_TEXT", 3)
    simple("eNODETYPE_NODE", 4)
    simple("eNODETYPE_ROOT", 5)
    simple("eNODETYPE_ANYELEMENT", 6)
    # initial values
    if not re.search(r"TargetData::eTargetType\s+targetType\s*=\s*TargetData::eOther\s*;", b):
        die("getTargetData: initial targetType")
    if not re.search(r"eMatchScore\s+score\s*=\s*eMatchScoreNone\s*;", b):
        die("getTargetData: initial score")
    # attribute step falls through to the ancestor cases and only sets fIsAttribute
    if not re.search(r"case\s+XPathExpression::eMATCH_ATTRIBUTE\s*:\s*fIsAttribute\s*=\s*true\s*;\s*case\s+XPathExpression::eMATCH_ANY_ANCESTOR\s*:\s*case\s+XPathExpression::eMATCH_IMMEDIATE_ANCESTOR\s*:", b):
        die("getTargetData: attribute / ancestor step cases")
    # processing-instruction
    m = re.search(r"case\s+XPathExpression::eNODETYPE_PI\s*:(.*?)case\s+XPathExpression::eNODENAME\s*:", b, flags=re.S)
    if not m:
        die("getTargetData: case eNODETYPE_PI")
    t = re.sub(r"\s+", " ", m.group(1))
    mp = re.search(r"targetLocalName = PSEUDONAME_(\w+);", t)
    m1 = re.search(r"if \(argLen == 1\) \{ score = (eMatchScore\w+); \} else if \(argLen == 2\) \{ score = (eMatchScore\w+); \}", t)
    if not mp or not m1 or mp.group(1) not in PSEUDO:
        die("getTargetData: eNODETYPE_PI block has an unexpected shape")
    rows[7] = (PSEUDO[mp.group(1)], score[m1.group(1)], ttype["eOther"])
    rows[8] = (PSEUDO[mp.group(1)], score[m1.group(2)], ttype["eOther"])
    # name tests
    m = re.search(r"case\s+XPathExpression::eNODENAME\s*:(.*?)default\s*:(.*?)break\s*;", b, flags=re.S)
    if not m:
        die("getTargetData: case eNODENAME")
    t = re.sub(r"\s+", " ", m.group(1))
    dflt = m.group(2)
    if not re.search(r"targetType = fIsAttribute \? TargetData::eAttribute : TargetData::eElement;", t):
        die("getTargetData: eNODENAME target type")
    shape = (r"if\s?\(targetLocalName != 0\) \{ if\s?\(targetLocalName == PSEUDONAME_ANY\) \{ targetLocalName = PSEUDONAME_ANY; "
             r"if \(targetNamespace == 0 \|\| \*targetNamespace == PSEUDONAME_ANY\) \{ score = (eMatchScore\w+); \} else \{ score = (eMatchScore\w+); \} \} "
             r"else \{ score = (eMatchScore\w+); \} \} else \{ targetLocalName = PSEUDONAME_ANY; "
             r"if \(targetNamespace == 0 \|\| \*targetNamespace == PSEUDONAME_ANY\) \{ score = (eMatchScore\w+); \} else \{ score = (eMatchScore\w+); \} \}")
    mm = re.search(shape, t)
    if not mm:
        die("getTargetData: eNODENAME block has an unexpected shape")
    w1, n1, q, w2, n2 = [score[x] for x in mm.groups()]
    if w1 != w2 or n1 != n2:
        die("getTargetData: the two wildcard branches of eNODENAME disagree")
    if not re.search(r"if \(targetLocal == 0\) \{ targetLocalName = 0; \} else \{ targetLocalName = targetLocal->c_str\(\); \}", t):
        die("getTargetData: eNODENAME local-name selection")
    A, E = ttype["eAttribute"], ttype["eElement"]
    rows[9] = (6, q, E)
    rows[10] = (6, q, A)
    rows[11] = (PSEUDO["ANY"], w1, E)
    rows[12] = (PSEUDO["ANY"], w1, A)
    rows[13] = (PSEUDO["ANY"], n1, E)
    rows[14] = (PSEUDO["ANY"], n1, A)
    mp = re.search(r"targetLocalName\s*=\s*PSEUDONAME_(\w+)\s*;", dflt)
    msc = re.search(r"score\s*=\s*(eMatchScore\w+)\s*;", dflt)
    if not mp or not msc:
        die("getTargetData: default node test")
    rows[15] = (PSEUDO[mp.group(1)], score[msc.group(1)], ttype["eOther"])
    flatb = re.sub(r"\s+", " ", b)
    mo = re.search(r"if \(stepCount > 1 \|\| opPos \+ 3 < nextStepPos\) \{ score = (eMatchScore\w+); \}", flatb)
    if not mo:
        die("getTargetData: multi-step / predicate override")
    override = score[mo.group(1)]
    if not re.search(r"targetData\.push_back\(TargetData\(targetLocalName, score, targetType\)\);", flatb):
        die("getTargetData: push_back")

    # ---- addTemplate routing
    b = body_of(ss, r"Stylesheet::addTemplate\s*\(", "Stylesheet::addTemplate")
    i0 = b.find("for (TargetDataVectorType::size_type i = 0; i < nTargets; ++i)")
    if i0 < 0:
        die("addTemplate: loop over targets")
    loop = re.sub(r"\s+", " ", b[i0:])
    mc = re.search(r"createXalanMatchPatternData\( \*theTemplate, m_patternCount, tempString, \*xp, xp->getExpression\(\)\.getCurrentPattern\(\), data\[i\]\.getDefaultPriority\(\)(, i)?\); \+\+m_patternCount;", loop)
    if not mc:
        die("addTemplate: creation of XalanMatchPatternData / position counter")
    entry_has_alt = mc.group(1) is not None
    route = []   # (pseudo, ttype-cond, [lists])
    chain = loop[loop.find("++m_patternCount;"):]
    # top-level chain on tempString
    pos = 0
    tops = list(re.finditer(r"(?:else )?if \(equals\(tempString, XPath::PSEUDONAME_(\w+)\) == true\) \{", chain))
    if [m.group(1) for m in tops] != ["TEXT", "COMMENT", "ROOT", "PI", "NODE", "ANY"]:
        die("addTemplate: routing chain is %s" % [m.group(1) for m in tops])

    def block_at(s, start):
        depth = 0
        for j in range(start, len(s)):
            if s[j] == "{":
                depth += 1
            elif s[j] == "}":
                depth -= 1
                if depth == 0:
                    return s[start + 1:j], j + 1
        die("addTemplate: unbalanced block")

    def adds(t):
        res = []
        for m in re.finditer(r"addToList\(([^,]+), newMatchPat\);", t):
            k = m.group(1).strip()
            if k not in LISTS:
                die("addTemplate: unknown list %r" % k)
            res.append(LISTS[k])
        return res

    def typed(t, pseudo):
        ms = list(re.finditer(r"(?:else )?if \(data\[i\]\.getTargetType\(\) == XPath::TargetData::(\w+)\) \{", t))
        if not ms:
            die("addTemplate: no target-type tests for pseudo %d" % pseudo)
        for m in ms:
            blk, _ = block_at(t, m.end() - 1)
            route.append((pseudo, ttype[m.group(1)], adds(blk)))

    end = 0
    for m in tops:
        blk, end = block_at(chain, m.end() - 1)
        p = PSEUDO[m.group(1)]
        if m.group(1) == "ANY":
            typed(blk, p)
        else:
            if "getTargetType" in blk:
                die("addTemplate: unexpected target-type test for " + m.group(1))
            route.append((p, 9, adds(blk)))
    rest = chain[end:].lstrip()
    if not rest.startswith("else {"):
        die("addTemplate: final else of the routing chain")
    blk, _ = block_at(rest, rest.find("{"))
    typed(blk, 6)

    # ---- postConstruction merges
    b = re.sub(r"\s+", " ", body_of(ss, r"Stylesheet::postConstruction\s*\(", "Stylesheet::postConstruction"))
    merges = []
    for m in re.finditer(r"addToTable\((\w+), (\w+)\);", b):
        tb = {"m_elementPatternTable": 7, "m_attributePatternTable": 8}.get(m.group(1))
        ls = LISTS.get(m.group(2))
        if tb is None or ls is None:
            die("postConstruction: addToTable(%s, %s)" % m.groups())
        merges.append((tb, ls))

    # ---- addToList comparison
    b = re.sub(r"\s+", " ", body_of(ss, r"static void\s+addToList\s*\(", "addToList"))
    m = re.search(r"if \(thePatternPriority (\S+) theCurrentPriority\) \{ break; \} else if \(thePatternPriority (\S+) theCurrentPriority && thePatternPosition (\S+) \(\*theCurrent\)->getPosition\(\)\) \{ break; \} \+\+theCurrent; \} theList\.insert\(theCurrent, thePattern\);", b)
    if not m:
        die("addToList has an unexpected shape")
    ops = {">": 0, ">=": 1, "==": 2, "<": 3, "<=": 4, "!=": 5}
    for o in m.groups():
        if o not in ops:
            die("addToList: operator %r" % o)
    cmp_ops = [ops[o] for o in m.groups()]

    # ---- addImport
    sh = read("src/xalanc/XSLT/Stylesheet.hpp")
    b = re.sub(r"\s+", " ", body_of(sh, r"addImport\s*\(\s*Stylesheet\s*\*\s*theStylesheet\s*\)", "addImport"))
    if "m_imports.insert(m_imports.begin(), theStylesheet);" in b:
        import_front = True
    elif "m_imports.push_back(theStylesheet);" in b:
        import_front = False
    else:
        die("addImport has an unexpected shape")

    # ---- findTemplate: wrapperless branch and duplicate-pattern test of the reporting body
    b = re.sub(r"\s+", " ", body_of(ss, r"Stylesheet::findTemplate\s*\(", "Stylesheet::findTemplate"))
    m = re.search(r"if ?\(m_isWrapperless == true\) \{(.*?)\} else if \(onlyUseImports == true\)", b)
    if not m:
        die("findTemplate: wrapperless branch")
    wb = m.group(1).strip()
    if wb == "return m_firstTemplate;":
        wrapper_all = True
    elif re.fullmatch(r"if \(onlyUseImports == false && mode\.isEmpty\(\) == true && \(targetNodeType == XalanNode::DOCUMENT_NODE \|\| "
                      r"targetNodeType == XalanNode::DOCUMENT_FRAGMENT_NODE\)\) \{ return m_firstTemplate; \} else \{ return 0; \}", wb):
        wrapper_all = False
    else:
        die("findTemplate: wrapperless branch has an unexpected shape: %r" % wb[:200])
    if re.search(r"if ?\(!patterns->empty\(\) && !\(prevMatchPat != 0 && \(prevPat != 0 && equals\(\*prevPat, \*patterns\)\) && "
                 r"prevMatchPat->getTemplate\(\)->getPriority\(\) == matchPat->getTemplate\(\)->getPriority\(\)\)\)", b):
        dup_by_string = True
    elif re.search(r"if ?\(!patterns->empty\(\) && !\(prevMatchPat != 0 && prevMatchPat->getTemplate\(\) == matchPat->getTemplate\(\)\)\)", b):
        dup_by_string = False
    elif re.search(r"if ?\(!patterns->empty\(\) && !\(bestMatchedPattern != 0 && bestMatchedPattern->getTemplate\(\) == matchPat->getTemplate\(\)\)\)", b):
        dup_by_string = False
        skip_best = True
    else:
        die("findTemplate: duplicate-pattern test of the reporting body has an unexpected shape")
    # ---- whole-pattern match + match-time priority (old) or per-alternative match + filed priority (new)
    n_whole = len(re.findall(r"xpath->getMatchScore\(targetNode, \*this, executionContext\)", b))
    n_alt = len(re.findall(r"matchPat->getMatchScore\(targetNode, \*this, executionContext\)", b))
    old_prio = re.search(r"const double priorityVal = rule->getPriority\(\); const double priorityOfRule = \(matchScoreNoneValue != priorityVal\) "
                         r"\? priorityVal : XPath::getMatchScoreValue\(score\);", b) is not None
    new_prio = re.search(r"const double priorityOfRule = matchPat->getPriorityOrDefault\(\);", b) is not None
    first_old = re.search(r"if ?\(priorityOfRule > priorityOfBestMatched\) \{ nConflicts = 0;", b) is not None
    first_new = re.search(r"if ?\(0 == bestMatchedPattern \|\| priorityOfRule > priorityOfBestMatched\) \{ nConflicts = 0;", b) is not None
    if n_whole == 2 and n_alt == 0 and old_prio and not new_prio and first_old and not entry_has_alt and not locals().get("skip_best"):
        per_alt = False
    elif n_whole == 0 and n_alt == 2 and new_prio and not old_prio and first_new and entry_has_alt and locals().get("skip_best"):
        mh = read("src/xalanc/XSLT/XalanMatchPatternData.hpp")
        mh = re.sub(r"\s+", " ", mh)
        if not re.search(r"return m_matchPattern->getMatchScore\( theNode, theResolver, theExecutionContext, m_alternative\);", mh):
            die("XalanMatchPatternData::getMatchScore has an unexpected shape")
        xb = re.sub(r"\s+", " ", cpp)
        if not re.search(r"while ?\(theAlternative > 0 && m_expression\.getOpCodeMapValue\(opPos\) == XPathExpression::eOP_LOCATIONPATHPATTERN\) "
                         r"\{ opPos = m_expression\.getNextOpCodePosition\(opPos\); --theAlternative; \}", xb) or \
           len(re.findall(r"score = locationPathPattern\(executionContext, \*node, opPos\);", xb)) != 2:
            die("XPath::getMatchScore(…, theAlternative) has an unexpected shape")
        per_alt = True
    else:
        die("findTemplate: mixture of whole-pattern and per-alternative matching (%d/%d, %s/%s, %s/%s, %s)" % (
            n_whole, n_alt, old_prio, new_prio, first_old, first_new, entry_has_alt))
    any_any = [ls for p_, c_, ls in route if p_ == 5 and c_ == ttype["eAny"]]
    if len(any_any) != 1:
        die("addTemplate: eAny branch")
    if sorted(any_any[0]) == [5, 6]:
        fn_all = False
    elif sorted(any_any[0]) == [0, 1, 2, 3, 4, 5, 6]:
        fn_all = True
    else:
        die("addTemplate: eAny branch routes to %s" % any_any[0])

    # ---- XPath::stepPattern: does a final child-axis step test the root node (node() then accepts it)?
    b = re.sub(r"\s+", " ", body_of(cpp, r"XPath::stepPattern\s*\(", "XPath::stepPattern"))
    m = re.search(r"case XPathExpression::eMATCH_IMMEDIATE_ANCESTOR: \{ argLen = currentExpression\.getOpCodeArgumentLength\(opPos\); "
                  r"const XalanNode::NodeType nodeType = context->getNodeType\(\); if ?\((.*?)\) \{ opPos \+= 3;", b)
    if not m:
        die("stepPattern: eMATCH_IMMEDIATE_ANCESTOR case")
    cond = m.group(1).strip()
    if cond == "nodeType != XalanNode::ATTRIBUTE_NODE":
        node_root = True
    elif cond == ("nodeType != XalanNode::ATTRIBUTE_NODE && nodeType != XalanNode::DOCUMENT_NODE && "
                  "nodeType != XalanNode::DOCUMENT_FRAGMENT_NODE"):
        node_root = False
    else:
        die("stepPattern: eMATCH_IMMEDIATE_ANCESTOR guard has an unexpected shape: %r" % cond)

    # ---- ElemTemplate::startElement: does a template invoked by xsl:call-template become the current template rule?
    et = re.sub(r"\s+", " ", read("src/xalanc/XSLT/ElemTemplate.cpp"))
    m = re.search(r"ElemTemplate::startElement\(StylesheetExecutionContext& executionContext\) const \{ ParentType::startElement\(executionContext\); (.*?) return beginExecuteChildren\(executionContext\); \}", et)
    if not m:
        die("ElemTemplate::startElement")
    body = m.group(1).strip()
    if body == "executionContext.pushCurrentTemplate(this);":
        call_changes = True
        direct_changes = True
    elif re.fullmatch(r"const ElemTemplateElement\* const theInvoker = executionContext\.getInvoker\(\); if \(theInvoker != 0 && "
                      r"theInvoker->getXSLToken\(\) == StylesheetConstructionContext::ELEMNAME_CALL_TEMPLATE\) \{ "
                      r"executionContext\.pushCurrentTemplate\(executionContext\.getCurrentTemplate\(\)\); \} else \{ "
                      r"executionContext\.pushCurrentTemplate\(this\); \}", body):
        call_changes = False
        direct_changes = True
    elif re.fullmatch(r"const ElemTemplateElement\* const theInvoker = executionContext\.getInvoker\(\); if \(theInvoker != 0 && "
                      r"\(theInvoker->getXSLToken\(\) == StylesheetConstructionContext::ELEMNAME_CALL_TEMPLATE \|\| "
                      r"theInvoker->hasDirectTemplate\(\) == true\)\) \{ "
                      r"executionContext\.pushCurrentTemplate\(executionContext\.getCurrentTemplate\(\)\); \} else \{ "
                      r"executionContext\.pushCurrentTemplate\(this\); \}", body):
        call_changes = False
        direct_changes = False
    else:
        die("ElemTemplate::startElement has an unexpected shape: %r" % body[:300])

    # ---- ElemApplyTemplates: is the new mode pushed before or after the xsl:with-param children are evaluated?
    at = re.sub(r"\s+", " ", read("src/xalanc/XSLT/ElemApplyTemplates.cpp"))
    cut = at.find("#if defined(XALAN_RECURSIVE_STYLESHEET_EXECUTION)")
    if cut < 0:
        die("ElemApplyTemplates.cpp: recursive-execution section not found")
    at = at[:cut]      # the iterative implementation is the one that is compiled
    m = re.search(r"ElemApplyTemplates::startElement\(StylesheetExecutionContext& executionContext\) const \{ ElemTemplateElement::startElement\(executionContext\); (.*?) return getFirstChildElemToExecute\(executionContext\); \}", at)
    if not m:
        die("ElemApplyTemplates::startElement")
    body = m.group(1).strip()
    push = r"if \(isDefaultTemplate\(\) == false\) \{ executionContext\.pushCurrentMode\(m_mode\); \}"
    n_late = len(re.findall(push + r" return findNextTemplateToExecute\(executionContext\);", at))
    n_push = len(re.findall(r"pushCurrentMode\(", at))
    if re.fullmatch(push + r" executionContext\.pushInvoker\(this\);", body) and n_push == 1 and n_late == 0:
        wp_callee_mode = True
    elif body == "executionContext.pushInvoker(this);" and n_push == 2 and n_late == 2 and \
            re.search(r"executionContext\.endParams\(\); " + push + r" return findNextTemplateToExecute", at):
        wp_callee_mode = False
    else:
        die("ElemApplyTemplates: the mode is pushed in an unexpected place (%d pushes, %d before findNextTemplateToExecute)" % (n_push, n_late))
    if len(re.findall(r"popCurrentMode\(", at)) != 1:
        die("ElemApplyTemplates::endElement: popCurrentMode")

    # ---- addToTable: every entry of the wildcard list goes, through addToList, into every named list
    b = re.sub(r"\s+", " ", body_of(ss, r"static void\s+addToTable\s*\(", "addToTable"))
    if not re.search(r"PatternTableMapType::iterator theCurrentTable = theTable\.begin\(\); const PatternTableMapType::iterator theTableEnd = theTable\.end\(\); "
                     r"const PatternTableListType::const_iterator theListEnd = theList\.end\(\); while ?\(theCurrentTable != theTableEnd\) \{ "
                     r"PatternTableListType::const_iterator theCurrent = theList\.begin\(\); while ?\(theCurrent != theListEnd\) \{ "
                     r"addToList\(\(\*theCurrentTable\)\.second, \*theCurrent\); \+\+theCurrent; \} \+\+theCurrentTable; \}", b):
        die("addToTable has an unexpected shape")

    # ---- locateMatchPatternDataList: node type -> list
    NT = {"ELEMENT_NODE": 1, "ATTRIBUTE_NODE": 2, "TEXT_NODE": 3, "CDATA_SECTION_NODE": 4, "PROCESSING_INSTRUCTION_NODE": 7,
          "COMMENT_NODE": 8, "DOCUMENT_NODE": 9, "DOCUMENT_FRAGMENT_NODE": 11}
    b = re.sub(r"\s+", " ", body_of(ss, r"Stylesheet::locateMatchPatternDataList\s*\(", "locateMatchPatternDataList"))
    msw = re.search(r"switch ?\(targetNodeType\) \{(.*)\} return &(\w+);", b)
    if not msw:
        die("locateMatchPatternDataList: switch")
    if msw.group(2) not in LISTS:
        die("locateMatchPatternDataList: fall-through list %s" % msw.group(2))
    locate_rows = []
    locate_default = LISTS[msw.group(2)]
    sw = msw.group(1)
    groups = re.findall(r"((?:case XalanNode::\w+ ?: ?)+)(.*?)break;", sw)
    seen_types = set()
    for labels, action in groups:
        types = re.findall(r"case XalanNode::(\w+)", labels)
        action = action.strip()
        if action == "return locateElementMatchPatternDataList(DOMServices::getLocalNameOfNode(theNode));":
            code = 7
        elif action == ("if ((DOMServices::isNamespaceDeclaration(static_cast<const XalanAttr&>(theNode)) == true)) { return &s_emptyTemplateList; } "
                        "else { return locateAttributeMatchPatternDataList(DOMServices::getLocalNameOfNode(theNode)); }"):
            code = 8
        else:
            m2 = re.fullmatch(r"return &(\w+);", action)
            if not m2 or m2.group(1) not in LISTS:
                die("locateMatchPatternDataList: unexpected action %r" % action[:160])
            code = LISTS[m2.group(1)]
        for t_ in types:
            if t_ not in NT:
                die("locateMatchPatternDataList: unexpected node type " + t_)
            seen_types.add(t_)
            locate_rows.append((NT[t_], code))
    if "default: break;" not in re.sub(r"\s+", " ", sw) and "default:" not in sw:
        die("locateMatchPatternDataList: default label")
    for fn, tb, anyl in (("locateElementMatchPatternDataList", "m_elementPatternTable", "m_elementAnyPatternList"),
                         ("locateAttributeMatchPatternDataList", "m_attributePatternTable", "m_attributeAnyPatternList")):
        b2 = re.sub(r"\s+", " ", body_of(ss, r"Stylesheet::" + fn + r"\s*\(", fn))
        if not re.search(r"const PatternTableMapType::const_iterator i = %s\.find\(theName\); if \(i != %s\.end\(\)\) \{ return &\(\*i\)\.second; \} else \{ return &%s; \}" % (tb, tb, anyl), b2):
            die(fn + " has an unexpected shape")

    # ---- findTemplateToTransformChild: built-in rule per node type (1 = process the children, 2 = copy the string value)
    te = re.sub(r"\s+", " ", read("src/xalanc/XSLT/ElemTemplateElement.cpp"))
    i_fn = te.find("ElemTemplateElement::findTemplateToTransformChild( StylesheetExecutionContext& executionContext, const ElemTemplateElement& xslInstruction, "
                   "const ElemTemplateElement* theTemplate, XalanNode* child, XalanNode::NodeType nodeType) const")
    if i_fn < 0:
        die("findTemplateToTransformChild: signature")
    fb = te[i_fn:i_fn + 6000]
    msw = re.search(r"if ?\(0 == theTemplate\) \{ switch ?\(nodeType\) \{(.*?)default: break; \} \}", fb)
    if not msw:
        die("findTemplateToTransformChild: built-in rule switch")
    RULE = {"getDefaultRule": 1, "getDefaultRootRule": 1, "getDefaultTextRule": 2}
    builtin_rows = []
    for labels, action in re.findall(r"((?:case XalanNode::\w+ ?: ?)+)(.*?)break;", msw.group(1)):
        types = re.findall(r"case XalanNode::(\w+)", labels)
        action = action.strip()
        m2 = re.fullmatch(r"theTemplate = getStylesheet\(\)\.getStylesheetRoot\(\)\.(\w+)\(\);", action)
        m3 = re.fullmatch(r"if \(DOMServices::isNamespaceDeclaration\(static_cast<const XalanAttr&>\(\*child\)\) == false\) \{ "
                          r"theTemplate = getStylesheet\(\)\.getStylesheetRoot\(\)\.(\w+)\(\); \}", action)
        mm = m2 or m3
        if not mm or mm.group(1) not in RULE:
            die("findTemplateToTransformChild: unexpected built-in action %r" % action[:160])
        for t_ in types:
            if t_ not in NT:
                die("findTemplateToTransformChild: unexpected node type " + t_)
            builtin_rows.append((NT[t_], RULE[mm.group(1)]))
    if not re.search(r"if ?\(theTemplate == getStylesheet\(\)\.getStylesheetRoot\(\)\.getDefaultTextRule\(\)\) \{ switch ?\(nodeType\) \{ "
                     r"case XalanNode::CDATA_SECTION_NODE: case XalanNode::TEXT_NODE: executionContext\.cloneToResultTree\( \*child, XalanNode::TEXT_NODE, true, false, getLocator\(\)\); break; "
                     r"case XalanNode::ATTRIBUTE_NODE: \{ const XalanDOMString& val = child->getNodeValue\(\);", fb):
        die("findTemplateToTransformChild: application of the built-in text rule")
    sr = re.sub(r"\s+", " ", body_of(read("src/xalanc/XSLT/StylesheetRoot.cpp"), r"StylesheetRoot::initDefaultRule\s*\(", "initDefaultRule"))
    for rule, child in (("m_defaultRule", "ELEMNAME_APPLY_TEMPLATES"), ("m_defaultTextRule", "ELEMNAME_VALUE_OF"),
                        ("m_defaultRootRule", "ELEMNAME_APPLY_TEMPLATES")):
        if not re.search(rule + r" = constructionContext\.createElement\( StylesheetConstructionContext::ELEMNAME_TEMPLATE, \*this, attrs\);.*?"
                         r"childrenElement = constructionContext\.createElement\( StylesheetConstructionContext::" + child +
                         r", \*this, attrs\); assert\(childrenElement != 0\); " + rule + r"->appendChildElem\(childrenElement\); " +
                         rule + r"->setDefaultTemplate\(true\);", sr):
            die("initDefaultRule: %s is not a template with a single %s child marked as default template" % (rule, child))

    os.makedirs(os.path.dirname(OUT), exist_ok=True)
    L = []
    L.append("/- GENERATED by translate/c10_priority.py from %s -- do not edit.\n   codes: see the translator's doc string. -/" % REPO)
    L.append("namespace XalanModel.Generated.C10")
    L.append("/-- position of each enumerator in `enum eMatchScore` : None NodeTest NSWild QName Other -/")
    L.append("def scoreCodes : List Nat := [%d, %d, %d, %d, %d]" % tuple(score[n] for n in (
        "eMatchScoreNone", "eMatchScoreNodeTest", "eMatchScoreNSWild", "eMatchScoreQName", "eMatchScoreOther")))
    L.append("/-- position in `enum eTargetType` : eAttribute eElement eAny eOther -/")
    L.append("def ttypeCodes : List Nat := [%d, %d, %d, %d]" % tuple(ttype[n] for n in ("eAttribute", "eElement", "eAny", "eOther")))
    L.append("/-- `XPath::getMatchScoreValue` times 100 (eMatchScoreNone is negative infinity) -/")
    L.append("def valNodeTest : Int := %d" % vals["eMatchScoreNodeTest"])
    L.append("def valNSWild : Int := %d" % vals["eMatchScoreNSWild"])
    L.append("def valQName : Int := %d" % vals["eMatchScoreQName"])
    L.append("def valOther : Int := %d" % vals["eMatchScoreOther"])
    L.append("/-- `XPath::getTargetData`: last-step kind -> (pseudo name, score, target type) -/")
    L.append("def targetRows : List (Nat × Nat × Nat × Nat) := [" + ", ".join(
        "(%d, %d, %d, %d)" % ((k,) + rows[k]) for k in sorted(rows)) + "]")
    L.append("/-- score forced when the alternative has more than one step or a predicate -/")
    L.append("def complexOverride : Nat := %d" % override)
    L.append("/-- `Stylesheet::addTemplate`: (pseudo name, target-type condition or 9, lists the entry is added to, in order) -/")
    L.append("def routeRows : List (Nat × Nat × List Nat) := [" + ", ".join(
        "(%d, %d, [%s])" % (p, c, ", ".join(str(x) for x in ls)) for p, c, ls in route) + "]")
    L.append("/-- `Stylesheet::postConstruction`: addToTable(table, list) calls -/")
    L.append("def mergeRows : List (Nat × Nat) := [" + ", ".join("(%d, %d)" % x for x in merges) + "]")
    L.append("/-- `locateMatchPatternDataList`: DOM node type (1 element, 2 attribute, 3 text, 4 CDATA, 7 PI, 8 comment, 9 document,"
             " 11 fragment) -> list code (7/8 = named table falling back to the wildcard list; attribute: nothing for a namespace declaration) -/")
    L.append("def locateRows : List (Nat × Nat) := [" + ", ".join("(%d, %d)" % x for x in sorted(locate_rows)) + "]")
    L.append("def locateDefault : Nat := %d" % locate_default)
    L.append("/-- `findTemplateToTransformChild`: built-in rule per node type: 1 = apply-templates to the children in the current mode,"
             " 2 = copy the string value; a type that is not listed has no built-in action -/")
    L.append("def builtinRows : List (Nat × Nat) := [" + ", ".join("(%d, %d)" % x for x in sorted(builtin_rows)) + "]")
    L.append("/-- `addToList`: the three comparison operators (0 is >, 1 is >=, 2 is ==, 3 is <, 4 is <=, 5 is !=) -/")
    L.append("def addToListOps : List Nat := [%d, %d, %d]" % tuple(cmp_ops))
    L.append("/-- `Stylesheet::addImport` inserts at the front of m_imports -/")
    L.append("def importAtFront : Bool := %s" % ("true" if import_front else "false"))
    L.append("/-- `findTemplate` on a simplified stylesheet returns its template for every node and mode (unchanged code) -/")
    L.append("def wrapperlessAnswersAll : Bool := %s" % ("true" if wrapper_all else "false"))
    L.append("/-- the reporting body skips an entry whose pattern string and priority equal the previous one's (unchanged code);"
             " false: it skips further entries of the same template only -/")
    L.append("def dupSkipByPatternString : Bool := %s" % ("true" if dup_by_string else "false"))
    L.append("/-- each entry matches only its own union alternative and both findTemplate bodies rank by the filed priority"
             " (with proposed/C10-union-per-alternative.diff); false: whole-pattern match, match-time priority in the reporting body -/")
    L.append("def perAlternativeMatch : Bool := %s" % ("true" if per_alt else "false"))
    L.append("/-- a bare id()/key() target (pseudo ANY, type eAny) is filed in every list; false: element and attribute wildcard lists only (unchanged code) -/")
    L.append("def functionTargetsAllLists : Bool := %s" % ("true" if fn_all else "false"))
    L.append("/-- `XPath::stepPattern` tests a final child-axis step on the root node too, so `node()` accepts the root"
             " (false once the guard `nodeType != DOCUMENT_NODE` is in the source) -/")
    L.append("def nodeTestAcceptsRoot : Bool := %s" % ("true" if node_root else "false"))
    L.append("/-- a priority attribute whose value is negative infinity is taken for 'no priority attribute' (unchanged code);"
             " false with proposed/C10-priority-negative-overflow.diff (ElemTemplate::hasPriority) -/")
    L.append("def negInfPriorityMeansNone : Bool := %s" % ("true" if neg_inf_sentinel else "false"))
    L.append("/-- xsl:apply-templates pushes its mode before its xsl:with-param children are evaluated, so xsl:apply-imports in a"
             " parameter body sees the callee's mode (unchanged code); false with proposed/C10-with-param-caller-mode.diff -/")
    L.append("def withParamSeesCalleeMode : Bool := %s" % ("true" if wp_callee_mode else "false"))
    L.append("/-- a template invoked by xsl:call-template becomes the current template rule (unchanged code);"
             " false with proposed/C10-call-template-current-rule.diff -/")
    L.append("def callTemplateChangesCurrentRule : Bool := %s" % ("true" if call_changes else "false"))
    L.append("/-- the same when the xsl:call-template is the only child of its parent and has no parameters: the parent then runs"
             " the named template directly (eHasDirectTemplate) and is the invoker; false with"
             " proposed/C10-direct-call-template-current-rule.diff -/")
    L.append("def directCallTemplateChangesCurrentRule : Bool := %s" % ("true" if direct_changes else "false"))
    L.append("end XalanModel.Generated.C10")
    txt = "\n".join(L) + "\n"
    old = None
    if os.path.exists(OUT):
        old = open(OUT, encoding="utf-8").read()
    if old != txt:
        with open(OUT, "w", encoding="utf-8") as h:
            h.write(txt)
    print("c10_priority: wrote %s (%d target rows, %d routing rows)" % (os.path.relpath(OUT, ROOT), len(rows), len(route)))


if __name__ == "__main__":
    main()
