#!/usr/bin/env python3
"""C14 translator: decides, from the *current source text*, which form four small code sites of the namespace
fix-up have (the form first analysed, or the form after the corresponding proposed/C14-*.diff), and writes
lean/XalanModel/Generated/C14_Variant.lean.  A site that matches neither form is an error (exit 1): the model no
longer knows what the code says there.  The choice is additionally validated by the correspondence run."""
import os
import re
import sys

HERE = os.path.dirname(os.path.dirname(os.path.abspath(__file__)))
REPO = os.environ.get("VERIF_REPO", "/repo")
OUT = os.path.join(HERE, "lean", "XalanModel", "Generated", "C14_Variant.lean")


def body_of(text, signature):
    """text of the function whose definition starts with `signature` (brace matching)"""
    i = text.find(signature)
    if i < 0:
        return None
    j = text.find("{", i)
    depth = 0
    for k in range(j, len(text)):
        if text[k] == "{":
            depth += 1
        elif text[k] == "}":
            depth -= 1
            if depth == 0:
                return text[j:k + 1]
    return None


def norm(s):
    return re.sub(r"\s+", " ", re.sub(r"//[^\n]*", "", s))


def main():
    errs = []
    flags = {}
    sites = {}
    ea = open(os.path.join(REPO, "src/xalanc/XSLT/ElemAttribute.cpp"), encoding="utf-8", errors="replace").read()
    b = body_of(ea, "ElemAttribute::startElement(StylesheetExecutionContext&")
    if b is None:
        errs.append("ElemAttribute::startElement not found")
    else:
        n = norm(b)
        old = "getResultPrefixForNamespace(attrNameSpace); if (prefix == 0)" in n
        new = "getResultNamespaceForPrefix(nsprefix); if (theBoundNamespace == 0 || *theBoundNamespace != attrNameSpace)" in n
        if old == new:
            errs.append("ElemAttribute::startElement: declaration test of the no-namespace branch not recognised")
        flags["ownPrefixDecl"] = new
        old = "if(0 != m_namespaceAVT) {" in n
        new = "if(0 != m_namespaceAVT && executionContext.isElementPending() == true) {" in n
        if old == new:
            errs.append("ElemAttribute::startElement: guard of the namespace branch not recognised")
        flags["lateAttrCheck"] = new
    ee = open(os.path.join(REPO, "src/xalanc/XSLT/ElemElement.cpp"), encoding="utf-8", errors="replace").read()
    b = body_of(ee, "ElemElement::startElement(StylesheetExecutionContext&")
    if b is None:
        errs.append("ElemElement::startElement not found")
    else:
        n = norm(b)
        new = "if (havePrefix == true && m_namespaceAVT != 0 && namespaceLen == 0) { elemName.erase(0, indexOfNSSep + 1); havePrefix = false; } else if (havePrefix == true)" in n
        old = "const bool havePrefix = indexOfNSSep == len ? false : true;" in n and "if (havePrefix == true) { substring(elemName, prefix, 0, indexOfNSSep);" in n
        if old == new:
            errs.append("ElemElement::startElement: prefix handling not recognised")
        flags["emptyNsStrips"] = new
    # the engine's stack is DOMSupport/XalanNamespacesStack (XSLT/ResultNamespacesStack.* is not used by the library)
    nh = open(os.path.join(REPO, "src/xalanc/DOMSupport/XalanNamespacesStack.hpp"), encoding="utf-8", errors="replace").read()
    nc = open(os.path.join(REPO, "src/xalanc/DOMSupport/XalanNamespacesStack.cpp"), encoding="utf-8", errors="replace").read()
    old = "getPrefixForNamespace(const XalanDOMString& theURI) const { return findEntry(theURI, &value_type::getPrefixForNamespace); }" in norm(nh)
    b = body_of(nc, "XalanNamespacesStack::getPrefixForNamespace(")
    new = b is not None and "getNamespaceForPrefix(ns.getPrefix()); if (theBoundURI != 0 && equals(*theBoundURI, theURI)) { return &ns.getPrefix(); }" in norm(b)
    if old == new:
        errs.append("XalanNamespacesStack::getPrefixForNamespace not recognised")
    flags["shadowCheck"] = new
    # the two built-in prefixes are answered before the stack is consulted
    b = body_of(nc, "XalanNamespacesStack::getNamespaceForPrefix(")
    if b is None or "if(thePrefix == DOMServices::s_XMLString) { return &DOMServices::s_XMLNamespaceURI; } else if (thePrefix == DOMServices::s_XMLNamespace) { return &DOMServices::s_XMLNamespacePrefixURI; } else { return findEntry(thePrefix, &value_type::getNamespaceForPrefix); }" not in norm(b):
        errs.append("XalanNamespacesStack::getNamespaceForPrefix not recognised")
    if "XalanNamespacesStack m_resultNamespacesStack;" not in norm(open(os.path.join(REPO, "src/xalanc/XSLT/XSLTEngineImpl.hpp"), encoding="utf-8", errors="replace").read()):
        errs.append("XSLTEngineImpl::m_resultNamespacesStack is no longer a XalanNamespacesStack")
    el = open(os.path.join(REPO, "src/xalanc/XSLT/ElemLiteralResult.cpp"), encoding="utf-8", errors="replace").read()
    b = body_of(el, "ElemLiteralResult::init(")
    if b is None:
        errs.append("ElemLiteralResult::init not found")
    else:
        n = norm(b)
        new = "if (equals(aname, DOMServices::s_XMLNamespace)) { needToProcess = false; } else if (indexOfNSSep < len) {" in n
        old = "const XalanDOMString::size_type len = length(aname); if (indexOfNSSep < len) { substring(aname, theBuffer, 0, indexOfNSSep); if (!equals(theBuffer, DOMServices::s_XMLNamespace))" in n
        if old == new:
            errs.append("ElemLiteralResult::init: handling of xmlns attributes not recognised")
        flags["noXmlnsAvt"] = new
    has_override = "ElemAttribute::namespacesPostConstruction(" in ea
    if has_override:
        b = body_of(ea, "ElemAttribute::namespacesPostConstruction(")
        if b is None or "theHandler.postConstruction( constructionContext, false, getElementName(), &theParentHandler);" not in norm(b):
            errs.append("ElemAttribute::namespacesPostConstruction not recognised")
    flags["attrNoAlias"] = has_override
    en = open(os.path.join(REPO, "src/xalanc/XSLT/XSLTEngineImpl.cpp"), encoding="utf-8", errors="replace").read()
    k = en.find("case XalanNode::ATTRIBUTE_NODE:")
    k2 = en.find("case XalanNode::COMMENT_NODE:", k)
    if k < 0 or k2 < 0:
        errs.append("XSLTEngineImpl::cloneToResultTree: ATTRIBUTE_NODE case not found")
    else:
        n = norm(en[k:k2])
        old = "if (isElementPending() == true) { addResultAttribute( getPendingAttributesImpl(), node.getNodeName(), node.getNodeValue(), true, locator); } else" in n
        new = ("theBoundNamespace = getResultNamespaceForPrefix(thePrefix); if (theBoundNamespace == 0) { createAndAddNamespaceResultAttribute( *m_executionContext, thePrefix, theAttributeNamespace); }" in n
               and "if (theBoundNamespace == 0 || *theBoundNamespace == theAttributeNamespace)" in n
               and "getResultPrefixForNamespace(theAttributeNamespace); if (theOtherPrefix != 0 && theOtherPrefix->empty() == false)" in n
               and "createFixedUpResultAttribute( *m_executionContext, node.getLocalName(), theAttributeNamespace, node.getNodeValue());" in n)
        if old == new:
            errs.append("XSLTEngineImpl::cloneToResultTree: ATTRIBUTE_NODE case not recognised")
        flags["copyAttrNs"] = new
    # --- round 5 sites
    k = en.find("XSLTEngineImpl::flushPending()")
    b = body_of(en, "XSLTEngineImpl::flushPending()")
    if b is None:
        errs.append("XSLTEngineImpl::flushPending not found")
    else:
        n = norm(b)
        new = "removeReplacedPendingAttributes(); AttributeListImpl& thePendingAttributes = getPendingAttributesImpl(); getFormatterListenerImpl()->startElement(" in n
        old = "m_cdataStack.push_back(isCDataResultElem(thePendingElementName)); } AttributeListImpl& thePendingAttributes = getPendingAttributesImpl(); getFormatterListenerImpl()->startElement(" in n
        if old == new:
            errs.append("XSLTEngineImpl::flushPending: start tag delivery not recognised")
        if new:
            rb = body_of(en, "XSLTEngineImpl::removeReplacedPendingAttributes()")
            if rb is None or "if (theEarlierNamespace != 0 && *theEarlierNamespace == *theLaterNamespace)" not in norm(rb) \
                    or "thePendingAttributes.removeAttribute(theNameToRemove.c_str());" not in norm(rb):
                errs.append("XSLTEngineImpl::removeReplacedPendingAttributes not recognised")
        ab = body_of(en, "XSLTEngineImpl::addResultAttribute( AttributeListImpl&") or body_of(en, "XSLTEngineImpl::addResultAttribute(")
        an = norm(ab) if ab else ""
        add_new = ("if (indexOf(aname, XalanUnicode::charColon) < aname.length() && startsWith(aname, DOMServices::s_XMLNamespaceWithSeparator) == false) { attList.removeAttribute(aname.c_str()); } attList.addAttribute(" in an)
        add_old = "if (fExcludeAttribute == false) { attList.addAttribute(" in an
        if add_new == add_old or add_new != new:
            errs.append("XSLTEngineImpl::addResultAttribute / flushPending: attribute replacement not recognised (both or neither expected)")
        flags["dedupExpanded"] = new
    b = body_of(el, "ElemLiteralResult::evaluateAVTs(")
    if b is None:
        errs.append("ElemLiteralResult::evaluateAVTs not found")
    else:
        n = norm(b)
        old = "avt->evaluate(theStringedValue, *this, executionContext); executionContext.addResultAttribute(theName, theStringedValue); theStringedValue.clear();" in n
        new = ("theNamespace = getNamespacesHandler().getNamespace(thePrefix); theBoundNamespace = executionContext.getResultNamespaceForPrefix(thePrefix);" in n
               and "if (theNamespace == 0 || theBoundNamespace == 0 || *theNamespace == *theBoundNamespace) { executionContext.addResultAttribute(theName, theStringedValue); }" in n
               and "executionContext.getResultPrefixForNamespace(*theNamespace); if (theOtherPrefix != 0 && theOtherPrefix->empty() == false)" in n)
        if old == new:
            errs.append("ElemLiteralResult::evaluateAVTs not recognised")
        flags["literalAttrResolve"] = new
    nhc = open(os.path.join(REPO, "src/xalanc/XSLT/NamespacesHandler.cpp"), encoding="utf-8", errors="replace").read()
    b1 = body_of(nhc, "NamespacesHandler::getNamespace(const XalanDOMString& thePrefix) const")
    if b1 is None:
        b1 = body_of(nhc, "NamespacesHandler::getNamespace(")
    b2 = body_of(nhc, "NamespacesHandler::copyExcludeResultPrefixes(")
    if b1 is None or b2 is None:
        errs.append("NamespacesHandler::getNamespace / copyExcludeResultPrefixes not found")
    else:
        n1, n2 = norm(b1), norm(b2)
        old = ("findByPrefix(m_excludedResultPrefixes, thePrefix); if (theNamespace != 0) { return &theNamespace->getURI(); } else { return findNamespace(m_namespaceDeclarations, thePrefix); }" in n1
               and "if (findByPrefix(m_excludedResultPrefixes, (*i).getPrefix()) == 0) { m_excludedResultPrefixes.push_back(*i); }" in n2)
        new = ("findNamespace(m_namespaceDeclarations, thePrefix); if (theURI != 0) { return theURI; }" in n1
               and "m_excludedResultPrefixes.rbegin();" in n1
               and "if (theEntry == 0 || theEntry->getURI() != (*i).getURI()) { theInherited.push_back(*i); }" in n2
               and "theInherited.insert( theInherited.end(), m_excludedResultPrefixes.begin(), m_excludedResultPrefixes.end()); m_excludedResultPrefixes.swap(theInherited);" in n2)
        if old == new:
            errs.append("NamespacesHandler::getNamespace / copyExcludeResultPrefixes not recognised")
        flags["handlerOwnFirst"] = new
    b = body_of(ea, "ElemAttribute::startElement(StylesheetExecutionContext&")
    if b is not None:
        n = norm(b)
        old = ("const bool fPrefixIsXMLNS = startsWith(origAttrName, DOMServices::s_XMLNamespaceWithSeparator);" in n
               and "if (startsWith(origAttrName, DOMServices::s_XMLString) == true)" in n)
        new = ("const bool fPrefixIsXMLNS = startsWith(origAttrName, DOMServices::s_XMLNamespaceWithSeparator) || startsWith(origAttrName, DOMServices::s_XMLStringWithSeparator);" in n
               and "if (startsWith(origAttrName, DOMServices::s_XMLStringWithSeparator) == true)" in n
               and "else if (equals(attrNameSpace, DOMServices::s_XMLNamespaceURI) == true && startsWith(origAttrName, DOMServices::s_XMLStringWithSeparator) == true) { }" in n)
        if old == new:
            errs.append("ElemAttribute::startElement: handling of the xml prefix not recognised")
        flags["xmlPrefixExact"] = new
    # --- namespace aliases across the import tree: assignment semantics of the push-down, insert semantics of the
    # copy-back, and their order in Stylesheet::postConstruction (an obligation, plus the collect-first variant)
    b = body_of(nhc, "NamespacesHandler::overrideNamespaceAliases(")
    if b is None or "for (; i != theEnd; ++i) { m_namespaceAliases[(*i).first] = (*i).second; }" not in norm(b) \
            or "theSource.m_namespaceAliases.begin()" not in norm(b):
        errs.append("NamespacesHandler::overrideNamespaceAliases: must ASSIGN every alias of the source (m_namespaceAliases[key] = value)")
    b = body_of(nhc, "NamespacesHandler::copyNamespaceAliases(const NamespaceAliasesMapType&")
    if b is None or "if (m_namespaceAliases.empty() == true) { m_namespaceAliases = theNamespaceAliases; } else" not in norm(b) \
            or "while(i != theEnd) { m_namespaceAliases.insert(*i); ++i; }" not in norm(b):
        errs.append("NamespacesHandler::copyNamespaceAliases(map): must INSERT without replacing")
    b = body_of(nhc, "NamespacesHandler::copyNamespaceAliases(const NamespacesHandler&")
    if b is None or "copyNamespaceAliases(parentNamespacesHandler.m_namespaceAliases);" not in norm(b):
        errs.append("NamespacesHandler::copyNamespaceAliases(handler) not recognised")
    b = body_of(nhc, "NamespacesHandler::setNamespaceAlias(")
    if b is None or "m_namespaceAliases[&theConstructionContext.getPooledString(theStylesheetNamespace)] = &theConstructionContext.getPooledString(theResultNamespace);" not in norm(b):
        errs.append("NamespacesHandler::setNamespaceAlias not recognised")
    ss = open(os.path.join(REPO, "src/xalanc/XSLT/Stylesheet.cpp"), encoding="utf-8", errors="replace").read()
    b = body_of(ss, "Stylesheet::postConstruction(StylesheetConstructionContext&")
    if b is None:
        errs.append("Stylesheet::postConstruction not found")
    else:
        n = norm(b)
        loop = ("StylesheetVectorType::reverse_iterator i = m_imports.rbegin(); while(i != theEnd) { "
                "(*i)->getNamespacesHandler().overrideNamespaceAliases(m_namespacesHandler); "
                "(*i)->postConstruction(constructionContext); "
                "m_namespacesHandler.copyNamespaceAliases((*i)->getNamespacesHandler());")
        if loop not in n:
            errs.append("Stylesheet::postConstruction: push-down (override) / post-construct / copy-back over the imports in reverse order not recognised")
        new = "collectNamespaceAliases(); { m_importsSize = m_imports.size();" in n
        old = "WhitespaceElementsVectorType::size_type theWhitespaceElementsCount = 0; { m_importsSize = m_imports.size();" in n
        if old == new:
            errs.append("Stylesheet::postConstruction: start of the function not recognised")
        if new:
            cb = body_of(ss, "Stylesheet::collectNamespaceAliases()")
            if cb is None or ("StylesheetVectorType::iterator i = m_imports.begin(); while(i != theEnd) { (*i)->collectNamespaceAliases(); "
                              "m_namespacesHandler.copyNamespaceAliases((*i)->getNamespacesHandler()); ++i; }") not in norm(cb):
                errs.append("Stylesheet::collectNamespaceAliases not recognised")
        flags["aliasCollectFirst"] = new
    # --- result tree fragments: is the result namespaces stack isolated per output context?
    eh = open(os.path.join(REPO, "src/xalanc/XSLT/XSLTEngineImpl.hpp"), encoding="utf-8", errors="replace").read()
    neh = norm(eh)
    old = ("pushOutputContext(FormatterListener* theListener) { m_outputContextStack.pushContext(theListener); }" in neh
           and "popOutputContext() { m_outputContextStack.popContext(); }" in neh)
    new = ("pushOutputContext(FormatterListener* theListener) { m_outputContextStack.pushContext(theListener); m_resultNamespacesStack.pushIsolatedScope(); }" in neh
           and "popOutputContext() { m_outputContextStack.popContext(); m_resultNamespacesStack.popIsolatedScope(); }" in neh)
    if old == new:
        errs.append("XSLTEngineImpl::pushOutputContext / popOutputContext not recognised")
    if new:
        fb = body_of(nc, "XalanNamespacesStack::findEntry( const XalanDOMString& theKey, MemberFunctionType theFunction) const") or body_of(nc, "XalanNamespacesStack::findEntry(")
        pb = body_of(nc, "XalanNamespacesStack::pushIsolatedScope()")
        qb = body_of(nc, "XalanNamespacesStack::popIsolatedScope()")
        gb = body_of(nc, "XalanNamespacesStack::getPrefixForNamespace(")
        ok_ = (fb is not None and pb is not None and qb is not None and gb is not None
               and "if (m_stackPosition == m_stackBegin + m_scopeBase) { return 0; }" in norm(fb)
               and "theBegin(m_stackBegin + m_scopeBase + 1);" in norm(fb)
               and "if (m_stackPosition == m_stackBegin + m_scopeBase) { return 0; }" in norm(gb)
               and "theBegin(m_stackBegin + m_scopeBase + 1);" in norm(gb)
               and "m_scopeBaseStack.push_back(m_scopeBase); m_scopeBase = size_type(NamespacesStackType::const_iterator(m_stackPosition) - NamespacesStackType::const_iterator(m_stackBegin));" in norm(pb)
               and "m_scopeBase = m_scopeBaseStack.back(); m_scopeBaseStack.pop_back();" in norm(qb))
        if not ok_:
            errs.append("XalanNamespacesStack isolated scopes (pushIsolatedScope / popIsolatedScope / findEntry / getPrefixForNamespace) not recognised")
    else:
        fb = body_of(nc, "XalanNamespacesStack::findEntry(")
        if fb is None or "if (m_stackPosition == m_stackBegin) { return 0; }" not in norm(fb) or "theBegin(m_stackBegin);" not in norm(fb):
            errs.append("XalanNamespacesStack::findEntry not recognised")
    flags["rtfIsolatedNs"] = new
    sh_ = open(os.path.join(REPO, "src/xalanc/XSLT/Stylesheet.hpp"), encoding="utf-8", errors="replace").read()
    if "addImport(Stylesheet* theStylesheet) { m_imports.insert(m_imports.begin(), theStylesheet); }" not in norm(sh_):
        errs.append("Stylesheet::addImport: imports are expected to be stored last-import-first")
    if errs:
        print("\n".join(errs))
        return 1
    os.makedirs(os.path.dirname(OUT), exist_ok=True)
    txt = ("import XalanModel.C14.Engine\n"
           "/-! GENERATED by translate/c14_variant.py from %s - do not edit. -/\n"
           "namespace XalanModel.Generated.C14_Variant\n"
           "def variant : XalanModel.C14.Variant :=\n  { %s }\n"
           "end XalanModel.Generated.C14_Variant\n") % (
        REPO, ", ".join("%s := %s" % (k, "true" if v else "false") for k, v in sorted(flags.items())))
    old = open(OUT).read() if os.path.exists(OUT) else None
    if old != txt:
        with open(OUT, "w") as f:
            f.write(txt)
    print("C14 variant:", flags)
    return 0


if __name__ == "__main__":
    sys.exit(main())
