#!/usr/bin/env python3
"""C07 translator: inventory of every C++ construct through which a `const` execution path can write
to an object that threads share  ->  lean/XalanModel/Generated/C07_Share.lean (+ .json sidecar).

Shared roots: StylesheetRoot (compiled stylesheet), XalanSourceTreeDocument and XercesDocumentWrapper
(parsed sources).  From the headers of the working tree the translator computes

  * the class table (name, bases, data members with their declared type, `mutable`, `static`);
  * the set of classes REACHABLE from the roots: through the types of non-static data members, through
    base classes, through nested classes, and -- because the roots hold polymorphic pointers
    (ElemTemplateElement*, XalanNode*, AVTPart*, Function* ...) -- through every class derived from a
    reachable class;
  * for reachable classes, the four kinds of write channel that `const` does not close:
      mutableMember   a data member declared `mutable`            (scope = class,  name = member)
      constCast       a const_cast in a file defining such a class (scope = file,   name = function|target type)
      localStatic     a non-const function-local static there      (scope = file,   name = function|variable)
      globalVar       a non-const static data member / file-scope static object anywhere in the
                      library (process-wide state)                 (scope = class or file, name = variable)
    each with the list of functions that mention it (`funcs`; constructors/destructors excluded), which the
    check uses to attribute ThreadSanitizer reports to table entries.

Everything is regex over comment-stripped source: the table is an *inventory*, its completeness is not
proved (calls through non-const pointer members are not tracked) -- see design/C07.md.  What it does
guarantee: a new `mutable` member, const_cast, local static or non-const static in those classes changes
the table, and `XalanModel.Props.C07.execution_readonly` (by `decide` over the table) stops checking until
the new entry has been classified.

A construct the translator expects and cannot find (the three roots, the ElemTemplateElement hierarchy,
the known mutable members of XercesDocumentWrapper) is an error: exit 1.
"""
import json
import os
import re
import sys

HERE = os.path.dirname(os.path.abspath(__file__))
ROOT = os.path.dirname(HERE)
sys.path.insert(0, ROOT)
from vlib import common  # noqa: E402

SRC = os.path.join(common.REPO, "src", "xalanc")
DIRS = ["Include", "PlatformSupport", "XalanDOM", "DOMSupport", "XMLSupport", "XPath", "XPathCAPI", "XalanSourceTree",
        "XercesParserLiaison", "XSLT", "XalanExtensions", "XalanEXSLT", "XalanTransformer", "ICUBridge"]
ROOTS = ["StylesheetRoot", "XalanSourceTreeDocument", "XercesDocumentWrapper"]
OUT = os.path.join(common.GEN, "C07_Share.lean")


def strip(src):
    """remove comments and string/char literals' contents, keep newlines"""
    out = []
    i, n = 0, len(src)
    while i < n:
        c = src[i]
        if src.startswith("//", i):
            while i < n and src[i] != "\n":
                i += 1
        elif src.startswith("/*", i):
            j = src.find("*/", i + 2)
            j = n if j < 0 else j + 2
            out.append("\n" * src.count("\n", i, j))
            i = j
        elif c == '"' or c == "'":
            q = c
            j = i + 1
            while j < n and src[j] != q:
                j += 2 if src[j] == "\\" else 1
            out.append(q + q)
            i = j + 1
        else:
            out.append(c)
            i += 1
    return "".join(out)


def files():
    res = []
    for d in DIRS:
        p = os.path.join(SRC, d)
        if not os.path.isdir(p):
            continue
        for f in sorted(os.listdir(p)):          # not recursive: XercesParserLiaison/Deprecated is not compiled
            if f.endswith((".hpp", ".cpp", ".h")):
                res.append(os.path.join(p, f))
    return res


def match_brace(s, i):
    """s[i] == '{' -> index just past the matching '}'"""
    d = 0
    n = len(s)
    while i < n:
        if s[i] == "{":
            d += 1
        elif s[i] == "}":
            d -= 1
            if d == 0:
                return i + 1
        i += 1
    return n


CLASS_RE = re.compile(r"\b(class|struct)\s+(?:[A-Z][A-Z0-9_]*_EXPORT(?:_FUNCTION)?\s+|[A-Z][A-Z0-9_]+\s+)?([A-Za-z_]\w*)\s*(?::\s*([^{;]*?))?\s*\{")
SKIP_STMT = re.compile(r"^\s*(typedef|friend|using|enum|template|class|struct|union|public|private|protected|return|delete|if|for|while|switch|case|else|goto|break|continue|throw|namespace|extern|#)\b")
IDENT = re.compile(r"[A-Za-z_]\w*")


def parse_classes(text, fname, classes, outer=None):
    """collect class definitions (recursively) from comment-stripped text"""
    pos = 0
    while True:
        m = CLASS_RE.search(text, pos)
        if not m:
            break
        name = m.group(2)
        ob = m.end() - 1
        cb = match_brace(text, ob)
        body = text[ob + 1:cb - 1]
        pos = cb
        # forward uses like `class X* p` never reach here (no '{'); template<class T> is excluded by the '{' too
        bases = []
        if m.group(3):
            for b in m.group(3).split(","):
                ids = [x for x in IDENT.findall(b) if x not in ("public", "private", "protected", "virtual")]
                if ids:
                    bases.append(ids[-1] if "<" not in b else ids[0])
        qual = name if outer is None else outer + "::" + name
        cl = classes.setdefault(name, {"name": name, "qual": qual, "file": fname, "bases": [], "members": [], "nested": [], "outer": outer, "methods": {}, "static_methods": set()})
        cl["bases"] = sorted(set(cl["bases"]) | set(bases))
        # members: statements at depth 0 of the body
        stmts = []
        cur = []
        i, n = 0, len(body)
        while i < n:
            c = body[i]
            if c == "{":
                j = match_brace(body, i)
                head = "".join(cur)
                if re.search(r"\b(class|struct)\s+\w+[^;(]*$", head) and "(" not in head:
                    pass  # nested class: parsed by the recursive call below
                mh = HEAD_RE.search(re.sub(r"\b(public|private|protected)\s*:", " ", head).strip())
                if mh:
                    nmh = re.sub(r"\s+", "", mh.group(1)).split("::")[-1]
                    tail = head[head.rfind(")") + 1:] if ")" in head else ""
                    isc = bool(re.match(r"\s*const\b", re.sub(r":[^:].*$", "", tail, flags=re.S))) or bool(re.search(r"\)\s*const\b", head))
                    cl["methods"].setdefault(nmh, set()).add(isc)
                    if re.search(r"\bstatic\b", head[:head.find("(")] if "(" in head else head):
                        cl["static_methods"].add(nmh)
                # drop the block (inline function body / nested class / enum / initializer)
                cur = [] if not re.search(r"=\s*$", head) else cur
                i = j
                # an inline function body ends the statement
                if cur == []:
                    while i < n and body[i] in " \t\r\n":
                        i += 1
                    if i < n and body[i] == ";":
                        i += 1
                continue
            if c == ";":
                stmts.append("".join(cur))
                cur = []
            else:
                cur.append(c)
            i += 1
        for st in stmts:
            s = re.sub(r"\b(public|private|protected)\s*:", " ", st)
            s = re.sub(r"^\s*#.*$", " ", s, flags=re.M)
            s = " ".join(s.split())
            if s and "(" in s and not re.match(r"^\s*(typedef|friend|using)\b", s):
                mm = re.search(r"(~?[A-Za-z_]\w*)\s*\((?:[^()]|\([^()]*\))*\)\s*(const\b)?\s*(?:throw\s*\([^)]*\))?\s*(?:=\s*0)?\s*$", s)
                if mm:
                    cl["methods"].setdefault(mm.group(1), set()).add(bool(mm.group(2)))
                    if re.match(r"^\s*static\b", s):
                        cl["static_methods"].add(mm.group(1))
            if not s or SKIP_STMT.match(s) or "(" in s or "operator" in s:
                continue
            s = re.sub(r"\[[^\]]*\]", "", s)          # array bounds
            s = re.sub(r"=.*$", "", s).strip()         # in-class initialiser
            s = re.sub(r":\s*\d+$", "", s).strip()     # bit-field
            mm = re.match(r"^(.*?)([A-Za-z_]\w*)$", s)
            if not mm:
                continue
            typ, mname = mm.group(1).strip(), mm.group(2)
            if not typ or typ in ("const", "static", "mutable"):
                continue
            toks = typ.split()
            cl["members"].append({
                "name": mname, "type": typ,
                "mutable": "mutable" in toks,
                "static": "static" in toks,
                "const": bool(re.search(r"\bconst\s*$", typ)) or (toks and toks[0] in ("const",) and "*" not in typ and "&" not in typ)
                         or ("static" in toks and re.search(r"\bstatic\s+const\b", typ) is not None and "*" not in typ),
            })
        # nested classes
        before = set(classes)
        parse_classes(body, fname, classes, outer=name)
        for nn in set(classes) - before:
            if classes[nn]["outer"] == name:
                cl["nested"].append(nn)
    return classes


HEAD_RE = re.compile(r"((?:[A-Za-z_]\w*(?:<[^<>]*>)?\s*::\s*)*(?:operator\s*(?:\(\s*\)|[^\s(\w][^\s(]*)|(?:~\s*)?[A-Za-z_]\w*))\s*\(((?:[^()]|\([^()]*\))*)\)"
                     r"\s*(?:const\b)?\s*(?:throw\s*\([^)]*\))?\s*(?::[^;{}]*)?$")
CLS_HEAD_RE = re.compile(r"\b(?:class|struct)\s+(?:[A-Z][A-Z0-9_]+\s+)?([A-Za-z_]\w*)\s*(?::[^;{}()]*)?$")
NOT_FUNCS = {"if", "for", "while", "switch", "catch", "return", "sizeof", "else", "do", "defined", "assert"}


def function_spans(text):
    """(qualified name, start, end) of every function body: out-of-line `Class::method(..) {` and inline members
    (qualified with the enclosing class).  Found by walking the brace structure: a `{` whose head (text since the
    previous `;`, `{` or `}`) looks like `name(args) [const] [: inits]` opens a function body."""
    res = []

    def scan(a, b, prefix):
        i = a
        last = a
        while i < b:
            c = text[i]
            if c in ";}":
                last = i + 1
            elif c == "{":
                head = text[last:i]
                head = re.sub(r"^\s*#.*$", " ", head, flags=re.M).strip()
                end = match_brace(text, i)
                m = HEAD_RE.search(head)
                nm = re.sub(r"\s+", "", m.group(1)) if m else None
                if m and nm.split("::")[-1] not in NOT_FUNCS and not re.fullmatch(r"[A-Z][A-Z0-9_]+", nm):
                    nm = re.sub(r"<[^<>]*>", "", nm)
                    res.append(((prefix + "::" + nm) if prefix and "::" not in nm else nm, last, end))
                else:
                    cm = CLS_HEAD_RE.search(head)
                    scan(i + 1, end - 1, cm.group(1) if cm else prefix)
                i = end
                last = end
                continue
            i += 1

    scan(0, len(text), None)
    return res


def enclosing(spans, pos):
    best = None
    for name, a, b in spans:
        if a <= pos < b:
            best = name
    return best


def main():
    if not os.path.isdir(SRC):
        print("c07_share: no source tree at", SRC)
        return 1
    texts = {}
    classes = {}
    for f in files():
        t = strip(open(f, encoding="utf-8", errors="replace").read())
        # drop the deprecated-bridge blocks, which are not compiled
        t = re.sub(r"#if\s+defined\(XALAN_BUILD_DEPRECATED_DOM_BRIDGE\).*?#endif", lambda m: "\n" * m.group(0).count("\n"), t, flags=re.S)
        texts[f] = t
        if f.endswith((".hpp", ".h")):
            parse_classes(t, os.path.relpath(f, SRC), classes)
    for r in ROOTS + ["ElemTemplateElement", "XalanNode", "XPath", "XPathExpression", "Stylesheet"]:
        if r not in classes:
            print("c07_share: class %s not found in the headers" % r)
            return 1

    # self-check of the class parser: every `mutable` keyword in a header must have become a parsed member
    # (otherwise a class body was mis-parsed and a write channel could be missed silently); same for const_cast
    # occurrences vs. the per-file scan below (checked there).
    raw_mut = sum(len(re.findall(r"\bmutable\b", t)) for f, t in texts.items() if f.endswith((".hpp", ".h")))
    parsed_mut = sum(1 for c in classes.values() for m in c["members"] if m["mutable"])
    if raw_mut != parsed_mut:
        seen = set((c["file"], m["name"]) for c in classes.values() for m in c["members"] if m["mutable"])
        missing = []
        for f, t in texts.items():
            if f.endswith((".hpp", ".h")):
                for m in re.finditer(r"\bmutable\b[^;]*?([A-Za-z_]\w*)\s*;", t):
                    if (os.path.relpath(f, SRC), m.group(1)) not in seen:
                        missing.append("%s:%s" % (os.path.relpath(f, SRC), m.group(1)))
        print("c07_share: %d `mutable` keywords in the headers but %d parsed mutable members; not parsed: %s" % (raw_mut, parsed_mut, missing[:10]))
        return 1

    known = set(classes)
    derived = {}
    for c in classes.values():
        for b in c["bases"]:
            derived.setdefault(b, set()).add(c["name"])

    def type_refs(typ):
        return [x for x in IDENT.findall(typ) if x in known]

    # typedefs inside classes hide member types (e.g. `typedef XalanVector<ElemAttributeSet*> X; X m_x;`):
    # resolve one level of typedef names, per file
    typedefs = {}
    for f, t in texts.items():
        for m in re.finditer(r"\btypedef\s+([^;{}]+?)\s+([A-Za-z_]\w*)\s*;", t):
            typedefs.setdefault(m.group(2), set()).update(x for x in IDENT.findall(m.group(1)) if x in known)

    reach = set()
    why = {}
    work = list(ROOTS)
    for r in ROOTS:
        why[r] = "root"
    while work:
        c = work.pop()
        if c in reach:
            continue
        reach.add(c)
        cl = classes[c]
        nxt = []
        for b in cl["bases"]:
            if b in known:
                nxt.append((b, "base of " + c))
        for d in derived.get(c, ()):
            nxt.append((d, "derived from " + c))
        for nn in cl["nested"]:
            nxt.append((nn, "nested in " + c))
        for mem in cl["members"]:
            if mem["static"]:
                continue
            ids = set(type_refs(mem["type"]))
            for x in IDENT.findall(mem["type"]):
                ids |= typedefs.get(x, set()) if x not in known else set()
            for x in ids:
                nxt.append((x, "member %s::%s" % (c, mem["name"])))
        for x, w in nxt:
            if x not in reach:
                why.setdefault(x, w)
                work.append(x)

    # files that implement reachable classes
    reach_files = set()
    for c in reach:
        h = os.path.join(SRC, classes[c]["file"])
        reach_files.add(h)
        cpp = re.sub(r"\.hpp$", ".cpp", h)
        if os.path.exists(cpp):
            reach_files.add(cpp)

    spans = {f: function_spans(t) for f, t in texts.items()}
    entries = []

    def touchers(cls, member):
        """functions (Class::name) mentioning the member, in the class's header and .cpp; ctor/dtor excluded"""
        res = set()
        h = os.path.join(SRC, classes[cls]["file"])
        for f in (h, re.sub(r"\.hpp$", ".cpp", h)):
            t = texts.get(f)
            if t is None:
                continue
            for m in re.finditer(r"\b%s\b" % re.escape(member), t):
                fn = enclosing(spans[f], m.start())
                if fn is None:
                    continue
                short = fn.split("::")[-1]
                if short == cls or short.startswith("~") or short == "create":
                    continue
                res.add(fn)
        return sorted(res)

    # 1. mutable members of reachable classes
    for c in sorted(reach):
        for mem in classes[c]["members"]:
            if mem["mutable"] and not mem["static"]:
                entries.append({"kind": "mutableMember", "scope": c, "name": mem["name"], "funcs": touchers(c, mem["name"]),
                                "where": classes[c]["file"]})
    # 2/3. const_cast and local statics in files implementing reachable classes
    for f in sorted(reach_files):
        t = texts[f]
        rel = os.path.relpath(f, SRC)
        for m in re.finditer(r"\bconst_cast\s*<\s*([^>]+?)\s*>", t):
            fn = enclosing(spans[f], m.start()) or "?"
            tgt = re.sub(r"\s+", "", m.group(1))
            nm = "%s|%s" % (fn, tgt)
            # a const overload that forwards to the non-const one (`const_cast<X*>(this)->f()`) matters only if some const
            # member function calls it: record the const callers in the name, so that a new one is a new, unclassified entry
            short = fn.split("::")[-1]
            if re.search(r"const_cast\s*<[^>]*>\s*\(\s*this\s*\)\s*->\s*%s\s*\(" % re.escape(short), t[m.start():m.start() + 200]):
                callers = set()
                for n2, a2, b2 in spans[f]:
                    ob2 = t.find("{", a2)
                    if n2.split("::")[-1] != short and re.search(r"\)\s*const\b", t[a2:ob2]) and re.search(r"(?<![\w.>])%s\s*\(" % re.escape(short), t[ob2:b2]):
                        callers.add(n2.split("::")[-1])
                nm += "|const-callers:" + (",".join(sorted(callers)) or "none")
            e = {"kind": "constCast", "scope": rel, "name": nm, "funcs": [fn], "where": "%s:%d" % (rel, t.count("\n", 0, m.start()) + 1)}
            if not any(x["kind"] == "constCast" and x["scope"] == e["scope"] and x["name"] == e["name"] for x in entries):
                entries.append(e)
        for name, a, b in spans[f]:
            body = t[a:b]
            for m in re.finditer(r"^\s+static\s+([^;=(]*?[\s\*&])([A-Za-z_]\w*)\s*(?:\[[^\]]*\]\s*)*(?:=|;|\{)", body, re.M):
                # `static const T x` and `static T* const p` are constants; `static const T* p` is a variable
                if (re.search(r"\bconst\b", m.group(1)) and "*" not in m.group(1)) or re.search(r"\*\s*const\s*$", m.group(1).strip()):
                    continue
                entries.append({"kind": "localStatic", "scope": rel, "name": "%s|%s" % (name, m.group(2)), "funcs": [name],
                                "where": "%s:%d" % (rel, t.count("\n", 0, a + m.start()) + 1)})
    # 1b. guarded writes: in a class with `mutable` members, which const member functions reach a function that MUTATES one of
    #     them, and under which condition.  D = functions that mutate a mutable member directly (assignment, ++/--, or a call of a
    #     method that is not a known read accessor); M = D closed under UNGUARDED calls inside the class.  For every const member
    #     function outside M (of the class, or of another class defined in the same files, e.g. a nested walker) each call of a
    #     function of M is an entry, with the conjunction of the enclosing `if` conditions as a parsed boolean formula; a const
    #     function of M that nobody in these files calls is an entry with the condition `true` (an unguarded const mutator).
    READ_ACCESSORS = {"size", "empty", "begin", "end", "find", "length", "c_str", "getNode", "getMemoryManager", "getLength", "get",
                      "item", "front", "back", "rbegin", "rend", "data", "capacity", "ownsObject", "getBlockCount", "count", "at",
                      "getExecutionContext", "getURI", "getType"}
    guard_entries = []

    def split_guards(body):
        """-> list of (callee text position, name, object-or-None, [guards]) for every call `name(` / `obj->name(` / `obj.name(`"""
        res = []
        stack = []          # entries: (kind, cond) kind in {"block","stmt"}
        i, n = 0, len(body)
        pending = None      # condition of an `if (...)` whose statement has not started yet
        last_if_stack = []
        while i < n:
            m = re.compile(r"\b(else\s+if|if|else|while|for|switch|catch)\b").match(body, i)
            if m and (i == 0 or not (body[i - 1].isalnum() or body[i - 1] == "_")):
                kw = re.sub(r"\s+", " ", m.group(1))
                j = m.end()
                cond = None
                if kw != "else":
                    while j < n and body[j] in " \t\r\n":
                        j += 1
                    if j < n and body[j] == "(":
                        d, k = 0, j
                        while k < n:
                            if body[k] == "(":
                                d += 1
                            elif body[k] == ")":
                                d -= 1
                                if d == 0:
                                    break
                            k += 1
                        cond = " ".join(body[j + 1:k].split())
                        # calls inside the condition itself are evaluated under the outer guards
                        for cm in re.finditer(r"(?:\b(\w+)\s*(?:->|\.)\s*)?\b([A-Za-z_]\w*)\s*\(", body[j:k]):
                            res.append((j + cm.start(), cm.group(2), cm.group(1), [g for _, g in stack if g]))
                        j = k + 1
                g = cond if kw in ("if", "else if") else ("?" + kw)
                k = j
                while k < n and body[k] in " \t\r\n":
                    k += 1
                if k < n and body[k] == "{":
                    stack.append(("block", g))
                    i = k + 1
                else:
                    stack.append(("stmt", g))
                    i = j
                continue
            c = body[i]
            if c == "{":
                stack.append(("block", None))
            elif c == "}":
                while stack and stack[-1][0] == "stmt":
                    stack.pop()
                if stack:
                    stack.pop()
                while stack and stack[-1][0] == "stmt":
                    stack.pop()
            elif c == ";":
                while stack and stack[-1][0] == "stmt":
                    stack.pop()
            else:
                cm = re.compile(r"(?:\b(\w+)\s*(?:->|\.)\s*)?\b([A-Za-z_]\w*)\s*\(").match(body, i)
                if cm and (i == 0 or not (body[i - 1].isalnum() or body[i - 1] in "_.>")):
                    res.append((i, cm.group(2), cm.group(1), [g for _, g in stack if g]))
                    i = cm.end() - 1      # stay before '(' so that nested calls in the arguments are seen too
                    i += 1
                    continue
            i += 1
        return res

    def parse_cond(text, varnames):
        """C++ boolean expression -> nested tuples ("var", i, bool) | ("and", a, b) | ("or", a, b) | ("not", a) | ("tt",).
        Anything that is not `flag`, `!flag`, `flag == true/false`, `flag != true/false` becomes an opaque variable of its own."""
        toks = re.findall(r"&&|\|\||==|!=|[()!]|[^\s()!&|=]+|[&|=]", text)
        pos = [0]

        def var(name, val=True):
            if name not in varnames:
                varnames.append(name)
            return ("var", varnames.index(name), val)

        def peek():
            return toks[pos[0]] if pos[0] < len(toks) else None

        def p_or():
            a = p_and()
            while peek() == "||":
                pos[0] += 1
                a = ("or", a, p_and())
            return a

        def p_and():
            a = p_not()
            while peek() == "&&":
                pos[0] += 1
                a = ("and", a, p_not())
            return a

        def p_not():
            if peek() == "!":
                pos[0] += 1
                return ("not", p_not())
            return p_atom()

        def p_atom():
            t = peek()
            if t == "(":
                # a parenthesised boolean expression, unless it turns out to be part of a larger opaque atom
                save = pos[0]
                pos[0] += 1
                a = p_or()
                if peek() == ")":
                    pos[0] += 1
                    if peek() in (None, "&&", "||", ")"):
                        return a
                pos[0] = save
            # opaque / flag atom: tokens up to the next top-level && || or unmatched )
            d, start = 0, pos[0]
            while pos[0] < len(toks):
                t = toks[pos[0]]
                if t == "(":
                    d += 1
                elif t == ")":
                    if d == 0:
                        break
                    d -= 1
                elif t in ("&&", "||") and d == 0:
                    break
                pos[0] += 1
            atom = toks[start:pos[0]]
            if len(atom) == 1 and re.fullmatch(r"m_\w+", atom[0]):
                return var(atom[0], True)
            if len(atom) == 3 and re.fullmatch(r"m_\w+", atom[0]) and atom[1] in ("==", "!=") and atom[2] in ("true", "false"):
                return var(atom[0], (atom[2] == "true") == (atom[1] == "=="))
            if not atom:
                return ("tt",)
            return var(" ".join(atom), True)
        r0 = p_or()
        return r0 if pos[0] >= len(toks) else var(text, True)

    for c in sorted(reach):
        cl = classes[c]
        muts = [mem["name"] for mem in cl["members"] if mem["mutable"] and not mem["static"]]
        if not muts:
            continue
        h = os.path.join(SRC, cl["file"])
        fns = {}          # short name -> {"const": bool, "bodies": [text], "owner": class}
        for f in (h, re.sub(r"\.hpp$", ".cpp", h)):
            t = texts.get(f)
            if t is None:
                continue
            for name, a0, b0 in spans[f]:
                segs = name.split("::")
                owner = segs[-2] if len(segs) >= 2 else None
                if owner is None:
                    continue
                ob = t.find("{", a0)
                key = (owner, segs[-1])
                e0 = fns.setdefault(key, {"const": True, "bodies": [], "ctor": segs[-1] == owner or segs[-1].startswith("~")})
                e0["const"] = e0["const"] and bool(re.search(r"\)\s*const\b", t[a0:ob]))
                e0["bodies"].append(t[ob + 1:b0 - 1])
        own = {k[1] for k in fns if k[0] == c}
        mutre = re.compile(r"\b(%s)\s*(=(?!=)|\+=|-=|\+\+|--|(?:\.|->)\s*([A-Za-z_]\w*)\s*\()" % "|".join(re.escape(x) for x in muts))
        D = set()
        for (owner, fn), info in fns.items():
            if owner != c or info["ctor"]:
                continue
            for b0 in info["bodies"]:
                for m in mutre.finditer(b0):
                    if m.group(3) is None or m.group(3) not in READ_ACCESSORS:
                        D.add(fn)
        calls = {k: [x for b0 in info["bodies"] for x in split_guards(b0)] for k, info in fns.items()}
        M = set(D)
        changed = True
        while changed:
            changed = False
            for (owner, fn), info in fns.items():
                if owner != c or fn in M or info["ctor"]:
                    continue
                for _, callee, obj, guards in calls[(owner, fn)]:
                    if callee in M and obj in (None, "this") and not guards:
                        M.add(fn)
                        changed = True
                        break
        called = set()
        for (owner, fn), info in sorted(fns.items()):
            n_site = 0
            for _, callee, obj, guards in calls[(owner, fn)]:
                if callee not in M or callee not in own:
                    continue
                if owner == c and obj not in (None, "this"):
                    continue
                if owner != c and obj is None:
                    continue
                called.add(callee)
                if owner == c and fn in M:
                    continue            # an unguarded mutator itself: its own callers are looked at
                if not info["const"] or info["ctor"]:
                    continue            # non-const: the owner's build / rebuild phase, not reachable through const access
                n_site += 1
                varnames = []
                cond = ("tt",)
                for gtxt in guards:
                    g1 = parse_cond(gtxt, varnames) if not gtxt.startswith("?") else ("var", (varnames.append(gtxt) or len(varnames) - 1), True)
                    cond = g1 if cond == ("tt",) else ("and", cond, g1)
                guard_entries.append({"kind": "guardedWrite", "scope": c, "name": "%s%s->%s#%d" % ("" if owner == c else owner + "::", fn, callee, n_site),
                                      "funcs": ["%s::%s" % (owner, fn), "%s::%s" % (c, callee)], "where": cl["file"],
                                      "vars": varnames, "cond": cond, "condtext": " && ".join(guards) or "true"})
        for fn in sorted(M):
            info = fns.get((c, fn))
            if info and info["const"] and not info["ctor"] and fn not in called:
                guard_entries.append({"kind": "guardedWrite", "scope": c, "name": "%s#unguarded" % fn, "funcs": ["%s::%s" % (c, fn)],
                                      "where": cl["file"], "vars": [], "cond": ("tt",), "condtext": "true"})
    entries += guard_entries

    # 2b. non-const member functions invoked through pointer members from const member functions of reachable
    #     classes (`const` is shallow: `m_p->mutate()` compiles in a const method when m_p is `T*`)
    def method_constness(cls, name, seen=None):
        seen = seen or set()
        if cls in seen or cls not in classes:
            return None
        seen.add(cls)
        if name in classes[cls]["methods"]:
            return classes[cls]["methods"][name]
        for b in classes[cls]["bases"]:
            r = method_constness(b, name, seen)
            if r is not None:
                return r
        return None

    for c in sorted(reach):
        cl = classes[c]
        ptrs = {}
        for mem in cl["members"]:
            if mem["static"]:
                continue
            t0 = mem["type"]
            const_pointee = bool(re.search(r"<\s*const\b", t0)) if "AutoPtr" in t0 else bool(re.search(r"\bconst\s+[\w:]+(?:<[^<>]*>)?\s*\*", t0))
            if ("*" in t0 or "AutoPtr" in t0) and not const_pointee:
                ids = [x for x in IDENT.findall(t0) if x in known and x not in ("XalanMemMgrAutoPtr", "XalanAutoPtr")]
                if ids:
                    ptrs[mem["name"]] = ids[-1]
        if not ptrs:
            continue
        h = os.path.join(SRC, cl["file"])
        for f in (h, re.sub(r"\.hpp$", ".cpp", h)):
            t = texts.get(f)
            if t is None:
                continue
            for name, a0, b0 in spans[f]:
                if not (name.startswith(c + "::") or ("::" + c + "::") in name):
                    continue
                ob = t.find("{", a0)
                headtxt = t[a0:ob]
                if not re.search(r"\)\s*const\b", headtxt):
                    continue
                body = t[ob:b0]
                for m in re.finditer(r"\b(m_\w+)\s*(?:->|\.get\(\)\s*->)\s*([A-Za-z_]\w*)\s*\(", body):
                    pm, meth = m.group(1), m.group(2)
                    if pm not in ptrs:
                        continue
                    k = method_constness(ptrs[pm], meth)
                    if k is not None and True not in k:
                        e = {"kind": "constPathCall", "scope": c, "name": "%s|%s->%s" % (name.split("::")[-1], pm, meth),
                             "funcs": [name, ptrs[pm] + "::" + meth], "where": "%s:%d" % (os.path.relpath(f, SRC), t.count("\n", 0, ob + m.start()) + 1)}
                        if not any(x["kind"] == e["kind"] and x["scope"] == e["scope"] and x["name"] == e["name"] for x in entries):
                            entries.append(e)
    # 2c. containers with a lazily allocated list head (XalanList, and XalanMap / XalanSet which are built on it) that are
    #     data members of classes whose instances are parts of a shared object.  "Parts of a shared object" is the
    #     STRICT closure of the roots: member types (incl. typedefs), bases, nested classes, and derived classes only of
    #     the polymorphic families the roots actually store (stylesheet elements, AVT parts, source-tree / wrapper nodes).
    tdtext = {}     # per header: typedef name -> texts (typedef names such as `iterator`, `ListType` recur across files)
    for f, t in texts.items():
        for m in re.finditer(r"\btypedef\s+([^;{}]+?)\s+([A-Za-z_]\w*)\s*;", t):
            tdtext.setdefault(f, {}).setdefault(m.group(2), set()).add(m.group(1))

    def expands_to_lazy(typ, f, depth=0):
        if re.search(r"\bXalan(Map|List|Set)\s*<", typ):
            return True
        if depth > 3 or re.search(r"iterator\s*$|_type\s*$", typ.strip()):
            return False
        for x in IDENT.findall(typ):
            for tt in tdtext.get(f, {}).get(x, ()):
                if expands_to_lazy(tt, f, depth + 1):
                    return True
        return False

    FAMILIES = ("ElemTemplateElement", "AVTPart", "XalanSourceTreeElement", "XalanSourceTreeAttr", "XalanSourceTreeText",
                "XalanQName", "XalanMatchPatternData", "NodeTester")
    strict, swork = set(), list(ROOTS)
    while swork:
        c = swork.pop()
        if c in strict or c not in classes:
            continue
        strict.add(c)
        cl = classes[c]
        nxt = [b for b in cl["bases"]] + list(cl["nested"])
        if c in FAMILIES or any(b in FAMILIES for b in cl["bases"]) or c.startswith("Elem"):
            nxt += list(derived.get(c, ()))
        for mem in cl["members"]:
            if mem["static"]:
                continue
            ids = set(type_refs(mem["type"]))
            for x in IDENT.findall(mem["type"]):
                if x not in known:
                    ids |= typedefs.get(x, set())
            nxt += [x for x in ids if not x.endswith("Context") and not x.endswith("ContextDefault")]
        swork += [x for x in nxt if x not in strict]
    strict -= {"XalanMap", "XalanList", "XalanSet", "XalanVector", "XalanDeque", "XalanDOMString", "XalanMemMgrAutoPtr", "XalanAutoPtr"}
    containers = []
    for c in sorted(strict):
        cl = classes[c]
        h = os.path.join(SRC, cl["file"])
        for mem in cl["members"]:
            if mem["static"] or not expands_to_lazy(mem["type"], h):
                continue
            const_users, forced = set(), False
            for f in (h, re.sub(r"\.hpp$", ".cpp", h)):
                t = texts.get(f)
                if t is None:
                    continue
                for name, a0, b0 in spans[f]:
                    if not (name.startswith(c + "::") or ("::" + c + "::") in name):
                        continue
                    ob = t.find("{", a0)
                    headtxt, body = t[a0:ob], t[ob:b0]
                    short = name.split("::")[-1]
                    if not re.search(r"\b%s\b" % re.escape(mem["name"]), headtxt + body):
                        continue
                    touches_head = re.search(r"\b%s\s*\.\s*(end|begin)\s*\(\s*\)" % re.escape(mem["name"]), headtxt + body)
                    if short == c or short == "postConstruction":
                        # constructor / postConstruction (both run before the object is shared): the head exists once they
                        # call the non-const begin()/end(), directly or in a member function they call
                        if touches_head:
                            forced = True
                        else:
                            for callee in re.findall(r"\b([A-Za-z_]\w*)\s*\(\s*\)\s*;", body):
                                for n2, a2, b2 in spans[f]:
                                    if n2 == c + "::" + callee and re.search(r"\b%s\s*\.\s*(end|begin)\s*\(\s*\)" % re.escape(mem["name"]), t[a2:b2]) \
                                            and not re.search(r"\)\s*const\b", t[a2:t.find("{", a2)]):
                                        forced = True
                        continue
                    if re.search(r"\)\s*const\b", headtxt) and re.search(r"\b%s\b" % re.escape(mem["name"]), body):
                        const_users.add(name)
            containers.append({"kind": "lazyContainer", "scope": c, "name": mem["name"],
                               "funcs": (["@forced"] if forced else []) + sorted(const_users), "where": cl["file"], "type": mem["type"]})
    entries += containers

    # 4. process-wide non-const state: static data members (any class) + file-scope statics in .cpp
    for c in sorted(classes):
        for mem in classes[c]["members"]:
            if mem["static"] and not mem["const"]:
                # writers: functions of any file assigning it
                ws = set()
                for f, t in texts.items():
                    for m in re.finditer(r"\b%s\b\s*(=[^=]|\.reset\b|->\w+\s*\(|\.\w+\s*\()" % re.escape(mem["name"]), t):
                        fn = enclosing(spans[f], m.start())
                        if fn and (fn.startswith(c + "::") or ("%s::%s" % (c, mem["name"])) in t[max(0, m.start() - len(c) - 2):m.end()] or os.path.basename(f).startswith(c + ".")):
                            ws.add(fn)
                entries.append({"kind": "globalVar", "scope": c, "name": mem["name"], "funcs": sorted(ws), "where": classes[c]["file"]})
    for f in sorted(texts):
        if not f.endswith(".cpp"):
            continue
        t = texts[f]
        rel = os.path.relpath(f, SRC)
        inside = [(a, b) for _, a, b in spans[f]]
        for m in re.finditer(r"^static\s+(?!const\b)([^;=(){}]*?[\s\*&])([A-Za-z_]\w*)\s*(?:=[^;]*)?;", t, re.M):
            if any(a <= m.start() < b for a, b in inside):
                continue
            typ = m.group(1)
            if re.search(r"\bconst\b", typ) and not re.search(r"\*\s*$", typ.strip()):
                continue
            ws = set()
            for mm in re.finditer(r"\b%s\b\s*(=[^=]|\.reset\b|->\w+\s*\(|\.\w+\s*\()" % re.escape(m.group(2)), t):
                fn = enclosing(spans[f], mm.start())
                if fn:
                    ws.add(fn)
            entries.append({"kind": "globalVar", "scope": rel, "name": m.group(2), "funcs": sorted(ws), "where": "%s:%d" % (rel, t.count("\n", 0, m.start()) + 1)})

    # 5. process-wide state touched on the way from the per-thread API: call graph from every NON-STATIC member function of
    #    XalanTransformer (what a thread may call on its own transformer: constructor, transform, compileStylesheet,
    #    parseSource, install/uninstallExternalFunction, destroy*, ...) through XalanTransformer and the two environment-support
    #    classes that own the process-wide function tables.  Every (reachable function, process-wide variable it mentions) pair
    #    is an entry; the static members (initialize, terminate, install/uninstallExternalFunctionGlobal, ICUCleanUp) are the
    #    documented single-threaded phase and are not roots.
    # the per-thread objects a transformation runs on.  Their virtual interfaces are what the (const) stylesheet interpreter
    # calls back into, so EVERY non-static member function of these classes is a root, plus StylesheetRoot::process, the
    # entry into const execution (the interpreter itself -- Elem*, XPath -- is covered by the const-execution entries above).
    CG = ["XalanTransformer", "XSLTProcessorEnvSupportDefault", "XPathEnvSupportDefault", "XSLTEngineImpl",
          "StylesheetExecutionContextDefault", "XPathExecutionContextDefault", "StylesheetRoot"]
    IFACE = {"XSLTProcessorEnvSupport": "XSLTProcessorEnvSupportDefault", "XPathEnvSupport": "XSLTProcessorEnvSupportDefault",
             "XSLTProcessor": "XSLTEngineImpl", "StylesheetExecutionContext": "StylesheetExecutionContextDefault",
             "XPathExecutionContext": "StylesheetExecutionContextDefault", "ExecutionContext": "StylesheetExecutionContextDefault"}
    for c in CG:
        if c not in classes:
            print("c07_share: class %s not found (call graph of the per-thread API)" % c)
            return 1
    bodies = {}          # "Cls::name" -> list of body texts
    for c in CG:
        h = os.path.join(SRC, classes[c]["file"])
        for f in (h, re.sub(r"\.hpp$", ".cpp", h)):
            t = texts.get(f)
            if t is None:
                continue
            for name, a0, b0 in spans[f]:
                segs = name.split("::")
                if len(segs) >= 2 and segs[-2] == c:
                    bodies.setdefault(c + "::" + segs[-1], []).append(t[a0:b0])

    def has_method(cls, name, seen=None):
        seen = seen or set()
        if cls in seen or cls not in classes:
            return None
        seen.add(cls)
        if name in classes[cls]["methods"] and (cls + "::" + name) in bodies:
            return cls
        for b in classes[cls]["bases"]:
            r0 = has_method(b, name, seen)
            if r0:
                return r0
        return cls if name in classes[cls]["methods"] else None

    def callees(owner, body):
        res = set()
        local = {}
        for m in re.finditer(r"\b([A-Z]\w*)\s*[&*]?\s*(?:const\s+)?\s+(\w+)\s*(?:\(|;|=|,|\))", body):
            if m.group(1) in IFACE and ("&" in m.group(0) or "*" in m.group(0)):
                local[m.group(2)] = IFACE[m.group(1)]       # a reference/pointer to the abstract interface: the default implementation
            if m.group(1) in CG:
                local[m.group(2)] = m.group(1)
                if "&" not in m.group(0) and "*" not in m.group(0) and m.group(0).rstrip()[-1] in "(;=":     # an object: its constructor and destructor run here
                    res.add(m.group(1) + "::" + m.group(1))
                    res.add(m.group(1) + "::~" + m.group(1))
        members = {mem["name"]: [IFACE.get(x, x) for x in IDENT.findall(mem["type"]) if x in CG or x in IFACE] for mem in classes[owner]["members"]}
        for mem in classes[owner]["members"]:
            for x in members.get(mem["name"], []):
                if "*" not in mem["type"] and "&" not in mem["type"] and not mem["static"]:
                    res.add(x + "::" + x)
                    res.add(x + "::~" + x)
        for m in re.finditer(r"\b([A-Za-z_]\w*)\s*::\s*(~?[A-Za-z_]\w*)\s*\(", body):
            if m.group(1) in CG:
                res.add(m.group(1) + "::" + m.group(2))
        for m in re.finditer(r"\b(\w+)\s*(?:\.|->)\s*([A-Za-z_]\w*)\s*\(", body):
            obj, meth = m.group(1), m.group(2)
            cls = local.get(obj) or (members.get(obj) or [None])[0]
            if cls:
                res.add(cls + "::" + meth)
        for m in re.finditer(r"(?<![\w.>:])([A-Za-z_]\w*)\s*\(", body):
            if m.group(1) in classes[owner]["methods"]:
                res.add(owner + "::" + m.group(1))
        return res

    roots = [k for k in bodies if k.split("::")[0] != "StylesheetRoot" and k.split("::")[1] not in classes[k.split("::")[0]]["static_methods"]]
    roots += [k for k in bodies if k == "StylesheetRoot::process"]
    if "XalanTransformer::doTransform" not in roots or "XalanTransformer::initialize" in roots or "StylesheetRoot::process" not in roots \
            or "StylesheetExecutionContextDefault::installXalanNumberFormatFactory" in roots:
        print("c07_share: call graph roots wrong (doTransform must be a root, the static initialize must not): %s" % sorted(roots)[:8])
        return 1
    reachable_fn, cgwork = set(), list(roots)
    edges = {}
    while cgwork:
        fn = cgwork.pop()
        if fn in reachable_fn or fn not in bodies:
            continue
        reachable_fn.add(fn)
        owner = fn.split("::")[0]
        cs = set()
        for b0 in bodies[fn]:
            cs |= callees(owner, b0)
        edges[fn] = sorted(x for x in cs if x in bodies and x != fn)
        cgwork += edges[fn]
    if "XSLTProcessorEnvSupportDefault::installExternalFunctionLocal" not in reachable_fn or \
            "XSLTProcessorEnvSupportDefault::~XSLTProcessorEnvSupportDefault" not in reachable_fn:
        print("c07_share: call graph broken: doTransform -> XSLTProcessorEnvSupportDefault::installExternalFunctionLocal / "
              "the destructor of its local XSLTProcessorEnvSupportDefault not found")
        return 1
    gvars = [(e["scope"], e["name"]) for e in entries if e["kind"] == "globalVar"]
    for fn in sorted(reachable_fn):
        txt = "\n".join(bodies[fn])
        for sc, nm in gvars:
            if re.search(r"\b%s\b" % re.escape(nm), txt):
                # a file-scope static is only visible in its own file; a static data member is named bare only inside its class
                if "/" in sc and os.path.basename(sc).split(".")[0] != fn.split("::")[0]:
                    continue
                if "/" not in sc and sc != fn.split("::")[0] and not re.search(r"\b%s\s*::\s*%s\b" % (re.escape(sc), re.escape(nm)), txt):
                    continue
                entries.append({"kind": "transformTouch", "scope": "%s::%s" % (sc, nm), "name": fn, "funcs": [fn],
                                "where": "call graph of the per-thread XalanTransformer API"})
    callgraph = {"roots": sorted(roots), "reachable": sorted(reachable_fn), "edges": edges}

    # sanity: constructs that must be found, or the parser no longer understands the source
    need = [("guardedWrite", "XercesDocumentWrapper", "mapNode->createWrapperNode#1"),
            ("constPathCall", "XercesDocumentWrapper", "getPooledString|m_stringPool->get"),
            ("mutableMember", "XercesDocumentWrapper", "m_nodeMap"), ("mutableMember", "XercesLiaisonXalanDOMStringPool", "m_mutex")]
    for k, s, nme in need:
        if not any(e["kind"] == k and e["scope"] == s and e["name"] == nme for e in entries):
            print("c07_share: expected entry not found: %s %s %s" % (k, s, nme))
            return 1
    for must in ("ElemNumber", "ElemTemplate", "XPathExpression", "KeyDeclaration", "XalanSourceTreeElement", "XercesElementWrapper", "AVT", "XToken"):
        if must not in reach:
            print("c07_share: class %s should be reachable from the shared roots but is not (class graph parse broken?)" % must)
            return 1

    entries.sort(key=lambda e: (e["kind"], e["scope"], e["name"]))

    def q(s):
        return '"' + s.replace("\\", "\\\\").replace('"', '\\"') + '"'

    lines = ["/- GENERATED by translate/c07_share.py from %s -- do not edit. -/" % "src/xalanc of the working tree",
             "import XalanModel.C07.Table", "namespace XalanModel.Generated.C07_Share", "open XalanModel.C07", "",
             "/-- classes reachable from StylesheetRoot / XalanSourceTreeDocument / XercesDocumentWrapper -/",
             "def reachable : List String := ["]
    rl = sorted(reach)
    for i in range(0, len(rl), 6):
        lines.append("  " + ", ".join(q(x) for x in rl[i:i + 6]) + ("," if i + 6 < len(rl) else ""))
    lines += ["]", "", "/-- every write channel that `const` does not close, in the reachable classes / process-wide -/",
              "def table : List Entry := ["]
    for i, e in enumerate(entries):
        lines.append("  { key := %d,\n    kind := .%s, scope := %s, name := %s,\n    funcs := [%s] }%s" % (
            int.from_bytes(("%s|%s|%s" % (e["kind"], e["scope"], e["name"])).encode("utf-8"), "big"),
            e["kind"], q(e["scope"]), q(e["name"]), ", ".join(q(x) for x in e["funcs"]), "," if i + 1 < len(entries) else ""))
    lines += ["]", ""]

    def lean_cond(cnd):
        if cnd[0] == "tt":
            return ".tt"
        if cnd[0] == "var":
            return "(.var %d %s)" % (cnd[1], "true" if cnd[2] else "false")
        if cnd[0] == "not":
            return "(.not %s)" % lean_cond(cnd[1])
        return "(.%s %s %s)" % (cnd[0], lean_cond(cnd[1]), lean_cond(cnd[2]))
    lines += ["/-- the guardedWrite entries with their guard condition as a formula: `vars[i]` is the C++ text of variable `i`",
              "(a bool member, or an opaque sub-expression); the formula is the conjunction of the enclosing `if` conditions of the call -/",
              "def guards : List GuardEntry := ["]
    ge = [e for e in entries if e["kind"] == "guardedWrite"]
    for i, e in enumerate(ge):
        lines.append("  -- %s|%s : %s\n  { key := %d, vars := [%s],\n    cond := %s }%s" % (
            e["scope"], e["name"], e["condtext"].replace("\n", " "),
            int.from_bytes(("%s|%s|%s" % (e["kind"], e["scope"], e["name"])).encode("utf-8"), "big"),
            ", ".join(q(v) for v in e["vars"]), lean_cond(e["cond"]), "," if i + 1 < len(ge) else ""))
    lines += ["]", ""]
    # the hand-kept classification (translate/c07_allow.tsv) with its keys as numerals
    GUARDS = {"perExecution", "constructionOnly", "wrapperPrebuilt", "pooledStringMutex", "isMutex", "initTerminate",
              "installOnly", "neverWritten", "castNoWrite", "ownerOnly", "lazyListHead", "headForced", "noConstLookup",
              "emptyChecked", "listConstNoAlloc", "noConstCaller", "readOnlyUse", "mappingPhaseOnly"}
    allow_rows, aliases = [], []
    for ln, line in enumerate(open(os.path.join(HERE, "c07_allow.tsv"), encoding="utf-8"), 1):
        line = line.rstrip("\n")
        if not line.strip() or line.startswith("#"):
            continue
        cols = line.split("\t")
        if len(cols) < 2 or cols[1] not in GUARDS:
            print("c07_share: c07_allow.tsv:%d: expected `key<TAB>guard[<TAB>alias<TAB>note]` with a known guard: %r" % (ln, line[:120]))
            return 1
        allow_rows.append((cols[0], cols[1]))
        if len(cols) > 2 and cols[2] not in ("", "-"):
            aliases.append((cols[2], cols[0]))

    def num(text):
        return int.from_bytes(text.encode("utf-8"), "big")
    lines += ["/-- classification `kind|scope|name` (as a numeral) ↦ guard, from translate/c07_allow.tsv -/",
              "def allow : List (Nat × Guard) := ["]
    for i, (k, gd) in enumerate(allow_rows):
        lines.append("  -- %s\n  (%d, .%s)%s" % (k, num(k), gd, "," if i + 1 < len(allow_rows) else ""))
    lines += ["]", ""]
    for al, k in aliases:
        lines += ["/-- key of `%s` -/" % k, "def k_%s : Nat := %d" % (al, num(k)), ""]
    lines += ["end XalanModel.Generated.C07_Share", ""]
    os.makedirs(common.GEN, exist_ok=True)
    new = "\n".join(lines)
    old = open(OUT).read() if os.path.exists(OUT) else None
    if old != new:
        with open(OUT, "w") as h:
            h.write(new)
    with open(os.path.join(common.GEN, "C07_Share.json"), "w") as h:
        json.dump({"reachable": {c: why.get(c, "") for c in rl}, "class_files": {c: classes[c]["file"] for c in rl},
                   "strict": sorted(strict), "callgraph": callgraph, "entries": entries}, h, indent=1)
    kinds = {}
    for e in entries:
        kinds[e["kind"]] = kinds.get(e["kind"], 0) + 1
    print("c07_share: %d classes parsed, %d reachable, entries %s -> %s" % (len(classes), len(reach), kinds, os.path.relpath(OUT, ROOT)))
    return 0


if __name__ == "__main__":
    sys.exit(main())
