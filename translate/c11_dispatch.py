#!/usr/bin/env python3
"""C11 translator: the six `XPath::executeMore` switches -> lean/XalanModel/Generated/C11_Dispatch.lean

Reads from the CURRENT working tree ($VERIF_REPO or /repo):
  src/xalanc/XPath/XPathExpression.hpp   enum eOpCodes           -> `Op`, `Op.code`
  src/xalanc/XPath/XPath.cpp             six executeMore bodies  -> `table : EP -> Op -> Body`
  src/xalanc/XPath/XPath.cpp, XPath.hpp  EP-specialised overloads (Union, literal, numberlit, locationPath,
                                         group, arithmetic FormatterListener overloads) -> `callee : Callee -> EP -> CBody`
  src/xalanc/XPath/XPathProcessorImpl.cpp  op codes the compiler can emit -> `emitted`
Also writes a JSON sidecar (.cache/c11_dispatch.json) with source lines, used by checks/c11.py.
Exit status != 0 when a construct it relies on is not found (the obligation "translate:c11_dispatch" then fails).
"""
import json
import os
import re
import sys

HERE = os.path.dirname(os.path.abspath(__file__))
ROOT = os.path.dirname(HERE)
REPO = os.environ.get("VERIF_REPO", "/repo")
CACHE = os.environ.get("VERIF_CACHE") or os.path.join(ROOT, ".cache")
OUT = os.path.join(ROOT, "lean", "XalanModel", "Generated", "C11_Dispatch.lean")

EPS = ["obj", "bool", "num", "str", "chars", "nodes"]

# helper name in C++ -> {argument list (normalised) : Helper constructor}
CPE = "context,opPos,executionContext"
HELPERS = {
    "Or": {CPE: "Or"}, "And": {CPE: "And"}, "notequals": {CPE: "notequals"}, "equals": {CPE: "equals"},
    "lte": {CPE: "lte"}, "lt": {CPE: "lt"}, "gte": {CPE: "gte"}, "gt": {CPE: "gt"},
    "plus": {CPE: "plus"}, "minus": {CPE: "minus"}, "mult": {CPE: "mult"}, "div": {CPE: "div"},
    "mod": {CPE: "mod"}, "neg": {CPE: "neg"},
    "variable": {"opPos,executionContext": "variable"},
    "runExtFunction": {CPE: "runExtFunction"}, "runFunction": {CPE: "runFunction"},
    "functionPosition": {"context,executionContext": "functionPosition"},
    "functionLast": {"executionContext": "functionLast"},
    "functionCount": {CPE: "functionCount"}, "functionNot": {CPE: "functionNot"},
    "functionBoolean": {CPE: "functionBoolean"},
    "functionName": {"context": "functionName0", CPE: "functionName1"},
    "functionLocalName": {"context": "functionLocalName0", CPE: "functionLocalName1"},
    "functionFloor": {CPE: "functionFloor"}, "functionCeiling": {CPE: "functionCeiling"},
    "functionRound": {CPE: "functionRound"},
    "functionNumber": {"context,executionContext": "functionNumber0", CPE: "functionNumber1"},
    "functionStringLength": {"context,executionContext": "functionStringLength0", CPE: "functionStringLength1"},
    "functionSum": {CPE: "functionSum"},
    "numberlit": {"opPos": "numberlitD"},
}
CALLEES = ["Union", "literal", "group", "numberlit", "locationPath", "plus", "minus", "mult", "div", "mod", "neg"]
# argument list a callee must be called with, per entry point (out-parameter last)
CALLEE_ARGS = {
    "Union": CPE, "group": CPE, "locationPath": CPE, "literal": "opPos", "numberlit": "opPos",
    "plus": CPE, "minus": CPE, "mult": CPE, "div": CPE, "mod": CPE, "neg": CPE,
}
OUTARG = {"obj": "", "bool": ",result", "num": ",result", "str": ",result", "chars": ",formatterListener,function",
          "nodes": ",result"}


def die(msg):
    sys.stderr.write("c11_dispatch: " + msg + "\n")
    print("c11_dispatch: " + msg)
    sys.exit(1)


def read(rel):
    p = os.path.join(REPO, rel)
    if not os.path.exists(p):
        die("missing source file " + p)
    return open(p, encoding="utf-8", errors="replace").read()


def strip_comments(src):
    """remove // and /* */ comments, keep line structure"""
    out = []
    i, n = 0, len(src)
    while i < n:
        if src.startswith("//", i):
            while i < n and src[i] != "\n":
                i += 1
        elif src.startswith("/*", i):
            j = src.find("*/", i + 2)
            j = n if j < 0 else j + 2
            out.append("".join(c if c == "\n" else " " for c in src[i:j]))
            i = j
        elif src[i] == '"':
            j = i + 1
            while j < n and src[j] != '"':
                j += 2 if src[j] == "\\" else 1
            out.append(src[i:j + 1])
            i = j + 1
        else:
            out.append(src[i])
            i += 1
    return "".join(out)


def match_brace(src, i):
    """src[i] == '{' -> index of the matching '}'"""
    depth = 0
    for j in range(i, len(src)):
        if src[j] == "{":
            depth += 1
        elif src[j] == "}":
            depth -= 1
            if depth == 0:
                return j
    die("unbalanced braces")


def match_paren(src, i):
    depth = 0
    for j in range(i, len(src)):
        if src[j] == "(":
            depth += 1
        elif src[j] == ")":
            depth -= 1
            if depth == 0:
                return j
    die("unbalanced parentheses")


def ep_of_params(params):
    p = re.sub(r"\s+", " ", params)
    if "FormatterListener&" in p:
        return "chars"
    if "MutableNodeRefList&" in p:
        return "nodes"
    if re.search(r"\bbool\s*&", p):
        return "bool"
    if re.search(r"\bdouble\s*&", p):
        return "num"
    if re.search(r"XalanDOMString\s*&", p) and not re.search(r"const\s+XalanDOMString\s*&", p):
        return "str"
    return "obj"


def functions(src, name, qualified=True):
    """all definitions `XPath::name(params) const { body }` (or unqualified inline ones) -> list of (params, body, line)"""
    res = []
    pat = re.compile((r"\bXPath::" if qualified else r"(?<![\w:>.])") + re.escape(name) + r"\s*\(")
    for m in pat.finditer(src):
        lp = m.end() - 1
        rp = match_paren(src, lp)
        k = rp + 1
        mm = re.match(r"\s*(const)?\s*\{", src[k:])
        if not mm:
            continue
        lb = k + mm.end() - 1
        rb = match_brace(src, lb)
        res.append((src[lp + 1:rp], src[lb + 1:rb], src.count("\n", 0, lb + 1) + 1))
    return res


def nows(s):
    return re.sub(r"\s+", "", s)


# ------------------------------------------------------------------------------------------
# the switches

F = r"executionContext\.getXObjectFactory\(\)\."
CALL = r"(\w+)\(([\w,+]*)\)"      # helper(args) -- args are plain identifiers (opPos+2 would not match \w, we allow + to report it)


def helper_of(name, args):
    return HELPERS.get(name, {}).get(args)


def const_helper(tok):
    return {"true": "constTrue", "false": "constFalse"}.get(tok)


def norm_case(ep, stmts, line):
    """stmts: whitespace-free text of the statements of one case (without the final break;).
    -> Lean term of type Body"""
    s = stmts
    if s.endswith("break;"):
        s = s[:-6]
    other = ".other %d" % line

    def H(name, args):
        h = helper_of(name, args)
        return h

    def callee(name, args):
        if name not in CALLEES:
            return None
        want = CALLEE_ARGS[name] + OUTARG[ep]
        if ep == "obj" and name in ("literal", "numberlit"):
            want = "opPos,executionContext"
        if name in CALLEES and args == want:
            # `numberlit(opPos)` (one argument, returns double) is a helper, not a callee
            return ".call .%s" % name
        return None

    if ep == "obj":
        m = re.fullmatch(r"return" + F + r"create(Boolean|Number|StringReference|String)\(" + CALL + r"\);", s)
        if m:
            h = H(m.group(2), m.group(3))
            return ".help .create .%s" % h if h else other
        m = re.fullmatch(r"return" + F + r"createBoolean\((true|false)\);", s)
        if m:
            return ".help .create .%s" % const_helper(m.group(1))
        m = re.fullmatch(r"return" + CALL + r";", s)
        if m:
            c = callee(m.group(1), m.group(2))
            if c:
                return c
            h = H(m.group(1), m.group(2))
            return ".help .ret .%s" % h if h else other
        return other
    if ep in ("bool", "num"):
        conv = {"bool": "boolean", "num": "number"}[ep]
        obj = {"bool": "boolean", "num": "num"}[ep]
        m = re.fullmatch(r"result=(true|false);", s)
        if m:
            return ".help .ret .%s" % const_helper(m.group(1))
        m = re.fullmatch(r"result=XObject::" + conv + r"\((true|false)\);", s)
        if m:
            return ".help .conv .%s" % const_helper(m.group(1))
        m = re.fullmatch(r"result=XObject::" + conv + r"\(" + CALL + r"(,executionContext\.getMemoryManager\(\))?\);", s)
        if m:
            h = H(m.group(1), m.group(2))
            return ".help .conv .%s" % h if h else other
        m = re.fullmatch(r"result=" + CALL + r"->" + obj + r"\(executionContext\);", s)
        if m:
            h = H(m.group(1), m.group(2))
            return ".help .viaObj .%s" % h if h else other
        m = re.fullmatch(r"result=" + CALL + r";", s)
        if m:
            h = H(m.group(1), m.group(2))
            return ".help .ret .%s" % h if h else other
        m = re.fullmatch(CALL + r";", s)
        if m:
            c = callee(m.group(1), m.group(2))
            return c if c else other
        return other
    if ep == "str":
        m = re.fullmatch(r"XObject::string\((true|false),result\);", s)
        if m:
            return ".help .conv .%s" % const_helper(m.group(1))
        m = re.fullmatch(r"XObject::string\(" + CALL + r",result\);", s)
        if m:
            h = H(m.group(1), m.group(2))
            return ".help .conv .%s" % h if h else other
        m = re.fullmatch(CALL + r"->str\(executionContext,result\);", s)
        if m:
            h = H(m.group(1), m.group(2))
            return ".help .viaObj .%s" % h if h else other
        m = re.fullmatch(r"result\.append\(" + CALL + r"\);", s)
        if m:
            h = H(m.group(1), m.group(2))
            return ".help .append .%s" % h if h else other
        m = re.fullmatch(r"result=" + CALL + r";", s) or re.fullmatch(r"result\.assign\(" + CALL + r"\);", s)
        if m:
            h = H(m.group(1), m.group(2))
            return ".help .assign .%s" % h if h else other
        m = re.fullmatch(CALL + r";", s)
        if m:
            c = callee(m.group(1), m.group(2))
            return c if c else other
        return other
    if ep == "chars":
        m = re.fullmatch(r"XObject::string\((true|false),formatterListener,function\);", s)
        if m:
            return ".help .conv .%s" % const_helper(m.group(1))
        m = re.fullmatch(r"XObject::string\(" + CALL + r",formatterListener,function\);", s)
        if m:
            h = H(m.group(1), m.group(2))
            return ".help .conv .%s" % h if h else other
        m = re.fullmatch(r"stringToCharacters\(" + CALL + r",formatterListener,function\);", s)
        if m:
            h = H(m.group(1), m.group(2))
            return ".help .toChars .%s" % h if h else other
        m = re.fullmatch(CALL + r"->str\(executionContext,formatterListener,function\);", s)
        if m:
            h = H(m.group(1), m.group(2))
            return ".help .viaObj .%s" % h if h else other
        m = re.fullmatch(CALL + r";", s)
        if m:
            c = callee(m.group(1), m.group(2))
            return c if c else other
        return other
    if ep == "nodes":
        if s == "notNodeSetError(context,executionContext);":
            return ".notNodeSet"
        if s == "theXObject=executeMore(context,opPos+2,executionContext,result);":
            return ".xpath"
        m = re.fullmatch(r"theXObject=" + CALL + r";", s)
        if m:
            h = H(m.group(1), m.group(2))
            return ".help .ret .%s" % h if h else other
        m = re.fullmatch(CALL + r";", s)
        if m:
            c = callee(m.group(1), m.group(2))
            return c if c else other
        return other
    return other


def parse_switch(ep, body, base_line):
    """-> {op: (Body term, line)}"""
    m = re.search(r"switch\s*\(\s*m_expression\.getOpCodeMapValue\(opPos\)\s*\)\s*\{", body)
    if not m:
        die("executeMore[%s]: switch over m_expression.getOpCodeMapValue(opPos) not found" % ep)
    lb = m.end() - 1
    rb = match_brace(body, lb)
    sw = body[lb + 1:rb]
    sw_line0 = base_line + body.count("\n", 0, lb + 1)
    # tokenise into labels and statement text
    res = {}
    pos = 0
    labels = []
    lab_re = re.compile(r"\s*(case\s+XPathExpression::(\w+)\s*:|default\s*:)")
    n = len(sw)
    default_seen = False
    while pos < n:
        mm = lab_re.match(sw, pos)
        if mm:
            labels.append(mm.group(2) or "default")
            pos = mm.end()
            continue
        if not sw[pos:].strip():
            break
        # statements up to and including `break;` (or up to the next label)
        nxt = re.compile(r"\bcase\s+XPathExpression::|\bdefault\s*:").search(sw, pos)
        end = nxt.start() if nxt else n
        text = sw[pos:end]
        line = sw_line0 + sw.count("\n", 0, pos + (len(text) - len(text.lstrip())))
        s = nows(text)
        if not labels:
            die("executeMore[%s]: statements without a case label near line %d" % (ep, line))
        # fall-through without break is not modelled (except shared labels, handled above)
        if "break;" not in s:
            term = ".other %d" % line
        else:
            s1 = s[:s.index("break;") + 6]
            rest = s[s.index("break;") + 6:]
            term = norm_case(ep, s1, line) if not rest else ".other %d" % line
        for lab in labels:
            if lab == "default":
                default_seen = True
                if nows(text) != "unknownOpCodeError(context,executionContext,opPos);break;":
                    die("executeMore[%s]: default branch is not unknownOpCodeError (line %d)" % (ep, line))
            else:
                if lab in res:
                    die("executeMore[%s]: duplicate case %s" % (ep, lab))
                res[lab] = (term, line)
        labels = []
        pos = end
    if not default_seen:
        die("executeMore[%s]: no default branch" % ep)
    return res


# ------------------------------------------------------------------------------------------
# EP-specialised overloads

def norm_callee(name, ep, body, line):
    s = nows(body)
    s = re.sub(r"assert\([^;]*\);", "", s)
    s = re.sub(r"typedefXPathExecutionContext::BorrowReturnMutableNodeRefListBorrowReturnMutableNodeRefList;", "", s)
    other = ".other %d" % line
    if name in ("Union", "locationPath"):
        if ep == "nodes":
            return ".nsSelf"
        lst = {"Union": "resultNodeList", "locationPath": "mnl"}[name]
        head = r"BorrowReturnMutableNodeRefList" + lst + r"\(executionContext\);" + name + \
            r"\(context,opPos,executionContext,\*" + lst + r"(\.get\(\))?\);"
        m = re.fullmatch(head + r"(.*)", s)
        if not m:
            return other
        tail = m.group(2)
        L = r"\*" + lst + r"(\.get\(\))?"
        if ep == "obj":
            return ".nsCreate" if re.fullmatch(r"return" + F + r"createNodeSet\(" + lst + r"\);", tail) else other
        if ep == "bool":
            return ".nsConv" if re.fullmatch(r"(result|theResult)=XObject::boolean\(" + L + r"\);", tail) else other
        if ep == "num":
            return ".nsConv" if re.fullmatch(r"(result|theResult)=XObject::number\(executionContext," + L + r"\);", tail) else other
        if ep == "str":
            return ".nsConv" if re.fullmatch(r"XObject::string\(" + L + r",executionContext,(result|theResult)\);", tail) else other
        if ep == "chars":
            return ".nsConv" if re.fullmatch(r"XObject::string\(" + L + r",executionContext,formatterListener,function\);", tail) else other
        return other
    if name in ("literal", "numberlit"):
        idx = {"literal": "2", "numberlit": "3"}[name]
        head = r"constXToken\*consttheLiteral=m_expression\.getToken\(m_expression\.getOpCodeMapValue\(opPos\+" + idx + r"\)\);"
        m = re.fullmatch(head + r"(.*)", s)
        if not m:
            return other
        tail = m.group(1)
        if ep == "obj":
            mk = {"literal": "createString", "numberlit": "createNumber"}[name]
            acc = {"literal": "str", "numberlit": "num"}[name]
            pat = (r"if\(m_inStylesheet==true\)\{return" + F + mk + r"\(\*theLiteral\);\}else\{return" + F + mk +
                   r"\(theLiteral->" + acc + r"\(\)\);\}")
            return ".tokCreate" if re.fullmatch(pat, tail) else other
        if ep == "bool":
            return ".tokBoolean" if re.fullmatch(r"theResult=theLiteral->boolean\(\);", tail) else other
        if ep == "num":
            return ".tokNum" if re.fullmatch(r"theResult=theLiteral->num\(\);", tail) else other
        if ep == "str":
            if re.fullmatch(r"(theString|theResult)=theLiteral->str\(\);", tail) or \
               re.fullmatch(r"(theString|theResult)\.assign\(theLiteral->str\(\)\);", tail):
                return ".tokStrAssign"
            if re.fullmatch(r"(theString|theResult)\.append\(theLiteral->str\(\)\);", tail) or \
               re.fullmatch(r"(theString|theResult)\+=theLiteral->str\(\);", tail) or \
               re.fullmatch(r"theLiteral->str\((theString|theResult)\);", tail):
                return ".tokStrAppend"
            return other
        if ep == "chars":
            return ".tokStrChars" if re.fullmatch(r"theLiteral->str\(formatterListener,function\);", tail) else other
        return other
    if name == "group":
        out = {"obj": "", "bool": ",theResult", "num": ",theResult", "str": ",theResult",
               "chars": ",formatterListener,function"}
        if ep in out:
            pat = (r"return" if ep == "obj" else "") + r"executeMore\(context,opPos\+2,executionContext" + out[ep] + r"\);"
            return ".recurse" if re.fullmatch(pat, s) else other
        pat = (r"constXObjectPtrtheValue\(executeMore\(context,opPos\+2,executionContext,theResult\)\);"
               r"if\(theValue\.null\(\)==false\)\{theResult\.addNodesInDocOrder\(theValue->nodeset\(\),executionContext\);"
               r"theResult\.setDocumentOrder\(\);\}")
        return ".groupNodes" if re.fullmatch(pat, s) else other
    if name in ("plus", "minus", "mult", "div", "mod", "neg"):
        pat = r"constdoubletheResult=" + name + r"\(context,opPos,executionContext\);XObject::string\(theResult,formatterListener,function\);"
        return ".arithConv .%s" % name if (ep == "chars" and re.fullmatch(pat, s)) else other
    return other


def main():
    hpp_e = strip_comments(read("src/xalanc/XPath/XPathExpression.hpp"))
    cpp = strip_comments(read("src/xalanc/XPath/XPath.cpp"))
    hpp = strip_comments(read("src/xalanc/XPath/XPath.hpp"))
    comp = strip_comments(read("src/xalanc/XPath/XPathProcessorImpl.cpp"))

    # --- op codes
    m = re.search(r"enum\s+eOpCodes\s*\{", hpp_e)
    if not m:
        die("enum eOpCodes not found")
    enum_body = hpp_e[m.end():match_brace(hpp_e, m.end() - 1)]
    ops = []
    cur = None
    for item in enum_body.split(","):
        item = item.strip()
        if not item:
            continue
        mm = re.fullmatch(r"(\w+)\s*(=\s*(-?\d+))?", item)
        if not mm:
            die("enum eOpCodes: cannot parse %r" % item)
        cur = int(mm.group(3)) if mm.group(3) is not None else (cur + 1)
        if mm.group(1).startswith("eOP_"):
            ops.append((mm.group(1), cur))
    if len(ops) < 40:
        die("enum eOpCodes: only %d eOP_ entries" % len(ops))
    opnames = [o for o, _ in ops]

    # --- switches
    defs = functions(cpp, "executeMore")
    byep = {}
    for params, body, line in defs:
        ep = ep_of_params(params)
        if ep in byep:
            die("two executeMore definitions for entry point " + ep)
        byep[ep] = (body, line)
    for ep in EPS:
        if ep not in byep:
            die("executeMore overload for entry point %s not found" % ep)
    table = {}
    for ep in EPS:
        body, line = byep[ep]
        cases = parse_switch(ep, body, line)
        for op in cases:
            if op not in opnames:
                die("executeMore[%s]: case label %s is not an eOP_ member of eOpCodes" % (ep, op))
        table[ep] = cases

    # --- callee overloads
    callee = {}
    for name in CALLEES:
        src_defs = functions(cpp, name)
        src_defs = src_defs + functions(hpp, name, qualified=False)
        got = {}
        for params, body, line in src_defs:
            pw = nows(params)
            # `double numberlit(opPos)`, `double plus(context,opPos,ec)` ... are helpers, not EP overloads
            if name == "numberlit" and pw == "OpCodeMapPositionTypeopPos":
                continue
            ep = ep_of_params(params)
            if name in ("plus", "minus", "mult", "div", "mod", "neg") and ep != "chars":
                continue
            if ep in got:
                die("two definitions of %s for entry point %s" % (name, ep))
            got[ep] = (norm_callee(name, ep, body, line), line)
        callee[name] = got

    # --- op codes the compiler emits
    emitted = []
    for mm in re.finditer(r"(appendOpCode|insertOpCode)\s*\(\s*XPathExpression::(eOP_\w+)", comp):
        if mm.group(2) not in emitted:
            emitted.append(mm.group(2))
    for mm in re.finditer(r"theOpCode\s*=\s*XPathExpression::(eOP_\w+)", comp):
        if mm.group(1) not in emitted:
            emitted.append(mm.group(1))
    for mm in re.finditer(r"replaceOpCode\s*\(\s*\w+\s*,\s*XPathExpression::(eOP_\w+)\s*,\s*XPathExpression::(eOP_\w+)", comp):
        if mm.group(2) not in emitted:
            emitted.append(mm.group(2))
    # functions reachable through the function-name table only (FunctionCall switch)
    tab = re.search(r"s_functionTable\[\]\s*=\s*\{(.*?)\};", comp, re.S)
    if not tab:
        die("XPathProcessorImpl::s_functionTable not found")
    table_ops = re.findall(r"XPathExpression::(eOP_\w+)", tab.group(1))
    sw = re.search(r"funcTok\s*=\s*getFunctionToken\(m_token\);\s*switch\s*\(funcTok\)\s*\{", comp)
    if not sw:
        die("XPathProcessorImpl::FunctionCall switch not found")
    swbody = comp[sw.end():match_brace(comp, sw.end() - 1)]
    call_cases = re.findall(r"case\s+XPathExpression::(eOP_\w+)\s*:\s*(Function\w+)\(", swbody)
    reach_fn = set()
    for op, fn in call_cases:
        if op in table_ops:
            reach_fn.add(fn)
    # an emitting function `FunctionXxx` that is never called makes its op codes unreachable
    emitted_reach = []
    for op in emitted:
        sites = [mm.start() for mm in re.finditer(r"XPathExpression::" + op + r"\b", comp)]
        ok = False
        for params, body, line in []:
            pass
        # find the enclosing XPathProcessorImpl::Name( for each site
        for st in sites:
            heads = list(re.finditer(r"XPathProcessorImpl::(\w+)\s*\(", comp[:st]))
            if not heads:
                continue
            fn = heads[-1].group(1)
            if fn.startswith("Function") and fn not in ("FunctionCall", "FunctionCallArguments"):
                if fn in reach_fn:
                    ok = True
            else:
                ok = True
        if ok:
            emitted_reach.append(op)

    # --- write Lean
    L = []
    L.append("/- GENERATED by translate/c11_dispatch.py from %s -- do not edit -/" % REPO)
    L.append("import XalanModel.C11.Syntax")
    L.append("namespace XalanModel.Generated.C11")
    L.append("open XalanModel.C11")
    L.append("")
    L.append("/-- `XPathExpression::eOpCodes`, members named eOP_* (XPathExpression.hpp) -/")
    L.append("inductive Op where")
    for o, _ in ops:
        L.append("  | %s" % o)
    L.append("deriving DecidableEq, Repr")
    L.append("")
    L.append("def Op.all : List Op := [%s]" % ", ".join("." + o for o in opnames))
    L.append("")
    L.append("def Op.code : Op → Nat")
    for o, c in ops:
        L.append("  | .%s => %d" % (o, c))
    L.append("")
    L.append("def Op.name : Op → String")
    for o, _ in ops:
        L.append("  | .%s => \"%s\"" % (o, o))
    L.append("")
    L.append("/-- the six switches: normalised case body per entry point and op code; `.missing` = falls to `default:` -/")
    L.append("def table : EP → Op → Body")
    for ep in EPS:
        for o in opnames:
            if o in table[ep]:
                term, line = table[ep][o]
                L.append("  | .%s, .%s => %s  -- XPath.cpp:%d" % (ep, o, term, line))
    L.append("  | _, _ => .missing")
    L.append("")
    L.append("/-- EP-specialised overloads the switches call: normalised last step -/")
    L.append("def callee : Callee → EP → CBody")
    for name in CALLEES:
        for ep in EPS:
            if ep in callee[name]:
                term, line = callee[name][ep]
                L.append("  | .%s, .%s => %s  -- line %d" % (name, ep, term, line))
    L.append("  | _, _ => .none")
    L.append("")
    L.append("/-- op codes `XPathProcessorImpl` can put into an op map (appendOpCode/insertOpCode/replaceOpCode, reachable) -/")
    L.append("def emitted : List Op := [%s]" % ", ".join("." + o for o in emitted_reach))
    L.append("")
    L.append("end XalanModel.Generated.C11")
    os.makedirs(os.path.dirname(OUT), exist_ok=True)
    new = "\n".join(L) + "\n"
    old = open(OUT).read() if os.path.exists(OUT) else None
    if new != old:
        with open(OUT, "w") as f:
            f.write(new)
    os.makedirs(CACHE, exist_ok=True)
    side = {
        "repo": REPO,
        "ops": dict(ops),
        "table": {ep: {o: {"body": t, "line": ln} for o, (t, ln) in table[ep].items()} for ep in EPS},
        "callee": {n: {ep: {"body": t, "line": ln} for ep, (t, ln) in callee[n].items()} for n in CALLEES},
        "emitted": emitted_reach,
        "emitted_unreachable": [o for o in emitted if o not in emitted_reach],
    }
    with open(os.path.join(CACHE, "c11_dispatch.json"), "w") as f:
        json.dump(side, f, indent=1)
    nother = sum(1 for ep in EPS for t, _ in table[ep].values() if t.startswith(".other"))
    nother += sum(1 for n in CALLEES for t, _ in callee[n].values() if t.startswith(".other"))
    print("c11_dispatch: %d op codes, cases per switch %s, callee overloads %d, unrecognised bodies %d, emitted %d" % (
        len(ops), {ep: len(table[ep]) for ep in EPS}, sum(len(v) for v in callee.values()), nother, len(emitted_reach)))
    return 0


if __name__ == "__main__":
    sys.exit(main())
