#!/usr/bin/env python3
"""C17 translator 3: the admission condition of the run-time match-pattern cache.

`StylesheetExecutionContextDefault::createMatchPattern(str, resolver)` is what `ElemNumber::getCountMatchPattern` calls for
the default count pattern of every numbered node, each time with a prefix resolver for *that* node.  It keeps a cache keyed on
the pattern string alone, so a pattern whose meaning depends on the resolver (one that contains a namespace prefix) must never
be served from it.  This translator reads the function from /repo's current working tree, checks its shape (index = position
of the first ':', len = length, `if (COND) compile else cache keyed on str`) and translates COND into Lean:

    Generated/C17_PatternCache.lean :  def bypassesCache (index len next : Nat) : Bool     -- next = str[index + 1]

with C++ unsigned (size_type, 64 bit) arithmetic.  `Props/C17.lean` proves from it that every string with a ':' that is
followed by a character other than ':' bypasses the cache (`pattern_cache_never_serves_prefixed`).  It also reads
`addToXPathCache`: the capacity `eXPathCacheMax` and the shape of the eviction (least-recently-used entry erased and the
new pattern inserted under its own key, or any other recognised shape) -> `patternCacheCapacity`, `evictionAction`;
`pattern_cache_transparent` is proved over them.  A construct outside the
small expression grammar, a cache key that is not `str`, or a changed skeleton = exit 1 (obligation broken)."""
import os
import re
import sys

HERE = os.path.dirname(os.path.abspath(__file__))
ROOT = os.path.dirname(HERE)
REPO = os.environ.get("VERIF_REPO", "/repo")
OUT = os.path.join(ROOT, "lean", "XalanModel", "Generated", "C17_PatternCache.lean")
M = 2 ** 64


def die(msg):
    print("c17_patterncache: " + msg)
    sys.exit(1)


TOK = re.compile(r"\s*(str\s*\[\s*index\s*\+\s*1\s*\]|XalanUnicode::charColon|index|len|\d+|&&|\|\||<=|>=|==|!=|<|>|!|\+|-|\(|\))")


def tokenize(s):
    out, pos = [], 0
    s = s.strip()
    while pos < len(s):
        m = TOK.match(s, pos)
        if not m:
            die("admission condition: cannot tokenize %r" % s[pos:pos + 30])
        out.append(re.sub(r"\s+", "", m.group(1)))
        pos = m.end()
    return out


class P:
    """or := and ('||' and)* ; and := not ('&&' not)* ; not := '!' not | cmp ; cmp := sum (op sum)? | '(' or ')' ; sum := atom (('+'|'-') atom)*"""
    def __init__(self, toks):
        self.t, self.i = toks, 0

    def peek(self):
        return self.t[self.i] if self.i < len(self.t) else None

    def eat(self, x=None):
        v = self.peek()
        if v is None or (x is not None and v != x):
            die("admission condition: expected %r at token %d of %r" % (x, self.i, self.t))
        self.i += 1
        return v

    def por(self):
        a = self.pand()
        while self.peek() == "||":
            self.eat()
            a = "(%s || %s)" % (a, self.pand())
        return a

    def pand(self):
        a = self.pnot()
        while self.peek() == "&&":
            self.eat()
            a = "(%s && %s)" % (a, self.pnot())
        return a

    def pnot(self):
        if self.peek() == "!":
            self.eat()
            return "(!%s)" % self.pnot()
        return self.pcmp()

    def pcmp(self):
        if self.peek() == "(":
            # parenthesised boolean or arithmetic: try boolean first
            save = self.i
            self.eat("(")
            inner = self.por()
            if self.peek() == ")" and inner.startswith("("):
                self.eat(")")
                return inner
            self.i = save
        a = self.psum()
        op = self.peek()
        if op in ("<", "<=", ">", ">=", "==", "!="):
            self.eat()
            b = self.psum()
            lop = {"==": "=", "!=": "≠", "<=": "≤", ">=": "≥"}.get(op, op)
            return "(decide (%s %s %s))" % (a, lop, b)
        die("admission condition: comparison expected near token %d of %r" % (self.i, self.t))

    def psum(self):
        a = self.patom()
        while self.peek() in ("+", "-"):
            op = self.eat()
            b = self.patom()
            a = "((%s + %s) %% %d)" % (a, b, M) if op == "+" else "((%s + %d - %s %% %d) %% %d)" % (a, M, b, M, M)
        return a

    def patom(self):
        v = self.eat()
        if v == "(":
            a = self.psum()
            self.eat(")")
            return a
        if v in ("index", "len"):
            return v
        if v.startswith("str["):
            return "next"
        if v == "XalanUnicode::charColon":
            return "58"
        if v.isdigit():
            return v
        die("admission condition: unexpected token %r" % v)


def main():
    p = os.path.join(REPO, "src/xalanc/XSLT/StylesheetExecutionContextDefault.cpp")
    txt = open(p, encoding="utf-8", errors="replace").read()
    txt = re.sub(r"/\*.*?\*/", " ", txt, flags=re.S)
    txt = re.sub(r"//[^\n]*", " ", txt)
    m = re.search(r"\nStylesheetExecutionContextDefault::createMatchPattern\s*\(\s*const XalanDOMString&\s*str,\s*const PrefixResolver&\s*resolver\)\s*\{", txt)
    if not m:
        die("createMatchPattern(const XalanDOMString& str, const PrefixResolver& resolver) not found")
    depth, i = 0, m.end() - 1
    for j in range(i, len(txt)):
        if txt[j] == "{":
            depth += 1
        elif txt[j] == "}":
            depth -= 1
            if depth == 0:
                break
    body = re.sub(r"\s+", " ", txt[i:j + 1])
    if not re.search(r"const XalanDOMString::size_type index = indexOf\(str, XalanUnicode::charColon\);", body):
        die("`index = indexOf(str, XalanUnicode::charColon)` not found")
    if not re.search(r"const XalanDOMString::size_type len = str\.length\(\);", body):
        die("`len = str.length()` not found")
    ms = re.search(r"if \((.*?)\) \{ theResult = m_xsltProcessor->createMatchPattern\(str, resolver\); \} else \{ (.*?) \} return theResult;", body)
    if not ms:
        die("skeleton `if (COND) { compile with the resolver } else { cache }` not found")
    cond, cached = ms.group(1), ms.group(2)
    if "m_matchPatternCache.find(str)" not in cached or "addToXPathCache(str, theResult)" not in cached:
        die("the cached branch is not keyed on `str` (find(str) / addToXPathCache(str, …)) — re-model the key")
    if "resolver" in cached.replace("m_xsltProcessor->createMatchPattern(str, resolver)", ""):
        die("the cached branch uses the resolver in a way that is not modelled")
    # --- the fill / eviction side: addToXPathCache
    hpp = open(os.path.join(REPO, "src/xalanc/XSLT/StylesheetExecutionContextDefault.hpp"), encoding="utf-8", errors="replace").read()
    mcap = re.search(r"\beXPathCacheMax\s*=\s*(\d+)", hpp)
    if not mcap:
        die("eXPathCacheMax not found in StylesheetExecutionContextDefault.hpp")
    capacity = int(mcap.group(1))
    if capacity < 1:
        die("eXPathCacheMax < 1")
    ma = re.search(r"\nStylesheetExecutionContextDefault::addToXPathCache\s*\(\s*const XalanDOMString&\s*pattern,\s*const XPath\*\s*theXPath\)\s*\{", txt)
    if not ma:
        die("addToXPathCache(const XalanDOMString& pattern, const XPath* theXPath) not found")
    depth, i2 = 0, ma.end() - 1
    for j2 in range(i2, len(txt)):
        if txt[j2] == "{":
            depth += 1
        elif txt[j2] == "}":
            depth -= 1
            if depth == 0:
                break
    ab = re.sub(r"\s+", " ", txt[i2:j2 + 1])
    me = re.search(r"if \(m_matchPatternCache\.size\(\) == eXPathCacheMax\) \{(.*)\} (.*) \}$", ab)
    if not me:
        die("addToXPathCache: skeleton `if (size() == eXPathCacheMax) { evict } insert` not found")
    evict, tail = me.group(1), me.group(2)
    # the victim is the entry with the lowest clock
    if not re.search(r"const ClockType current = \(\*i\)\.second\.second; if \(current < lowest\) \{ lowest = current; earliest = i; \} else \{ \+\+i; \}", evict):
        die("addToXPathCache: the search for the entry with the lowest clock was not recognised")
    after = evict[evict.index("++i; } }") + len("++i; } }"):].strip()
    after = re.sub(r"^assert\([^;]*\); ", "", after)
    insert_new = "m_matchPatternCache.insert(pattern, XPathCacheEntry(theXPath, addClock));"
    if after == "m_xsltProcessor->returnXPath((*earliest).second.first); m_matchPatternCache.erase(earliest);" and tail.strip() == insert_new:
        action = "eraseVictimInsertNewKey"
    elif re.fullmatch(r"m_xsltProcessor->returnXPath\(\(\*earliest\)\.second\.first\); \(\*earliest\)\.second = XPathCacheEntry\(theXPath, addClock\); return;", after) \
            and tail.strip() == insert_new:
        action = "overwriteVictimValueInPlace"
    else:
        die("addToXPathCache: eviction shape not recognised (after the search: `%s`; then: `%s`) — re-model it" % (after, tail.strip()))
    parser = P(tokenize(cond))
    lean = parser.por()
    if parser.peek() is not None:
        die("admission condition: trailing tokens in %r" % cond)
    out = "\n".join([
        "/- GENERATED by translate/c17_patterncache.py from src/xalanc/XSLT/StylesheetExecutionContextDefault.cpp — do not edit -/",
        "namespace XalanModel.Generated.C17", "",
        "/-- `createMatchPattern(str, resolver)`: the condition under which the pattern is compiled with the caller's resolver and the",
        "string-keyed cache is neither consulted nor filled.  `index` = position of the first ':' in `str` (`len` when there is none),",
        "`len` = length of `str`, `next` = `str[index + 1]`; `size_type` arithmetic is modulo 2^64.  Source text of the condition:",
        "`%s` -/" % cond.replace("-/", "- /"),
        "def bypassesCache (index len next : Nat) : Bool :=", "  " + lean, "",
        "/-- `eXPathCacheMax`: the number of entries of the run-time match-pattern cache -/",
        "def patternCacheCapacity : Nat := %d" % capacity, "",
        "/-- what `addToXPathCache` does when the cache is full, after it has found the entry with the lowest clock (the victim) -/",
        "inductive EvictionAction",
        "  | eraseVictimInsertNewKey        -- `erase(earliest)`, then `insert(pattern, …)`: the new pattern is stored under its own key",
        "  | overwriteVictimValueInPlace    -- `(*earliest).second = …`: the victim's *key* now maps to the new pattern",
        "deriving Repr, DecidableEq", "",
        "def evictionAction : EvictionAction := .%s" % action, "",
        "end XalanModel.Generated.C17", ""])
    os.makedirs(os.path.dirname(OUT), exist_ok=True)
    old = open(OUT, encoding="utf-8").read() if os.path.exists(OUT) else None
    if old != out:
        with open(OUT, "w", encoding="utf-8") as f:
            f.write(out)
    print("c17_patterncache: condition `%s`, capacity %d, eviction %s -> %s" % (cond, capacity, action, os.path.relpath(OUT, ROOT)))


if __name__ == "__main__":
    main()
