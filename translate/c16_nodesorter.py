#!/usr/bin/env python3
"""Translator for C16: src/xalanc/XSLT/NodeSorter.cpp -> lean/XalanModel/Generated/C16_NodeSorter.lean

Regenerated from the working tree on every run:
  * `dummyValue`   the "slot never evaluated" sentinel of getNumberResult, as an IEEE bit pattern
  * `numCompare`   the numeric branch of NodeSortKeyCompare::compare (the if / else-if chain over
                   n1Num / n2Num), translated statement by statement into a Lean function of the
                   incoming `theResult`
  * shape facts    (checked here, failure = obligation broken): operand order of the key fetches and of the
                   collation call, the `theResult != 0` / descending flip / next-key recursion tail, the
                   string cache's "empty = not cached" test, XALAN_NODESORTER_CACHE_XOBJECTS undefined.
The hand-written model (lean/XalanModel/C16/Sort.lean) mirrors the rest and uses these definitions, so
the theorems in Props/C16.lean are re-checked against what the source says now.
"""
import json
import os
import re
import struct
import sys

HERE = os.path.dirname(os.path.abspath(__file__))
sys.path.insert(0, os.path.dirname(HERE))
from vlib import common  # noqa: E402

SRC = os.path.join(common.REPO, "src", "xalanc", "XSLT", "NodeSorter.cpp")
OUT = os.path.join(common.GEN, "C16_NodeSorter.lean")


class Unsupported(Exception):
    pass


def strip_comments(s):
    s = re.sub(r"/\*.*?\*/", lambda m: re.sub(r"[^\n]", " ", m.group(0)), s, flags=re.S)
    s = re.sub(r"//[^\n]*", "", s)
    return s


def active_branch(src):
    """Resolve `#if defined(XALAN_NODESORTER_CACHE_XOBJECTS) A #else B #endif` to B (the macro must not be
    defined anywhere in the tree)."""
    out = []
    skipping = []
    for line in src.split("\n"):
        t = line.strip()
        if t.startswith("#if"):
            if "XALAN_NODESORTER_CACHE_XOBJECTS" in t:
                skipping.append("skip")
            else:
                skipping.append("keep")
            continue
        if t.startswith("#else") and skipping:
            skipping[-1] = "keep" if skipping[-1] == "skip" else ("skip" if skipping[-1] == "keep!" else skipping[-1])
            continue
        if t.startswith("#endif") and skipping:
            skipping.pop()
            continue
        if "skip" in skipping:
            out.append("")
        else:
            out.append(line)
    return "\n".join(out)


def match_brace(s, i, open_c="{", close_c="}"):
    assert s[i] == open_c, (s[i:i + 20])
    d = 0
    for j in range(i, len(s)):
        if s[j] == open_c:
            d += 1
        elif s[j] == close_c:
            d -= 1
            if d == 0:
                return j
    raise Unsupported("unbalanced " + open_c)


def function_body(src, header_re):
    m = re.search(header_re, src)
    if not m:
        raise Unsupported("function not found: " + header_re)
    i = src.index("{", m.end())
    j = match_brace(src, i)
    return src[i + 1:j], src[:i].count("\n") + 1


# ------------------------------------------------------------------ statements

def parse_stmts(s):
    """tiny statement parser: if/else chains, blocks, `x = e;`, declarations, asserts, return"""
    s = s.strip()
    res = []
    while s:
        st, s = parse_stmt(s)
        s = s.strip()
        if st is not None:
            res.append(st)
    return res


def parse_stmt(s):
    s = s.lstrip()
    if s.startswith("{"):
        j = match_brace(s, 0)
        return ("block", parse_stmts(s[1:j])), s[j + 1:]
    m = re.match(r"if\s*\(", s)
    if m:
        i = m.end() - 1
        j = match_brace(s, i, "(", ")")
        cond = s[i + 1:j]
        then, rest = parse_stmt(s[j + 1:])
        rest = rest.lstrip()
        els = None
        m2 = re.match(r"else\b", rest)
        if m2:
            els, rest = parse_stmt(rest[m2.end():])
        return ("if", cond, then, els), rest
    j = s.index(";")
    return ("simple", re.sub(r"\s+", " ", s[:j].strip())), s[j + 1:]


def nospace(e):
    return re.sub(r"\s+", "", e)


NUMFUN = {"isNaN": 1, "lessThan": 2, "greaterThan": 2, "equal": 2, "notEqual": 2, "lessThanOrEqual": 2,
          "greaterThanOrEqual": 2}


def tr_cond(c, names):
    c = nospace(c)
    m = re.fullmatch(r"(.*)==(true|false)", c)
    if m:
        return "(%s == %s)" % (tr_cond(m.group(1), names), m.group(2))
    m = re.fullmatch(r"DoubleSupport::(\w+)\(([^()]*)\)", c)
    if m and m.group(1) in NUMFUN:
        args = m.group(2).split(",")
        if len(args) != NUMFUN[m.group(1)] or m.group(1) in ("notEqual", "lessThanOrEqual", "greaterThanOrEqual"):
            raise Unsupported("call " + c)
        return "(Dbl.%s %s)" % (m.group(1), " ".join(tr_name(a, names) for a in args))
    raise Unsupported("condition `%s`" % c)


def tr_name(a, names):
    if a in names:
        return names[a]
    raise Unsupported("operand `%s`" % a)


def tr_rhs(e):
    e = nospace(e)
    if re.fullmatch(r"-?\d+", e):
        return "(%s : Int)" % e
    if e == "-theResult":
        return "(-theResult)"
    if e == "theResult":
        return "theResult"
    raise Unsupported("right-hand side `%s`" % e)


def emit(stmts, names, ind):
    """list of statements -> Lean expression of type Int (value of theResult afterwards)"""
    pad = "  " * ind
    lines = []
    for st in stmts:
        if st[0] == "block":
            lines.append(pad + "let theResult : Int :=\n" + emit(st[1], names, ind + 1))
        elif st[0] == "if":
            _, cond, then, els = st
            tb = then[1] if then[0] == "block" else [then]
            eb = [] if els is None else (els[1] if els[0] == "block" else [els])
            lines.append(pad + "let theResult : Int :=\n" + pad + "  if %s then\n" % tr_cond(cond, names)
                         + emit(tb, names, ind + 2) + "\n" + pad + "  else\n" + emit(eb, names, ind + 2))
        elif st[0] == "simple":
            m = re.fullmatch(r"theResult = (.*)", st[1])
            if not m:
                raise Unsupported("statement `%s`" % st[1])
            lines.append(pad + "let theResult : Int := " + tr_rhs(m.group(1)))
    lines.append(pad + "theResult")
    return "\n".join(lines)


def main():
    raw = open(SRC, encoding="utf-8", errors="replace").read()
    # the alternative string cache must stay compiled out
    rc, out = common.sh(["grep", "-rIl", "--include=*.hpp", "--include=*.cpp", "--include=*.h", "--include=*.txt",
                         "--include=*.cmake", "-E", r"define\s+XALAN_NODESORTER_CACHE_XOBJECTS|DXALAN_NODESORTER_CACHE_XOBJECTS",
                         os.path.join(common.REPO, "src"), os.path.join(common.REPO, "CMakeLists.txt")])
    if out.strip():
        raise Unsupported("XALAN_NODESORTER_CACHE_XOBJECTS is defined in: " + out.strip())
    src = active_branch(strip_comments(raw))
    facts = {}

    # --- 1. the sentinel
    body, line = function_body(src, r"NodeSorter::NodeSortKeyCompare::getNumberResult\s*\(")
    m = re.search(r"const\s+double\s+theDummyValue\s*=\s*([^;]+);", body)
    if not m:
        raise Unsupported("theDummyValue not found in getNumberResult")
    lit = nospace(m.group(1))
    special = {"DoubleSupport::getNaN()": float("nan"), "DoubleSupport::getPositiveInfinity()": float("inf"),
               "DoubleSupport::getNegativeInfinity()": float("-inf")}
    if lit in special:
        val = special[lit]
    else:
        m2 = re.fullmatch(r"([-+]?[0-9]*\.?[0-9]*(?:[eE][-+]?[0-9]+)?)[lLfF]?", lit)
        if not m2 or not m2.group(1):
            raise Unsupported("sentinel literal `%s`" % lit)
        val = float(m2.group(1))
    bits = struct.unpack(">Q", struct.pack(">d", val))[0]
    facts["dummy_literal"] = lit
    facts["dummy_bits"] = "%016x" % bits
    # shape of the cache test: DoubleSupport::equal(slot, theDummyValue)
    if not re.search(r"DoubleSupport::equal\(\s*theCache\[theKeyIndex\]\[theEntry\.m_position\]\s*,\s*theDummyValue\s*\)\s*==\s*true", body):
        raise Unsupported("getNumberResult: `DoubleSupport::equal(slot, theDummyValue) == true` test not found")
    if len(re.findall(r"theCache\[theKeyIndex\]\[theEntry\.m_position\]\s*=\s*getResult\(", body)) != 2:
        raise Unsupported("getNumberResult: expected two stores `theCache[theKeyIndex][theEntry.m_position] = getResult(`")
    if not re.search(r"return\s+theCache\[theKeyIndex\]\[theEntry\.m_position\]\s*;", body):
        raise Unsupported("getNumberResult: return of the cached slot not found")

    # --- 2. string cache: notCached = empty()
    m = re.search(r"notCached\s*\(\s*const\s+XalanDOMString&\s*\w+\s*\)\s*\{\s*return\s+(\w+)\.empty\(\)\s*;\s*\}", src)
    if not m:
        raise Unsupported("notCached(const XalanDOMString&) { return x.empty(); } not found")
    sbody, _ = function_body(src, r"NodeSorter::NodeSortKeyCompare::getStringResult\s*\(")
    if not re.search(r"notCached\(\s*theCache\[theKeyIndex\]\[theEntry\.m_position\]\s*\)\s*==\s*true", sbody):
        raise Unsupported("getStringResult: notCached(slot) == true test not found")
    if not re.search(r"return\s+cacheValue\(\s*theCache\[theKeyIndex\]\[theEntry\.m_position\]\s*\)\s*;", sbody):
        raise Unsupported("getStringResult: return cacheValue(slot) not found")

    # --- 3. compare(): shape + numeric chain
    cbody, cline = function_body(src, r"NodeSorter::NodeSortKeyCompare::compare\s*\(")
    stmts = parse_stmts(cbody)
    stmts = [s for s in stmts if not (s[0] == "simple" and s[1].startswith("assert"))]
    kinds = [s[0] for s in stmts]
    if kinds != ["simple", "simple", "if", "if", "simple"]:
        raise Unsupported("compare(): top-level statement shape changed: %r" % kinds)
    if nospace(stmts[0][1]) != "inttheResult=0":
        raise Unsupported("compare(): `int theResult = 0;` expected, got " + stmts[0][1])
    if nospace(stmts[1][1]) != "constNodeSortKey&theKey=m_nodeSortKeys[theKeyIndex]":
        raise Unsupported("compare(): key fetch changed: " + stmts[1][1])
    if nospace(stmts[4][1]) != "returntheResult":
        raise Unsupported("compare(): `return theResult;` expected")
    _, cond, then, els = stmts[2]
    if nospace(cond) != "theKey.getTreatAsNumbers()==false" or els is None:
        raise Unsupported("compare(): `if(theKey.getTreatAsNumbers() == false) … else …` expected, got " + cond)
    # text branch
    tb = [nospace(s[1]) for s in then[1]] if then[0] == "block" else []
    want_tb = ["constXalanDOMString&theLHSString=getStringResult(theKey,theKeyIndex,theLHS)",
               "constXalanDOMString&theRHSString=getStringResult(theKey,theKeyIndex,theRHS)",
               "theResult=doCollationCompare(m_executionContext,theLHSString,theRHSString,theKey.getLanguageString(),theKey.getCaseOrder())"]
    if tb != want_tb:
        raise Unsupported("compare(): text branch changed: %r" % tb)
    # number branch
    nb = els[1] if els[0] == "block" else [els]
    names = {}
    rest = []
    for s in nb:
        if s[0] == "simple":
            m = re.fullmatch(r"const double (\w+) = getNumberResult\(theKey, theKeyIndex, (theLHS|theRHS)\)", s[1])
            if m:
                names[m.group(1)] = "numL" if m.group(2) == "theLHS" else "numR"
                continue
        rest.append(s)
    if sorted(names.values()) != ["numL", "numR"]:
        raise Unsupported("compare(): number branch must fetch one number for theLHS and one for theRHS: %r" % names)
    fetch_order = [names[k] for k in names]
    if fetch_order != ["numL", "numR"]:
        raise Unsupported("compare(): numbers fetched in a different order: %r" % fetch_order)
    num_lean = emit(rest, names, 1)
    # tail: if (theResult != 0) { if (desc == true) { theResult = -theResult; } } else if (k+1 < size) { theResult = compare(l, r, k+1); }
    _, c2, t2, e2 = stmts[3]
    ok = nospace(c2) == "theResult!=0"
    t2b = t2[1] if t2[0] == "block" else [t2]
    ok = ok and len(t2b) == 1 and t2b[0][0] == "if" and nospace(t2b[0][1]) == "theKey.getDescending()==true" and t2b[0][3] is None
    if ok:
        inner = t2b[0][2][1] if t2b[0][2][0] == "block" else [t2b[0][2]]
        ok = len(inner) == 1 and inner[0][0] == "simple" and nospace(inner[0][1]) == "theResult=-theResult"
    ok = ok and e2 is not None and e2[0] == "if" and nospace(e2[1]) == "theKeyIndex+1<m_nodeSortKeys.size()" and e2[3] is None
    if ok:
        inner = e2[2][1] if e2[2][0] == "block" else [e2[2]]
        ok = len(inner) == 1 and inner[0][0] == "simple" and nospace(inner[0][1]) == "theResult=compare(theLHS,theRHS,theKeyIndex+1)"
    if not ok:
        raise Unsupported("compare(): tail (non-zero -> descending flip; zero -> next key) changed")
    # operator(): compare(...) < 0
    hdr = open(os.path.join(common.REPO, "src", "xalanc", "XSLT", "NodeSorter.hpp"), encoding="utf-8", errors="replace").read()
    if not re.search(r"return\s+compare\(\s*theLHS\s*,\s*theRHS\s*,\s*theKeyIndex\s*\)\s*<\s*0\s*\?\s*true\s*:\s*false\s*;", strip_comments(hdr)):
        raise Unsupported("NodeSorter.hpp: operator() is no longer `compare(theLHS, theRHS, theKeyIndex) < 0 ? true : false`")
    # sort(): stable_sort over the scratch vector, entries (item(i), i), copy back in order
    sb, _ = function_body(src, r"NodeSorter::sort\(\s*StylesheetExecutionContext&\s*executionContext\s*\)")
    if not re.search(r"\bstable_sort\(\s*m_scratchVector\.begin\(\)\s*,\s*m_scratchVector\.end\(\)\s*,\s*theComparer\s*\)", sb):
        raise Unsupported("sort(): stable_sort(m_scratchVector.begin(), m_scratchVector.end(), theComparer) not found")
    # the guards that make the sorter clean at exit on the normal AND the exceptional path (model: Sorter.guards)
    g1 = re.search(r"const\s+CollectionClearGuard<\s*NumberResultsCacheType\s*>\s+\w+\(\s*m_numberResultsCache\s*\)\s*;", sb)
    g2 = re.search(r"const\s+CollectionClearGuard<\s*StringResultsCacheType\s*>\s+\w+\(\s*m_stringResultsCache\s*\)\s*;", sb)
    ss = re.search(r"\bstable_sort\(", sb)
    if not (g1 and g2 and ss and g1.start() < ss.start() and g2.start() < ss.start()):
        raise Unsupported("sort(): the two CollectionClearGuard objects for m_numberResultsCache / m_stringResultsCache "
                          "are no longer constructed before stable_sort (caches would survive a sort that throws)")
    sb2, _ = function_body(src, r"NodeSorter::sort\(\s*StylesheetExecutionContext&\s*executionContext\s*,\s*MutableNodeRefList&\s*theList\s*\)")
    g3 = re.search(r"CollectionClearGuard<\s*NodeVectorType\s*>\s+\w+\(\s*m_scratchVector\s*\)\s*;", sb2)
    pb = re.search(r"m_scratchVector\.push_back\(", sb2)
    if not (g3 and pb and g3.start() < pb.start()):
        raise Unsupported("sort(list): the CollectionClearGuard for m_scratchVector is no longer constructed before the vector is filled")
    efe0 = strip_comments(open(os.path.join(common.REPO, "src", "xalanc", "XSLT", "ElemForEach.cpp"), encoding="utf-8", errors="replace").read())
    scb0, _ = function_body(efe0, r"ElemForEach::sortChildren\(")
    # re-entrancy (model: innerSortFixed): the shared sorter is used only when idle, a private one otherwise
    lm = re.search(r"NodeSorter\s+(\w+)\(\s*executionContext\.getMemoryManager\(\)\s*\)\s*;\s*"
                   r"if\s*\(\s*sorter->getSortKeys\(\)\.empty\(\)\s*==\s*false\s*\)\s*\{\s*sorter\s*=\s*&(\w+)\s*;\s*\}", scb0)
    km = re.search(r"NodeSortKeyVectorType&\s*keys\s*=\s*sorter->getSortKeys\(\)\s*;", scb0)
    facts["reentrant_sorter_guard"] = bool(lm and km and lm.group(1) == lm.group(2) and lm.end() <= km.start())
    if not facts["reentrant_sorter_guard"]:
        raise Unsupported("sortChildren: no private NodeSorter is substituted when the execution context's shared sorter is in use "
                          "(its key vector is not empty): a sort started from a sort key's evaluation would re-enter the active sorter")
    g4 = re.search(r"CollectionClearGuard<\s*NodeSortKeyVectorType\s*>\s+\w+\(\s*keys\s*\)\s*;", scb0)
    lp = re.search(r"\bfor\s*\(", scb0)
    if not (g4 and lp and g4.start() < lp.start() and re.search(r"NodeSortKeyVectorType&\s*keys\s*=\s*sorter->getSortKeys\(\)\s*;", scb0)):
        raise Unsupported("sortChildren: the CollectionClearGuard for the sorter's key vector is no longer constructed before the xsl:sort loop")
    for pat, what in [(r"m_keys\.empty\(\)\s*==\s*false", "m_keys.empty() == false guard"),
                      (r"m_scratchVector\.push_back\(\s*NodeVectorType::value_type\(\s*theList\.item\(i\)\s*,\s*i\s*\)\s*\)", "push_back(value_type(theList.item(i), i))"),
                      (r"theList\.clear\(\)", "theList.clear()"),
                      (r"theList\.addNode\(\s*m_scratchVector\[i\]\.m_node\s*\)", "theList.addNode(m_scratchVector[i].m_node)")]:
        if not re.search(pat, sb2):
            raise Unsupported("sort(list): %s not found" % what)


    # --- 4. ICU bridge: the collator cache model (lean/XalanModel/C16/Sort.lean `collate`) mirrors these
    icu = os.path.join(common.REPO, "src", "xalanc", "ICUBridge", "ICUBridgeCollationCompareFunctorImpl.cpp")
    isrc = strip_comments(open(icu, encoding="utf-8", errors="replace").read())
    ib, _ = function_body(isrc, r"ICUBridgeCollationCompareFunctorImpl::doCompare\(\s*CollatorType&")
    ist = [x for x in parse_stmts(ib) if not (x[0] == "simple" and x[1].startswith("assert"))]
    if not (len(ist) >= 2 and ist[0][0] == "simple" and nospace(ist[0][1]) == "UErrorCodetheStatus=U_ZERO_ERROR"
            and ist[1][0] == "simple"
            and nospace(ist[1][1]) == "theCollator.setAttribute(UCOL_CASE_FIRST,caseOrderConvert(theCaseOrder),theStatus)"):
        raise Unsupported("ICU bridge: doCompare(CollatorType&, …, caseOrder) no longer sets UCOL_CASE_FIRST unconditionally "
                          "from its own case-order before comparing")
    for co, attr in (("eLowerFirst", "UCOL_LOWER_FIRST"), ("eUpperFirst", "UCOL_UPPER_FIRST")):
        if not re.search(r"case\s+XalanCollationServices::%s\s*:\s*return\s+%s\s*;" % (co, attr), isrc):
            raise Unsupported("ICU bridge: caseOrderConvert(%s) is no longer %s" % (co, attr))
    cb, _ = function_body(isrc, r"inline\s+UColAttributeValue\s+caseOrderConvert\(")
    if not re.search(r"return\s+UCOL_DEFAULT\s*;\s*$", cb.strip()):
        raise Unsupported("ICU bridge: caseOrderConvert(eDefault) is no longer UCOL_DEFAULT")
    ops = [m.start() for m in re.finditer(r"ICUBridgeCollationCompareFunctorImpl::operator\(\)\(", isrc)]
    if len(ops) != 2:
        raise Unsupported("ICU bridge: expected two operator() overloads")
    b3 = isrc[isrc.index("{", ops[0]):]
    b3 = b3[1:match_brace(b3, 0)]
    b4 = isrc[isrc.index("{", ops[1]):]
    b4 = b4[1:match_brace(b4, 0)]
    s3 = parse_stmts(b3)
    ok3 = (len(s3) == 1 and s3[0][0] == "if" and nospace(s3[0][1]) == "theCaseOrder==XalanCollationServices::eDefault"
           and "doDefaultCompare(theLHS,theRHS)" in nospace(str(s3[0][2]))
           and "doCompare(theLHS,theRHS,m_defaultCollatorLocaleName.c_str(),theCaseOrder)" in nospace(str(s3[0][3])))
    if not ok3:
        raise Unsupported("ICU bridge: operator()(lhs, rhs, caseOrder) dispatch changed")
    s4 = [x for x in parse_stmts(b4) if x[0] == "if"]
    ok4 = (len(s4) == 1
           and nospace(s4[0][1]) == "theCaseOrder==XalanCollationServices::eDefault&&XalanDOMString::equals(m_defaultCollatorLocaleName,theLocale)==true"
           and "doDefaultCompare(theLHS,theRHS)" in nospace(str(s4[0][2]))
           and s4[0][3] is not None and s4[0][3][0] == "if" and nospace(s4[0][3][1]) == "m_cacheCollators==true"
           and "doCompareCached(theLHS,theRHS,theLocale,theCaseOrder)" in nospace(str(s4[0][3][2]))
           and "doCompare(theLHS,theRHS,theLocale,theCaseOrder)" in nospace(str(s4[0][3][3])))
    if not ok4:
        raise Unsupported("ICU bridge: operator()(lhs, rhs, locale, caseOrder) dispatch changed")
    cc, _ = function_body(isrc, r"ICUBridgeCollationCompareFunctorImpl::doCompareCached\(")
    if not re.search(r"getCachedCollator\(theLocale\)", cc) or len(re.findall(r"doCompare\(\s*\*theCollator\s*,\s*theLHS\s*,\s*theRHS\s*,\s*theCaseOrder\s*\)", cc)) != 2 \
            or not re.search(r"cacheCollator\(\s*theCollatorGuard\.get\(\)\s*,\s*theLocale\s*\)", cc):
        raise Unsupported("ICU bridge: doCompareCached changed")
    # NodeSorter.cpp doCollationCompare: empty language -> 3-argument form
    dcb, _ = function_body(src, r"doCollationCompare\(")
    if nospace(parse_stmts(dcb)[0][1]) != "theLanguage.empty()==true":
        raise Unsupported("doCollationCompare: `theLanguage.empty() == true` dispatch changed")
    # each key owns its language (after the fix of the shared langString)
    nsk = strip_comments(open(os.path.join(common.REPO, "src", "xalanc", "XSLT", "NodeSortKey.hpp"), encoding="utf-8", errors="replace").read())
    facts["lang_per_key"] = bool(re.search(r"XalanDOMString\s+m_languageString\s*;", nsk))
    if not facts["lang_per_key"]:
        raise Unsupported("NodeSortKey no longer owns a copy of its language string (model: keyLangs)")
    efe = strip_comments(open(os.path.join(common.REPO, "src", "xalanc", "XSLT", "ElemForEach.cpp"), encoding="utf-8", errors="replace").read())
    scb, _ = function_body(efe, r"ElemForEach::sortChildren\(")
    if not re.search(r"getLangAVT\(\)\s*;\s*langString\.clear\(\)\s*;\s*if\s*\(\s*0\s*!=\s*avt\s*\)\s*\{\s*avt->evaluate\(\s*langString", scb):
        raise Unsupported("sortChildren no longer clears the language scratch string for each xsl:sort before evaluating its lang AVT")

    # --- 5. the context-node-list stack and its position cache (model: lean/XalanModel/C16/Position.lean)
    xp = os.path.join(common.REPO, "src", "xalanc", "XPath", "XPathExecutionContextDefault.cpp")
    xsrc = strip_comments(open(xp, encoding="utf-8", errors="replace").read())
    for fn, op in (("pushContextNodeList", r"m_contextNodeListStack\.push_back\(\s*&theList\s*\)"),
                   ("popContextNodeList", r"m_contextNodeListStack\.pop_back\(\s*\)")):
        fb, _ = function_body(xsrc, r"XPathExecutionContextDefault::%s\(" % fn)
        st = [nospace(x[1]) for x in parse_stmts(fb) if x[0] == "simple"]
        if "m_cachedPosition.clear()" not in st or not re.search(op, fb):
            raise Unsupported("XPathExecutionContextDefault::%s no longer clears m_cachedPosition (a position() after an inner "
                              "loop / predicate could answer from the inner list)" % fn)
    gb, _ = function_body(xsrc, r"XPathExecutionContextDefault::getContextNodeListPosition\(")
    gst = [x for x in parse_stmts(gb) if not (x[0] == "simple" and x[1].startswith("assert"))]
    okp = (len(gst) == 2 and gst[0][0] == "if" and nospace(gst[0][1]) == "m_cachedPosition.m_node==&contextNode"
           and gst[0][3] is not None and nospace(gst[1][1]) == "returnm_cachedPosition.m_index")
    if okp:
        eb = [nospace(x[1]) for x in (gst[0][3][1] if gst[0][3][0] == "block" else [gst[0][3]]) if x[0] == "simple"]
        okp = eb == ["constsize_typetheIndex=m_contextNodeListStack.back()->indexOf(&contextNode)",
                     "m_cachedPosition.m_index=theIndex==NodeRefListBase::npos?0:theIndex+1",
                     "m_cachedPosition.m_node=&contextNode"]
        tb = gst[0][2][1] if gst[0][2][0] == "block" else [gst[0][2]]
        okp = okp and all(x[0] == "simple" and x[1].startswith("assert") for x in tb)
    if not okp:
        raise Unsupported("XPathExecutionContextDefault::getContextNodeListPosition changed (cached node -> cached index; otherwise "
                          "indexOf in the top list + 1, 0 when absent, and cache it)")
    rb, _ = function_body(xsrc, r"XPathExecutionContextDefault::reset\(\s*\)")
    if not re.search(r"m_cachedPosition\.clear\(\)\s*;", rb):
        raise Unsupported("XPathExecutionContextDefault::reset no longer clears m_cachedPosition")

    # --- 6. which XPath::execute overloads evaluate the keys (model: evalKeyAt; Props.C16.nodeSorter_overloads_push_current
    #        obliges exactly these two, over C11's regenerated prologue table, to push the node as current node)
    calls = re.findall(r"theXPath->execute\(\s*theNode\s*,\s*thePrefixResolver\s*,\s*theExecutionContext\s*,\s*theResult\s*\)", src)
    if len(calls) != 2:
        raise Unsupported("NodeSorter.cpp getResult: expected exactly two calls theXPath->execute(theNode, thePrefixResolver, "
                          "theExecutionContext, theResult) (number and string), found %d" % len(calls))
    if not re.search(r"double\s+theResult\s*;\s*theXPath->execute\(", src):
        raise Unsupported("NodeSorter.cpp getResult (number): the key is no longer evaluated through the double& overload")
    if not re.search(r"XPathExecutionContext&\s*theExecutionContext\s*,\s*XalanDOMString&\s*theResult\s*\)", src):
        raise Unsupported("NodeSorter.cpp getResult (string): the key is no longer evaluated through the XalanDOMString& overload")
    # sortChildren: the selected (unsorted) list is the context node list during the sort
    if not re.search(r"ContextNodeListPushAndPop\s+\w+\(\s*executionContext\s*,\s*selectedNodeList\s*\)\s*;\s*sorter->sort\(\s*executionContext\s*,\s*sortedNodeList\s*\)", scb0):
        raise Unsupported("sortChildren: ContextNodeListPushAndPop(executionContext, selectedNodeList) no longer encloses sorter->sort")

    lean = """/- GENERATED by translate/c16_nodesorter.py from src/xalanc/XSLT/NodeSorter.cpp — do not edit.
   sentinel literal: %s   compare() at line %d -/
import XalanModel.C16.Dbl
namespace XalanModel.C16.Generated

/-- `theDummyValue` of getNumberResult, IEEE bits 0x%016x -/
def dummyValue : Dbl := Dbl.ofBits 0x%016x

/-- numeric branch of NodeSortKeyCompare::compare after the two key fetches
    (`numL` = value for theLHS, `numR` = value for theRHS); `theResult` is the incoming value (0). -/
def numCompare (numL numR : Dbl) (theResult : Int) : Int :=
%s

end XalanModel.C16.Generated
""" % (lit, cline, bits, bits, num_lean)
    os.makedirs(common.GEN, exist_ok=True)
    old = open(OUT).read() if os.path.exists(OUT) else None
    if old != lean:
        with open(OUT, "w") as f:
            f.write(lean)
    with open(os.path.join(common.GEN, "C16_NodeSorter.json"), "w") as f:
        json.dump({"source": SRC, "facts": facts, "compare_line": cline}, f, indent=1)
    print("c16_nodesorter: sentinel %s bits %016x; numeric chain translated (%d statements)" % (lit, bits, len(rest)))


if __name__ == "__main__":
    try:
        main()
    except Unsupported as e:
        print("c16_nodesorter: source no longer has the expected shape: %s" % e)
        sys.exit(1)
